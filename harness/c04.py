"""C04 - gauging, canonization and simplification preserve the denoted tensor.

Proof part (coq/C04): over an arbitrary commutative ring, on the shared network
semantics coq/Base/TN.v: every primitive the passes are made of (gauge insertion,
moving a matrix factor across a bond, scalar moves, exponent strip / distribute,
summing a dangling label, fusing labels, squeezing, diagonal / column reduction,
flipping, hyper-index copy insertion, pairwise contraction) preserves the value,
and so does every finite composition (rewrite_star_sound).  The three structure
finders are modelled (coq/C04/Model.v) and specified (sound, least, None iff none).
Tie (H, exact, evaluated inside Coq): (i) finder kernels vs model on small
integer arrays; (ii) every integer-preserving pass on random (Gaussian-)integer
hyper networks: Coq evaluates `dense` of the network before and after over the
outer labels (the very `value` the theorems are about) and compares.
Oracle (test, tolerance 1e-9): the QR/SVD based passes on float networks: dense
before == dense after, isometry of every tensor flagged with left_inds,
canonical form around a region, bond sizes, equal norms; networks whose value is
exactly zero.
"""

import itertools
import json
import warnings

import numpy as np

from harness import tnmodel as tm
from harness.common import natlist

RULE = (
    "integer stream: random hyper networks, 1-6 tensors of rank 0-4, dims 1-3 (mostly 2), labels from a pool of 7 "
    "(multibonds, 3-fold sharing, dangling and repeated labels frequent), integer or Gaussian-integer data with planted "
    "structure (diagonal / antidiagonal / one-hot column / COPY / zero / scalar tensors), stored exponent in "
    "{0,1,2,3,-1,-2}, outer labels either inferred or an explicit random subset that may contain bonds and hyper labels; "
    "each network goes through every integer-preserving pass. Finder stream: arrays of rank 0-4 with the same planted "
    "patterns. Wire stream: operator / circuit-like integer networks - 1-3 wires (d 2-3), one- and two-wire tensors "
    "(diagonal, antidiagonal, generalised permutation, controlled, swap, lone entry, dense) in every index order, stored in "
    "time / reversed / shuffled order, wire ends open on BOTH sides (operators), closed by (basis) vectors or traced; outer "
    "labels inferred by the harness, inferred by the pass (output_inds=None), outer + bonds, or a random subset; through "
    "antidiag_gauge, diagonal_reduce, column_reduce, rank_simplify, the three structure passes in random order sharing one "
    "cache, full_simplify sequences. Every antidiag_gauge / diagonal_reduce / column_reduce call made by any pass in any "
    "stream is traced (finder answer as labels -> action) and compared with the Coq decision model. Circuit stream (test): "
    "unitaries, states and partial amplitudes of random 1-3 qubit quimb Circuits (diagonal, antidiagonal, permutation and "
    "dense gates, every lazy gate layout). Oracle stream: float/complex tree and loopy networks through every QR/SVD based "
    "pass. Non-trivial: the pass changed the network (labels, shapes, data or exponent) / the traced call acted; distinct = "
    "distinct (network, pass)."
)

TOL = 1e-9
POOL = list("abcdefg")


# ----------------------------------------------------------------------------
# generators


def rand_entries(rng, n, cplx, lo=-2, hi=2):
    if cplx:
        return np.array([complex(rng.randint(lo, hi), rng.randint(lo, hi)) for _ in range(n)])
    return np.array([float(rng.randint(lo, hi)) for _ in range(n)])


def struct_array(rng, shape, cplx, kinds=None):
    """integer array with a planted zero structure; returns (array, kind)."""
    shape = tuple(shape)
    n = int(np.prod(shape)) if shape else 1
    a = rand_entries(rng, n, cplx).reshape(shape)
    kinds = kinds or ["rand", "rand", "rand", "diag", "antidiag", "column", "zero", "copy", "nonzero", "twocol"]
    kind = rng.choice(kinds)
    nd = len(shape)
    if kind == "nonzero":
        a = a + (a == 0) * 1.0
    elif kind == "zero" and rng.random() < 0.3:
        a = a * 0
    elif kind in ("diag", "antidiag") and nd >= 2:
        pairs = [(i, j) for i in range(nd) for j in range(i + 1, nd) if shape[i] == shape[j]]
        if pairs:
            i, j = rng.choice(pairs)
            idx = np.indices(shape)
            if kind == "diag":
                mask = idx[i] == idx[j]
            else:
                mask = idx[i] == shape[i] - 1 - idx[j]
            a = a * mask
            if rng.random() < 0.6:
                a = a + mask * (a == 0)
    elif kind in ("column", "twocol") and nd >= 1:
        idx = np.indices(shape)
        mask = np.ones(shape, dtype=bool)
        for ax in rng.sample(range(nd), 1 if kind == "column" else min(2, nd)):
            mask &= idx[ax] == rng.randrange(shape[ax])
        a = a * mask
        if rng.random() < 0.5:
            a = a + mask * (a == 0)
    elif kind == "onehot":
        pass
    elif kind == "copy" and nd >= 2 and len(set(shape)) == 1:
        idx = np.indices(shape)
        mask = np.ones(shape, dtype=bool)
        for ax in range(1, nd):
            mask &= idx[ax] == idx[0]
        a = mask.astype(a.dtype)
    return a, kind


def rand_int_network(rng, cplx, repeated=False, max_tensors=6):
    import quimb.tensor as qtn

    dims = {i: rng.choice([1, 2, 2, 2, 2, 3]) for i in POOL}
    nt = rng.randint(1, max_tensors)
    budget = 800  # bound on prod(dims of used labels): keeps the Coq evaluation cheap
    ts, kinds, used = [], [], {}
    for k in range(nt):
        r = rng.choice([0, 1, 2, 2, 3, 3, 3, 4])
        inds = tuple(rng.sample(POOL, r))
        if ts and r >= 2 and rng.random() < 0.4:
            # plant a multibond: share two (or three) labels with an earlier tensor
            prev = [i for i in dict.fromkeys(rng.choice(ts).inds)]
            m = min(len(prev), r, rng.choice([2, 2, 3]))
            if m >= 2:
                shared = rng.sample(prev, m)
                rest = [i for i in inds if i not in shared][: r - m]
                lst = shared + rest
                rng.shuffle(lst)
                inds = tuple(lst)
        if repeated and r >= 2 and rng.random() < 0.5:
            lst = list(inds)
            lst[rng.randrange(1, r)] = lst[0]
            inds = tuple(lst)
        new = dict(used)
        for i in inds:
            new[i] = dims[i]
        if int(np.prod(list(new.values()) or [1])) > budget:
            continue
        used = new
        arr, kind = struct_array(rng, [dims[i] for i in inds], cplx)
        if len(set(inds)) < len(inds):
            kind = "repeated:" + kind
        ts.append(qtn.Tensor(arr, inds, tags=[f"T{k}"]))
        kinds.append(kind)
    if not ts:
        ts.append(qtn.Tensor(rand_entries(rng, 1, cplx).reshape(()), (), tags=["T0"]))
        kinds.append("scalar")
    tn = qtn.TensorNetwork(ts)
    return tn, kinds


def targeted_network(rng, cplx):
    """a tensor with a planted (anti)diagonal / column structure on labels p, q, surrounded by random tensors, with the
    outer labels chosen so that every branch of the passes' output handling occurs: only p, only q, both, none outer."""
    import quimb.tensor as qtn

    d = rng.choice([2, 2, 3])
    kind = rng.choice(["diag", "antidiag", "column", "diag", "antidiag"])
    extra = rng.choice([[], ["r"], ["r"]])
    dims = {"p": d, "q": d, "r": rng.choice([1, 2, 3]), "x": rng.choice([2, 3]), "y": 2, "z": rng.choice([1, 2])}
    sinds = ["p", "q"] + extra
    rng.shuffle(sinds)
    shape = [dims[i] for i in sinds]
    a = rand_entries(rng, int(np.prod(shape)), cplx).reshape(shape)
    a = a + (a == 0)
    idx = np.indices(shape)
    ip, iq = sinds.index("p"), sinds.index("q")
    if kind == "diag":
        a = a * (idx[ip] == idx[iq])
    elif kind == "antidiag":
        a = a * (idx[ip] == d - 1 - idx[iq])
    else:
        a = a * (idx[rng.choice([ip, iq])] == rng.randrange(d))
    ts = [qtn.Tensor(a, tuple(sinds), tags=["T0"])]
    kinds = ["targeted:" + kind]
    others = [("p", "x"), ("q", "y"), ("q", "x", "z"), ("p", "y"), ("p", "q", "x"), ("r", "y"), ("x", "y", "z"), ("p",), ("q", "z")]
    for k, inds in enumerate(rng.sample(others, rng.randint(1, 4))):
        if "r" in inds and not extra:
            continue
        arr, kd = struct_array(rng, [dims[i] for i in inds], cplx, kinds=["rand", "rand", "nonzero", "diag", "column"])
        ts.append(qtn.Tensor(arr, inds, tags=[f"T{k + 1}"]))
        kinds.append(kd)
    tn = qtn.TensorNetwork(ts)
    present = set(tn.ind_map)
    outs = rng.choice([("p",), ("q",), ("p", "q"), (), ("p", "x"), ("q", "x"), ("q", "y", "p"), ("x",)])
    outs = tuple(o for o in outs if o in present)
    return tn, kinds, outs


def _nzval(rng, cplx):
    while True:
        v = complex(rng.randint(-2, 3), rng.randint(-1, 1)) if cplx else float(rng.randint(-2, 3))
        if v != 0:
            return v


GATE1_KINDS = ["diag", "diag", "antidiag", "antidiag", "antidiag", "perm", "dense", "rand", "proj", "ident"]
GATE2_KINDS = ["cz", "cx", "cx_rev", "swap", "anti_x_diag", "diag_x_anti", "anti_x_anti", "dense"]


def gate1(rng, d, cplx, kind):
    """one-wire operator as a (d, d) array indexed [out, in] with a planted structure"""
    a = np.zeros((d, d), dtype=complex if cplx else float)
    if kind == "diag":
        for k in range(d):
            a[k, k] = _nzval(rng, cplx)
    elif kind == "antidiag":
        for k in range(d):
            a[k, d - 1 - k] = _nzval(rng, cplx)
    elif kind == "perm":  # generalised permutation (for d = 2: diagonal or antidiagonal)
        perm = list(range(d))
        rng.shuffle(perm)
        for k in range(d):
            a[perm[k], k] = _nzval(rng, cplx)
    elif kind == "dense":
        for k in range(d * d):
            a.flat[k] = _nzval(rng, cplx)
    elif kind == "rand":
        a = rand_entries(rng, d * d, cplx).reshape(d, d).astype(a.dtype)
    elif kind == "proj":  # a single non-zero entry: lone columns on both legs
        a[rng.randrange(d), rng.randrange(d)] = _nzval(rng, cplx)
    else:
        a = np.eye(d, dtype=a.dtype)
    return a


def gate2(rng, d, cplx, kind):
    """two-wire operator as a (d, d, d, d) array indexed [out0, out1, in0, in1]"""
    if kind == "dense":
        a = np.array([_nzval(rng, cplx) for _ in range(d ** 4)]).reshape((d,) * 4)
    elif kind == "cz":  # diagonal in (out0, in0) and in (out1, in1)
        a = np.zeros((d,) * 4, dtype=complex if cplx else float)
        for i in range(d):
            for j in range(d):
                a[i, j, i, j] = _nzval(rng, cplx)
    elif kind in ("cx", "cx_rev"):  # controlled cyclic shift / reversal of the target (d = 2: CNOT)
        a = np.zeros((d,) * 4, dtype=complex if cplx else float)
        for c in range(d):
            for t in range(d):
                t2 = t if c == 0 else (d - 1 - t if rng.random() < 0.7 or d == 2 else (t + c) % d)
                a[c, t2, c, t] = _nzval(rng, cplx) if rng.random() < 0.3 else 1.0
        if kind == "cx_rev":
            a = a.transpose(1, 0, 3, 2)
    elif kind == "swap":
        a = np.zeros((d,) * 4, dtype=complex if cplx else float)
        for i in range(d):
            for j in range(d):
                a[j, i, i, j] = 1.0
    else:
        ka, kb = {"anti_x_diag": ("antidiag", "diag"), "diag_x_anti": ("diag", "antidiag"), "anti_x_anti": ("antidiag", "antidiag")}[kind]
        a = np.einsum("ac,bd->abcd", gate1(rng, d, cplx, ka), gate1(rng, d, cplx, kb))
    return a


def wire_network(rng, cplx, big=False):
    """operator-like networks: 1-3 wires of one dimension d, a sequence of structured one- and two-wire tensors acting
    on them ('gates': diagonal, antidiagonal, generalised permutation, controlled, swap, lone entry, dense), every
    index order on each tensor, the tensors stored in time order, reversed or shuffled (the passes pop their queue from
    the end: this decides who is visited first), each wire end open (an outer label: operators / unitaries have them
    on BOTH ends of a wire), closed by a vector / basis vector, or joined to the other end (trace).
    Returns (tn, kinds, true outer labels, inner labels)."""
    import quimb.tensor as qtn

    d = rng.choice([2, 2, 2, 3])
    nw = rng.choice([1, 1, 2, 2, 3])
    lmax = (10 if d == 2 else 6) if big else (7 if d == 2 else 5)
    cur = {w: f"w{w}_0" for w in range(nw)}
    first = dict(cur)
    nlab = nw
    ts, kinds = [], []
    for g in range(rng.randint(1, 6)):
        two = nw >= 2 and rng.random() < 0.3
        if nlab + (2 if two else 1) > lmax:
            break
        ws = rng.sample(range(nw), 2) if two else [rng.randrange(nw)]
        ins = [cur[w] for w in ws]
        for w in ws:
            cur[w] = f"w{w}_{g + 1}"
        nlab += len(ws)
        new = [cur[w] for w in ws]
        if two:
            kind = rng.choice(GATE2_KINDS)
            arr = gate2(rng, d, cplx, kind)
        else:
            kind = rng.choice(GATE1_KINDS)
            arr = gate1(rng, d, cplx, kind)
        inds = new + ins
        layout = rng.choice(["out_in", "in_out", "shuffled"])
        order = list(range(len(inds)))
        if layout == "in_out":
            order = order[len(ws):] + order[:len(ws)]
        elif layout == "shuffled":
            rng.shuffle(order)
        ts.append(qtn.Tensor(np.ascontiguousarray(arr.transpose(order)), tuple(inds[k] for k in order), tags=[f"T{len(ts)}"]))
        kinds.append("wire:" + kind)
    if not ts:
        ts.append(qtn.Tensor(gate1(rng, d, cplx, "antidiag"), ("w0_1", "w0_0"), tags=["T0"]))
        cur[0] = "w0_1"
        kinds.append("wire:antidiag")
    remap = {}
    for w in range(nw):
        if cur[w] == first[w]:
            continue  # untouched wire: no label at all
        ends = rng.choice([("open", "open"), ("open", "open"), ("open", "open"), ("vec", "open"), ("basis", "open"), ("open", "vec"),
                           ("open", "basis"), ("vec", "vec"), ("basis", "basis"), ("trace", "trace")])
        if ends[0] == "trace":
            n_on = sum(1 for t in ts if first[w] in t.inds or cur[w] in t.inds)
            if n_on >= 2:
                remap[cur[w]] = first[w]
            continue
        for lab, e in ((first[w], ends[0]), (cur[w], ends[1])):
            if e == "open":
                continue
            v = np.zeros(d, dtype=complex if cplx else float)
            if e == "basis":
                v[rng.randrange(d)] = _nzval(rng, cplx)
            else:
                for k in range(d):
                    v[k] = _nzval(rng, cplx)
            ts.append(qtn.Tensor(v, (lab,), tags=[f"T{len(ts)}"]))
            kinds.append("wire:end_" + e)
    storage = rng.choice(["time", "reversed", "shuffled"])
    if storage == "reversed":
        ts = ts[::-1]
    elif storage == "shuffled":
        rng.shuffle(ts)
    tn = qtn.TensorNetwork(ts)
    if remap:
        tn.reindex_(remap)
    cnt = label_counts(tn)
    outer = tuple(i for i in cnt if cnt[i] == 1)
    inner = tuple(i for i in cnt if cnt[i] > 1)
    return tn, kinds + ["storage:" + storage], outer, inner


def label_counts(tn):
    c = {}
    for t in tn.tensors:
        for i in t.inds:
            c[i] = c.get(i, 0) + 1
    return c


def net_dump(before):
    return [(list(inds), [[float(np.real(v)), float(np.imag(v))] for v in np.asarray(arr).reshape(-1)], list(np.shape(arr)))
            for inds, arr in before]


def net_load(dump, exponent=0):
    import quimb.tensor as qtn

    ts = []
    for k, (inds, flat, shape) in enumerate(dump):
        a = np.array([complex(r, i) for r, i in flat])
        if not np.any(a.imag):
            a = a.real
        ts.append(qtn.Tensor(a.reshape(shape), tuple(inds), tags=[f"T{k}"]))
    tn = qtn.TensorNetwork(ts)
    tn.exponent = exponent
    return tn


# ----------------------------------------------------------------------------
# integer-preserving passes: name -> fn(tn, outs, args) -> (tn_after, scalar factor the value is multiplied by)


def _unimodular(rng, d):
    """integer matrix with integer inverse (product of elementary shears / swaps / sign flips)."""
    U = np.eye(d)
    Ui = np.eye(d)
    for _ in range(3):
        if d >= 2:
            i, j = rng.sample(range(d), 2)
            c = rng.choice([-2, -1, 1, 2])
            S = np.eye(d)
            S[i, j] = c
            Si = np.eye(d)
            Si[i, j] = -c
            U, Ui = S @ U, Ui @ Si
        k = rng.randrange(d)
        F = np.eye(d)
        F[k, k] = -1
        U, Ui = F @ U, Ui @ F
    return U, Ui


def _oi(outs, a):
    """output_inds handed to the pass: the outer labels, or None (args['infer']: only when `outs` ARE the labels occurring
    once) so that the pass's own default inference is exercised too"""
    return None if a.get("infer") else outs


def p_rank_simplify(tn, outs, a):
    return tn.rank_simplify(output_inds=_oi(outs, a)), 1


def p_diagonal_reduce(tn, outs, a):
    return tn.diagonal_reduce(output_inds=_oi(outs, a)), 1


def p_antidiag_gauge(tn, outs, a):
    return tn.antidiag_gauge(output_inds=_oi(outs, a)), 1


def p_column_reduce(tn, outs, a):
    return tn.column_reduce(output_inds=_oi(outs, a)), 1


def p_structure_shared_cache(tn, outs, a):
    """the three structure passes called in place, in any order, any number of times, sharing one persistent `cache`
    (the way full_simplify drives them, without its squeeze / rank steps)"""
    tn = tn.copy()
    cache = set()
    for letter in a["order"]:
        meth = {"A": tn.antidiag_gauge_, "D": tn.diagonal_reduce_, "C": tn.column_reduce_}[letter]
        # always the declared labels: after a diagonal reduction an outer label may also be a bond, so a LATER call
        # inferring "labels occurring once" would rightly no longer see it (documented: pass output_inds then)
        meth(output_inds=outs, cache=cache)
    return tn, 1


def p_fuse_multibonds(tn, outs, a):
    return tn.fuse_multibonds(exclude=outs), 1


def p_squeeze_inner(tn, outs, a):
    return tn.squeeze(exclude=outs), 1


def p_squeeze_all(tn, outs, a):
    return tn.squeeze(), 1


def p_collapse_repeated(tn, outs, a):
    tn = tn.copy()
    for t in tn.tensors:
        t.collapse_repeated_()
    return tn, 1


def p_full_simplify(tn, outs, a):
    return tn.full_simplify(a["seq"], output_inds=_oi(outs, a)), 1


def p_hyperinds_resolve(tn, outs, a):
    return tn.hyperinds_resolve(mode=a["mode"], output_inds=outs), 1


def p_multiply(tn, outs, a):
    return tn.multiply(a["x"], spread_over=a["spread"]), a["x"]


def p_multiply_each(tn, outs, a):
    return tn.multiply_each(a["x"]), a["x"] ** tn.num_tensors


def p_negate(tn, outs, a):
    return tn.negate(), -1


def p_flip(tn, outs, a):
    return tn.flip(a["inds"]), 1


def p_insert_gauge(tn, outs, a):
    tn = tn.copy()
    tn._insert_gauge_tids(np.array(a["U"]), a["tid1"], a["tid2"], Uinv=np.array(a["Uinv"]), bond=a["bond"])
    return tn, 1


def p_distribute_exponent(tn, outs, a):
    tn = tn.copy()
    tn.distribute_exponent(a["new"])
    return tn, 1


def p_strip_exponent(tn, outs, a):
    tn = tn.copy()
    for tid, v in zip(list(tn.tensor_map), a["values"]):
        if v is not None:
            tn.strip_exponent(tid, value=v)
    return tn, 1


def p_equalize_norms_value(tn, outs, a):
    return tn.equalize_norms(value=a["value"]), 1


PASSES = {
    "rank_simplify": p_rank_simplify,
    "diagonal_reduce": p_diagonal_reduce,
    "antidiag_gauge": p_antidiag_gauge,
    "column_reduce": p_column_reduce,
    "structure_passes[shared_cache]": p_structure_shared_cache,
    "fuse_multibonds": p_fuse_multibonds,
    "squeeze[exclude=outer]": p_squeeze_inner,
    "squeeze": p_squeeze_all,
    "collapse_repeated": p_collapse_repeated,
    "full_simplify": p_full_simplify,
    "hyperinds_resolve": p_hyperinds_resolve,
    "multiply": p_multiply,
    "multiply_each": p_multiply_each,
    "negate": p_negate,
    "flip": p_flip,
    "insert_gauge": p_insert_gauge,
    "distribute_exponent": p_distribute_exponent,
    "strip_exponent": p_strip_exponent,
    "equalize_norms[value]": p_equalize_norms_value,
}

SEQS_QUICK = ["A", "D", "C", "R", "AD", "DC", "CR", "DR", "ADCR", "RCDA"]


def net_signature(tn):
    return (sorted((tuple(t.inds), tuple(t.shape)) for t in tn.tensors), float(np.real(tn.exponent)))


def changed(tn0, tn1):
    if net_signature(tn0) != net_signature(tn1):
        return True
    for a, b in zip(tn0.tensors, tn1.tensors):
        if a.inds != b.inds or not np.array_equal(np.asarray(a.data), np.asarray(b.data)):
            return True
    return False


def np_dense(tensors, outs, exponent=0):
    """numpy reference (einsum over integer labels, pairwise contraction order so that large networks stay cheap)."""
    namer = tm.Namer()
    args = []
    for inds, arr in tensors:
        args += [np.asarray(arr), [namer(i) for i in inds]]
    out = [namer(o) for o in outs]
    return np.einsum(*args, out, optimize="greedy" if len(tensors) > 2 else False) * (10.0 ** exponent)


def np_same(before, e0, after, e1, outs, factor=1):
    """numpy oracle: dense(before)*10^e0*factor == dense(after)*10^e1 over outs (tolerance)."""
    ref = np_dense(before, outs, e0) * factor
    got = np_dense(after, outs, e1)
    if ref.shape != got.shape:
        return False, f"shape {ref.shape} vs {got.shape}"
    scale = max(1.0, float(np.max(np.abs(ref))) if ref.size else 1.0)
    if not np.all(np.isfinite(got)):
        return False, "non-finite entries"
    err = float(np.max(np.abs(ref - got))) if ref.size else 0.0
    # float round-off of a sum whose terms cancel is bounded by eps * sum|terms| <= eps * prod of Frobenius norms
    with np.errstate(over="ignore"):
        P = float(np.prod([max(1e-300, float(np.linalg.norm(np.asarray(a)))) for _, a in before])) * 10.0 ** float(e0) * abs(factor)
    allowed = TOL * scale + (1e-13 * P if np.isfinite(P) else 0.0)
    return err <= allowed, f"max abs err {err:.3e} (allowed {allowed:.3e})"


def robust_coq_cases(ctx, name, header, cases, shard):
    """ctx.coq_cases with a generous timeout; shards that died without any output (killed by the timeout on an
    oversubscribed machine - not a Coq error) are re-run once, two at a time."""
    import re

    failed, errors = ctx.coq_cases(name, header, cases, shard=shard, timeout=1500)
    real, retry = [], []
    for path, err in errors:
        m = re.search(r"cases_%s_(\d+)\.v$" % re.escape(name), path)
        if m and not str(err).strip():
            si = int(m.group(1))
            retry += cases[si * shard:(si + 1) * shard]
        else:
            real.append((path, err))
    if retry:
        ctx.bump("coq_shards_retried_after_timeout")
        ctx.traces -= len(retry)  # they were not evaluated in the first attempt
        f2, e2 = ctx.coq_cases(name + "_retry", header, retry, shard=max(20, shard // 3), timeout=3000, jobs=2)
        failed += f2
        real += e2
    return failed, real


class Collector:
    def __init__(self):
        self.cases = []
        self.info = {}

    def add(self, desc, expr):
        cid = len(self.cases) + 1
        self.cases.append((cid, expr))
        self.info[cid] = desc


TRACE_HEADER = ("From Coq Require Import ZArith QArith Arith List Bool.\nFrom QV Require Import C04.Model.\nImport ListNotations.\n"
                "Close Scope Q_scope.\n")


def trace_collector(ctx):
    tc = getattr(ctx, "_c04_traces", None)
    if tc is None:
        tc = ctx._c04_traces = Collector()
    return tc


def check_traces(ctx, name, desc, spy, outs, tag=""):
    """decision trace of the structure passes made during one (entry) pass on one network.
    (a) direct, independent of the model: the side condition of the rewrite theorems - the label that is flipped /
        removed / sliced is SUMMED, i.e. not one of the outer labels (C04_flip_sound, C04_diag_reduce_sound,
        C04_column_reduce_sound are false without it) -> concrete violation <entry pass>:trace:output_label_*;
    (b) exact correspondence, evaluated in Coq: the decisions are those of Model.ag_decisions / dr_choose / cr_choose
        (theorems C04_antidiag_pass_flips_spec, C04_antidiag_gauge_pass_sound, C04_diagonal_reduce_choice_sound)."""
    key = name.split("[")[0]
    outs_set = set(outs)
    if spy.untraced:
        ctx.bump("trace:untraced_events")
        ctx._c04_untraced = getattr(ctx, "_c04_untraced", 0) + spy.untraced
    tcol = trace_collector(ctx)
    flagged = set()
    for ci, call in enumerate(spy.calls):
        kind, steps = call["pass"], call["steps"]
        if not steps:
            continue
        ctx.bump("trace:" + spy.OWNER[kind])
        acted = [st for st in steps if st[2] not in (None, False)]
        ctx.count((desc["net"], name, json.dumps(desc["args"], default=str), "trace", ci), bool(acted))
        if kind == "ag":
            touched, word = [st[2] for st in acted], "flipped"
            if any(st[2] is None for st in steps):
                ctx.bump("trace:antidiag:left_alone")
            if any(st[2] is None and (st[0] not in outs_set or st[1] not in outs_set) for st in steps):
                ctx.bump("trace:antidiag:left_alone_because_already_flipped")
        elif kind == "dr":
            touched, word = [st[2][0] for st in acted], "removed"
        else:
            touched, word = [st[0] for st in acted], "sliced"
        bad = [x for x in touched if x in outs_set]
        d = dict(desc)
        d["trace"] = {"pass": spy.OWNER[kind], "call": ci, "steps": steps}
        if bad and (kind, word) not in flagged:
            flagged.add((kind, word))
            ctx.violation(f"{key}:trace:output_label_{word}",
                          f"{name}{tag}: {spy.OWNER[kind]} {word} the outer label(s) {bad} (outer labels {sorted(outs_set)}); "
                          f"decisions of that call: {steps}", d)
        namer = tm.Namer()
        ol = tm.nlist([namer(o) for o in outs])
        if kind == "cr":
            hist = tm.nlist([namer(st[0]) for st in steps])
            obs = "[" + "; ".join("true" if st[2] else "false" for st in steps) + "]"
            expr = f"cr_trace_ok {ol} {hist} {obs}"
        else:
            hist = "[" + "; ".join(f"({namer(st[0])}%nat, {namer(st[1])}%nat)" for st in steps) + "]"
            if kind == "ag":
                obs = "[" + "; ".join("None" if st[2] is None else f"Some {namer(st[2])}%nat" for st in steps) + "]"
                expr = f"ag_trace_ok {ol} {hist} {obs}"
            else:
                obs = "[" + "; ".join("None" if st[2] is None else f"Some ({namer(st[2][0])}%nat, {namer(st[2][1])}%nat)"
                                      for st in steps) + "]"
                expr = f"dr_trace_ok {ol} {hist} {obs}"
        tcol.add(d, expr)


def trace_correspondence(ctx):
    """stage: all collected decision traces against the Coq model (exact)."""
    tcol = trace_collector(ctx)
    failed, errors = robust_coq_cases(ctx, "traces", TRACE_HEADER, tcol.cases, 1500)
    for path, err in errors:
        ctx.broken_obligation("correspondence:traces:" + path.split("/")[-1], err)
    if getattr(ctx, "_c04_untraced", 0):
        ctx.broken_obligation("trace:structure_passes", f"{ctx._c04_untraced} finder / action events of the structure passes could not be "
                              "attributed to a tensor of the network (the tracing spy no longer matches the code)")
    seen = set()
    for c in failed:
        d = tcol.info[c]
        k = d["trace"]["pass"]
        if k in seen:
            continue
        seen.add(k)
        ctx.broken_obligation(f"correspondence:trace:{k}",
                              f"decisions of {k} (during {d['pass']} {d['args']}, outer labels {d['outs']}) differ from the model: "
                              f"{d['trace']['steps']}")
        # direct oracle on that very case: does the pass change the denoted tensor?
        try:
            tn = net_load(d["tensors"], d.get("exponent", 0))
            fn = {"antidiag_gauge": tn.antidiag_gauge, "diagonal_reduce": tn.diagonal_reduce, "column_reduce": tn.column_reduce}[k]
            with warnings.catch_warnings():
                warnings.simplefilter("ignore")
                after = fn(output_inds=tuple(d["outs"]))
            ok, msg = np_same(tm.qtn_tensors(tn), float(np.real(tn.exponent)), tm.qtn_tensors(after), float(np.real(after.exponent)),
                              tuple(d["outs"]))
            if not ok:
                ctx.violation(f"{k}:value", f"{k}(output_inds={d['outs']}) changes the denoted tensor ({msg}); its decisions differ from the "
                              f"model: {d['trace']['steps']}", d)
        except Exception:
            pass
    ctx.extra["coq_cases_traces"] = len(tcol.cases)


def run_pass(ctx, col, netid, tn0, outs, name, args, explicit, tag=""):
    """apply one pass to a copy of tn0 and register the exact check (or decide with the oracle)."""
    before = tm.qtn_tensors(tn0)
    e0 = float(np.real(tn0.exponent))
    key = name.split("[")[0]
    desc = {"net": netid, "pass": name, "args": args, "outs": list(outs), "explicit_outs": explicit,
            "exponent": e0, "tensors": net_dump(before),
            "input_class": "repeated_label_on_tensor" if any(len(set(t.inds)) < len(t.inds) for t in tn0.tensors) else "plain"}
    ctx.bump("pass:" + name + (":" + args["seq"] if "seq" in args else ""))
    spy = spy_multiply()
    try:
        with warnings.catch_warnings(), spy:
            warnings.simplefilter("ignore")
            after_tn, factor = PASSES[name](tn0.copy(), tuple(outs), args)
    except Exception as e:
        ctx.count((netid, name, json.dumps(args, default=str)), True)
        if spy.zero_spread:
            ctx.violation(f"{key}:multiply_by_zero_scalar",
                          f"{name}{tag} reaches TensorNetwork.multiply(0.0) spread over >= 2 tensors and raises {type(e).__name__}", desc)
        else:
            ctx.violation(f"{key}:raised:{type(e).__name__}", f"{name}{tag} raised {type(e).__name__}: {str(e)[:120]} on a valid network", desc)
        return None
    desc["_zero_spread"] = spy.zero_spread
    desc["_flip_repeated"] = spy.flip_repeated
    ctx.count((netid, name, json.dumps(args, default=str)), changed(tn0, after_tn))
    if spy.calls or spy.untraced:
        check_traces(ctx, name, desc, spy, outs, tag)
    # outer labels must survive with their sizes
    dims0 = {i: tn0.ind_size(i) for i in outs}
    for o in outs:
        if name == "squeeze" and dims0[o] == 1:
            continue
        if o not in after_tn.ind_map or after_tn.ind_size(o) != dims0[o]:
            ctx.violation(f"{key}:outer_labels", f"{name}{tag} lost or resized outer label {o!r}", desc)
            return after_tn
    outs_cmp = [o for o in outs if not (name == "squeeze" and dims0[o] == 1)]
    if not explicit and name in ("rank_simplify", "column_reduce", "antidiag_gauge", "fuse_multibonds",
                                 "squeeze[exclude=outer]", "multiply", "multiply_each", "negate", "flip",
                                 "insert_gauge", "distribute_exponent", "strip_exponent", "equalize_norms[value]"):
        # these never create hyper labels: the inferred outer labels themselves must be unchanged
        if set(after_tn.outer_inds()) != set(outs) and after_tn.num_tensors and not _only_scalar(after_tn):
            ctx.violation(f"{key}:outer_labels", f"{name}{tag} changed the inferred outer labels "
                          f"{sorted(outs)} -> {sorted(after_tn.outer_inds())}", desc)
            return after_tn
    after = tm.qtn_tensors(after_tn)
    e1 = after_tn.exponent
    try:
        e1f = float(np.real(e1))
        if not np.isfinite(e1f) or abs(e1f - round(e1f)) > 1e-9 or abs(e0 - round(e0)) > 1e-9:
            raise tm.NotExact("non-integer exponent")
        if net_cost(after) > 2000 or net_cost(before) > 2000:
            raise tm.NotExact("too large for the Coq evaluator")
        b2 = list(before)
        if factor != 1:
            b2 = b2 + [((), np.asarray(factor))]
        expr = tm.same_value_expr(b2, int(round(e0)), after, int(round(e1f)), outs_cmp)
    except (tm.NotExact, ValueError, OverflowError) as e:
        ctx.bump("not_exact->oracle")
        oracle_after(ctx, name, desc, before, e0, after_tn, outs_cmp, factor, why=str(e), tag=tag)
        return after_tn
    col.add(desc, expr)
    return after_tn


def value_key(desc):
    """call site + input class"""
    if desc["pass"] == "compute_contracted_inds":
        return "compute_contracted_inds:kept_labels"
    k = desc["pass"].split("[")[0] + ":value"
    if desc.get("_flip_repeated"):
        k += ":flip_on_repeated_label"
    return k


def net_cost(tensors):
    """size of the naive sum the Coq evaluator performs: product of all label dimensions."""
    dims = {}
    for inds, arr in tensors:
        for i, d in zip(inds, np.shape(arr)):
            dims[i] = int(d)
    return int(np.prod(list(dims.values()) or [1])) * max(1, len(tensors))


def _only_scalar(tn):
    return all(t.ndim == 0 for t in tn.tensors)


def zero_valued(before, outs):
    try:
        return not np.any(np_dense(before, outs, 0))
    except Exception:
        return False


def oracle_after(ctx, name, desc, before, e0, after_tn, outs, factor=1, why="", tag=""):
    key = name.split("[")[0]
    try:
        e1 = float(np.real(after_tn.exponent))
        ok, msg = np_same(before, e0, tm.qtn_tensors(after_tn), e1, outs, factor)
    except Exception as e:
        ok, msg = False, f"{type(e).__name__}: {e}"
    if not ok:
        if desc.get("_zero_spread"):
            ctx.violation(f"{key}:multiply_by_zero_scalar",
                          f"{name}{tag} reaches TensorNetwork.multiply(0.0) spread over >= 2 tensors: result has NaN entries ({msg})", desc)
        else:
            ctx.violation(value_key(desc), f"network after {name}{tag} no longer denotes the same tensor over {list(outs)} ({msg}; {why[:80]})", desc)
    else:
        ctx.bump("oracle_close")
    return ok


def choose_outs(rng, tn):
    """(outs, explicit): inferred outer labels, or an explicit subset that may contain bonds / hyper labels."""
    cnt = label_counts(tn)
    labels = sorted(cnt)
    if rng.random() < 0.5:
        return tuple(tn.outer_inds()), False
    k = rng.randint(0, min(3, len(labels)))
    return tuple(rng.sample(labels, k)), True


def integer_stream(ctx, col):
    rng = ctx.rng
    N = ctx.n(30, 300)
    seqs = SEQS_QUICK if ctx.quick else SEQS_QUICK + ["".join(p) for n in (2, 3) for p in itertools.permutations("ADCR", n)]
    for n in range(N):
        cplx = rng.random() < 0.35
        repeated = rng.random() < 0.15
        if n % 3 == 2:
            tn, kinds, outs = targeted_network(rng, cplx)
            explicit = True
            ctx.bump("net:targeted")
        else:
            tn, kinds = rand_int_network(rng, cplx, repeated=repeated)
            outs, explicit = choose_outs(rng, tn)
        e0 = rng.choice([0, 0, 1, 2, 3, -1, -2])
        tn.exponent = e0
        cnt = label_counts(tn)
        hyper = any(v > 2 for v in cnt.values())
        netid = f"i{n}"
        ctx.bump("net:hyper" if hyper else "net:simple")
        ctx.bump("net:explicit_outs" if explicit else "net:inferred_outs")
        ctx.bump(f"net:exponent={e0}")
        if any(cnt[o] > 1 for o in outs):
            ctx.bump("net:output_label_is_bond")
        for kd in kinds:
            ctx.bump("tensor:" + kd)
        if n < 2:
            ctx.sample({"net": netid, "tensors": [list(t.inds) for t in tn.tensors], "kinds": kinds, "outs": list(outs),
                        "explicit": explicit, "exponent": e0})
        has_rep = any(len(set(t.inds)) < len(t.inds) for t in tn.tensors)
        names = ["rank_simplify", "diagonal_reduce", "antidiag_gauge", "column_reduce", "squeeze[exclude=outer]"]
        if not has_rep:
            names += ["fuse_multibonds", "squeeze"]
        else:
            names += ["collapse_repeated"]
        for name in names:
            run_pass(ctx, col, netid, tn, outs, name, {}, explicit)
        for seq in (rng.sample(seqs, 4) if ctx.quick else rng.sample(seqs, 8)):
            run_pass(ctx, col, netid, tn, outs, "full_simplify", {"seq": seq}, explicit)
        if not has_rep:
            run_pass(ctx, col, netid, tn, outs, "hyperinds_resolve", {"mode": rng.choice(["dense", "mps", "tree"])}, explicit)
        # scalar multiplication by exact factors (c^n spread over n tensors; spread 1; each)
        nt = tn.num_tensors
        c = rng.choice([-3, -2, -1, 1, 2, 3, 4])
        sp = rng.choice([1, 1, "all", 8, 2])
        spn = nt if sp == "all" else min(nt, sp)
        x = float(c) if spn == 1 else float(abs(c) ** spn) * (1 if c > 0 else -1)
        if cplx and rng.random() < 0.5:
            x = complex(0, 1) * x if spn == 1 else complex(x)
        run_pass(ctx, col, netid, tn, outs, "multiply", {"x": x, "spread": sp}, explicit)
        run_pass(ctx, col, netid, tn, outs, "multiply_each", {"x": float(rng.choice([-2, -1, 2, 3]))}, explicit)
        if rng.random() < 0.15:
            run_pass(ctx, col, netid, tn, outs, "multiply", {"x": 0.0, "spread": rng.choice([1, "all", 8])}, explicit)
        run_pass(ctx, col, netid, tn, outs, "negate", {}, explicit)
        inner = [i for i in sorted(cnt) if i not in outs]
        if inner and not has_rep:
            run_pass(ctx, col, netid, tn, outs, "flip", {"inds": rng.sample(inner, rng.randint(1, min(2, len(inner))))}, explicit)
        # exact gauge insertion on a bond carried by exactly two tensors
        if not has_rep:
            bonds = [i for i in inner if cnt[i] == 2 and tn.ind_size(i) >= 2]
            if bonds:
                b = rng.choice(bonds)
                tid1, tid2 = sorted(tn.ind_map[b])
                U, Ui = _unimodular(rng, tn.ind_size(b))
                run_pass(ctx, col, netid, tn, outs, "insert_gauge",
                         {"U": U.tolist(), "Uinv": Ui.tolist(), "tid1": tid1, "tid2": tid2, "bond": b}, explicit)
        # bookkeeping behind loop / pair simplification: which labels a group contraction keeps (vs group_summed of the model)
        if not has_rep and nt >= 1:
            tids = list(tn.tensor_map)
            grp = rng.sample(tids, rng.randint(1, len(tids)))
            try:
                kept = list(tn.compute_contracted_inds(*grp, output_inds=outs))
                namer = tm.Namer()
                lit = lambda ts: "[" + "; ".join(f"arr_tensor {tm.nlist([namer(i) for i in tn.tensor_map[t].inds])} [] []" for t in ts) + "]"
                g_l, o_l = lit(grp), lit([t for t in tids if t not in grp])
                outs_l, kept_l = tm.nlist([namer(i) for i in outs]), tm.nlist([namer(i) for i in kept])
                model = (f"(filter (fun i => negb (has i (group_summed G {g_l} {o_l} {outs_l}))) "
                         f"(nodup Nat.eq_dec (flat_map (tinds G) {g_l})))")
                col.add({"net": netid, "pass": "compute_contracted_inds", "args": {"group": grp}, "outs": list(outs), "explicit_outs": explicit,
                         "exponent": e0, "tensors": net_dump(tm.qtn_tensors(tn)), "impl_kept": kept},
                        f"(forallb (fun i => has i {kept_l}) {model}) && (forallb (fun i => has i {model}) {kept_l})")
                ctx.count((netid, "compute_contracted_inds", tuple(grp)), len(grp) > 1)
                ctx.bump("pass:compute_contracted_inds")
            except Exception as e:
                ctx.violation("compute_contracted_inds:raised:" + type(e).__name__, f"compute_contracted_inds raised {e}",
                              {"net": netid, "group": grp, "outs": list(outs), "tensors": net_dump(tm.qtn_tensors(tn))})
        # exponent redistribution with an integer quotient
        if nt >= 1:
            new = e0 - nt * rng.choice([0, 1, 2, -1])
            run_pass(ctx, col, netid, tn, outs, "distribute_exponent", {"new": float(new)}, explicit)


WIRE_SEQS = ["A", "AD", "DA", "ADC", "CAD", "ADCR", "RADC", "DARC", "ADCRS"]


def wire_stream(ctx, col):
    """operator / circuit-like integer networks (wire_network) through the structure passes: exact value check in Coq,
    decision traces against the model, outer labels on both ends of a wire, explicit outer labels that are bonds."""
    rng = ctx.rng
    for n in range(ctx.n(40, 400)):
        cplx = rng.random() < 0.35
        tn, kinds, outer, inner = wire_network(rng, cplx, big=rng.random() < 0.15)
        mode = rng.choice(["inferred", "inferred", "inferred_by_pass", "inferred_by_pass", "outer_plus_bond", "subset"])
        infer = False
        if mode == "inferred":
            outs, explicit = outer, False
        elif mode == "inferred_by_pass":
            outs, explicit, infer = outer, False, True
        elif mode == "outer_plus_bond" and inner:
            outs, explicit = outer + tuple(rng.sample(inner, rng.randint(1, min(2, len(inner))))), True
        elif mode == "subset":
            labels = list(outer + inner)
            outs, explicit = tuple(rng.sample(labels, rng.randint(0, min(3, len(labels))))), True
        else:
            outs, explicit = outer, False
        e0 = rng.choice([0, 0, 0, 1, -2])
        tn.exponent = e0
        netid = f"w{n}"
        ctx.bump("net:wire")
        ctx.bump("net:wire:outs=" + mode)
        for kd in kinds:
            ctx.bump("tensor:" + kd)
        if n < 2:
            ctx.sample({"net": netid, "tensors": [list(t.inds) for t in tn.tensors], "kinds": kinds, "outs": list(outs),
                        "explicit": explicit, "exponent": e0})
        base = {"infer": True} if infer else {}
        for name in ("antidiag_gauge", "diagonal_reduce", "column_reduce", "rank_simplify"):
            run_pass(ctx, col, netid, tn, outs, name, dict(base), explicit)
        order = "".join(rng.choice("ADC") for _ in range(rng.randint(2, 5)))
        run_pass(ctx, col, netid, tn, outs, "structure_passes[shared_cache]", dict(base, order=order), explicit)
        for seq in rng.sample(WIRE_SEQS, 3 if ctx.quick else 5):
            run_pass(ctx, col, netid, tn, outs, "full_simplify", dict(base, seq=seq), explicit)


PYTH = [(3, 4, 5), (1, 2, 2, 3), (2, 3, 6, 7), (1, 4, 8, 9), (4, 4, 7, 9), (2, 6, 9, 11), (6, 8, 10), (5, 12, 13)]


def pyth_array(rng, shape, norm=None):
    """integer array whose Frobenius norm is an exact integer (entries from a Pythagorean tuple)."""
    n = int(np.prod(shape)) if shape else 1
    cands = [p for p in PYTH if len(p) - 1 <= n and (norm is None or p[-1] == norm)]
    if not cands:
        return None, None
    p = rng.choice(cands)
    vals = list(p[:-1]) + [0] * (n - len(p) + 1)
    rng.shuffle(vals)
    vals = [v * rng.choice([-1, 1]) for v in vals]
    return np.array(vals, dtype=float).reshape(shape), p[-1]


def exponent_stream(ctx, col):
    """strip_exponent / equalize_norms(value) where every stripped factor is an exact power of ten."""
    import quimb.tensor as qtn

    rng = ctx.rng
    for n in range(ctx.n(25, 250)):
        dims = {i: rng.choice([1, 2, 2, 3]) for i in POOL}
        big = rng.random() < 0.3  # more tensors than the default spread (8) of TensorNetwork.multiply
        nt = rng.randint(9, 11) if big else rng.randint(1, 4)
        common = rng.random() < 0.5
        ts, values = [], []
        for k in range(nt):
            r = rng.choice([1, 1, 2]) if big else rng.choice([1, 2, 2, 3])
            inds = tuple(rng.sample(POOL[:5], r))
            arr, nrm = pyth_array(rng, [dims[i] for i in inds], norm=3 if common else None)
            if arr is None:
                arr = np.zeros([dims[i] for i in inds])
                arr.flat[0] = 1.0
                nrm = 1
                if common:
                    arr *= 3
                    nrm = 3
            p10 = rng.choice([0, 0, 1, 2, 3])
            ts.append(qtn.Tensor(arr * 10.0 ** p10, inds, tags=[f"T{k}"]))
            values.append(float(nrm))
        tn = qtn.TensorNetwork(ts)
        e0 = rng.choice([0, 1, 2, -1])
        tn.exponent = e0
        outs, explicit = choose_outs(rng, tn)
        netid = f"e{n}"
        ctx.bump("net:exponent_stream")
        vals = [v if rng.random() < 0.8 else None for v in values]
        run_pass(ctx, col, netid, tn, outs, "strip_exponent", {"values": vals}, explicit)
        if big:
            ctx.bump("net:exponent_stream:more_than_8_tensors")
        # distribute_exponent: EVERY tensor is multiplied by the same exact power of ten (Rw_distribute: map (scale r) ts)
        kq = rng.choice([1, 2, -1])
        after = run_pass(ctx, col, netid, tn, outs, "distribute_exponent", {"new": float(e0 - nt * kq)}, explicit)
        if after is not None:
            x = 10.0 ** kq
            bad = [i for i, (a, b) in enumerate(zip(tn.tensors, after.tensors))
                   if not np.array_equal(np.asarray(b.data), np.asarray(a.data) * x)]
            if bad or float(np.real(after.exponent)) != float(e0 - nt * kq):
                ctx.violation("distribute_exponent:form", f"distribute_exponent({e0 - nt * kq}) on {nt} tensors with exponent {e0}: tensors {bad} were "
                              f"not multiplied by exactly 10^{kq}",
                              {"net": netid, "pass": "distribute_exponent", "args": {"new": float(e0 - nt * kq)}, "outs": list(outs),
                               "explicit_outs": explicit, "exponent": e0, "tensors": net_dump(tm.qtn_tensors(tn))})
        if common:
            after = run_pass(ctx, col, netid, tn, outs, "equalize_norms[value]", {"value": 3.0}, explicit)
            if after is not None:
                norms = [float(np.linalg.norm(np.asarray(t.data))) for t in after.tensors]
                if any(abs(x - 3.0) > 1e-9 for x in norms):
                    ctx.violation("equalize_norms:form", f"equalize_norms(value=3) left tensor norms {norms}",
                                  {"net": netid, "tensors": net_dump(tm.qtn_tensors(tn)), "exponent": e0})


# ----------------------------------------------------------------------------
# finder kernels vs the model


def finder_stream(ctx):
    from quimb.tensor import array_ops as ao

    rng = ctx.rng
    cases, info = [], {}
    cid = 0
    N = ctx.n(170, 2000)
    for n in range(N):
        nd = rng.choice([0, 1, 2, 2, 3, 3, 3, 4])
        if rng.random() < 0.5:
            d = rng.choice([1, 2, 2, 3])
            shape = (d,) * nd  # equal extents: several axis pairs can carry a structure at once (the `min` choice matters)
        else:
            shape = tuple(rng.choice([1, 2, 2, 3, 3, 4]) for _ in range(nd))
        if int(np.prod(shape or (1,))) > 81:
            shape = tuple(min(s, 3) for s in shape)
        cplx = rng.random() < 0.3
        arr, kind = struct_array(rng, shape, cplx,
                                 kinds=["rand", "diag", "diag", "antidiag", "antidiag", "column", "twocol", "zero", "copy", "copy",
                                        "nonzero", "onehot"])
        if kind == "zero":
            arr = arr * 0 if rng.random() < 0.7 else arr
        if kind == "onehot" and arr.size:
            # a single non-zero entry: every axis has a lone column, many pairs are (anti)diagonal simultaneously
            one = np.zeros(arr.shape, dtype=arr.dtype)
            pos = tuple(rng.randrange(k) for k in arr.shape)
            one[pos] = rng.choice([-2, -1, 1, 2])
            arr = one
        if rng.random() < 0.25 and arr.size:
            # sparsify: few non-zero entries make several structures hold at once (tests the `min` choice)
            mask = np.array([rng.random() < 0.3 for _ in range(arr.size)]).reshape(arr.shape)
            arr = arr * mask
        arr = np.array(arr, order="C")
        ctx.bump("finder:" + kind)
        res = {}
        for fname in ("find_diag_axes", "find_antidiag_axes", "find_columns"):
            try:
                r = getattr(ao, fname)(arr)
            except Exception as e:
                ctx.violation(f"{fname}:raised", f"{fname} raised {type(e).__name__}: {str(e)[:100]}",
                              {"fn": fname, "shape": list(shape), "data": tm.glist(arr)})
                continue
            if r is not None:
                r = (int(r[0]), int(r[1]))
            res[fname] = r
            # the jitted kernel and its python source must agree (set of candidates)
            if nd >= 1:
                kern = getattr(ao, "_numba_" + fname)
                try:
                    sj = set((int(a), int(b)) for a, b in kern(arr, 1e-12))
                    sp = set((int(a), int(b)) for a, b in kern.py_func(arr, 1e-12))
                    if sj != sp:
                        ctx.violation(f"{fname}:jit_vs_python", "numba-compiled and pure-python finder kernels differ",
                                      {"fn": fname, "shape": list(shape), "data": tm.glist(arr), "jit": sorted(sj), "py": sorted(sp)})
                except Exception:
                    ctx.bump("finder:py_func_unavailable")
            cid += 1
            info[cid] = {"fn": fname, "shape": list(shape), "data": np.asarray(arr).reshape(-1).tolist(), "impl": r, "kind": kind}
            exp = "None" if r is None else f"(Some ({r[0]}%nat, {r[1]}%nat))"
            cases.append((cid, f"opt_pair_eqb ({fname}_G {natlist(shape)} {tm.glist(arr)}) {exp}"))
            ctx.count((fname, shape, tm.glist(arr)), r is not None)
            if r is not None:
                ctx.bump(f"{fname}:found")
            # direct oracle on the implementation: the returned structure really holds and is the least
            direct_finder_oracle(ctx, fname, arr, r)
        if n < 2:
            ctx.sample({"finder_case": {"shape": list(shape), "kind": kind, "impl": {k: v for k, v in res.items()}}})
    cid = finder_float_cases(ctx, cases, info, cid)
    header = ("From Coq Require Import ZArith QArith Arith List Bool.\nFrom QV Require Import C04.Model.\nImport ListNotations.\n"
              "Close Scope Q_scope.\n")
    failed, errors = robust_coq_cases(ctx, "finders", header, cases, 1000 if ctx.quick else 600)
    for path, err in errors:
        ctx.broken_obligation("correspondence:finders:" + path.split("/")[-1], err)
    seen = set()
    for c in failed:
        d = info[c]
        if (d["fn"], d.get("class", "")) in seen:
            continue
        seen.add((d["fn"], d.get("class", "")))
        ctx.violation(f"{d['fn']}:model_mismatch" + d.get("class", ""),
                      f"{d['fn']} returned {d['impl']} but the specified model (least pair with the structure) disagrees",
                      d)
    ctx.extra["finder_cases"] = len(cases)


def _holds(fname, arr, p, atol=1e-12):
    """the documented rule: every entry off the structure satisfies abs(x) <= atol"""
    idx = np.indices(arr.shape)
    nzm = np.abs(arr) > atol
    if fname == "find_diag_axes":
        i, j = p
        return arr.shape[i] == arr.shape[j] and not np.any(nzm & (idx[i] != idx[j]))
    if fname == "find_antidiag_axes":
        i, j = p
        return arr.shape[i] == arr.shape[j] and not np.any(nzm & (idx[i] != arr.shape[i] - 1 - idx[j]))
    ax, c = p
    return not np.any(nzm & (idx[ax] != c))


def finder_reference(fname, arr, atol=1e-12):
    nd = arr.ndim
    if fname == "find_columns":
        cands = [(ax, c) for ax in range(nd) for c in range(arr.shape[ax])]
    else:
        cands = [(i, j) for i in range(nd) for j in range(i + 1, nd)]
    good = [p for p in cands if _holds(fname, arr, p, atol)]
    return min(good) if good else None


def direct_finder_oracle(ctx, fname, arr, r, atol=1e-12, cls=""):
    want = finder_reference(fname, arr, atol)
    if want != r:
        ctx.violation(f"{fname}:wrong{cls}", f"{fname}(atol={atol:g}) returned {r}, the least pair whose off-structure entries all satisfy "
                      f"abs(x) <= atol is {want}",
                      {"fn": fname, "atol": atol, "shape": list(arr.shape),
                       "data": [[float(np.real(v)), float(np.imag(v))] for v in np.asarray(arr).reshape(-1)]})


SMALLS = [0.0, 1e-13, 9e-13, 2e-12, 1e-9, 3e-7, 1e-5]


def small_fill(rng, arr, level, cplx):
    """replace the exact zeros of a structured array by entries of magnitude `level` (random sign / phase)"""
    out = np.array(arr, dtype=complex if cplx else float)
    flat = out.reshape(-1)
    for k in range(flat.size):
        if flat[k] == 0:
            ph = rng.choice([1, -1, 1j, -1j, (1 + 1j) / np.sqrt(2)]) if cplx else rng.choice([1, -1])
            flat[k] = level * ph
    return out


def clear_of_boundary(arr, atol):
    """keep every entry clearly inside (|x| <= 0.9 atol) or clearly outside (|x| >= 1.1 atol) the tolerance: an entry
    sitting on the boundary is classified by rounding of whichever formula is used (hypot vs re^2+im^2), which is not
    a property of the finder.  Boundary entries are halved (moved clearly inside)."""
    arr = np.array(arr)
    mag = np.abs(arr)
    band = (mag > 0.9 * atol) & (mag < 1.1 * atol)
    if np.any(band):
        arr = np.where(band, arr * 0.5, arr)
    return np.array(arr, order="C")


def finder_float_cases(ctx, cases, info, cid):
    """finders on FLOAT arrays whose off-structure entries straddle atol and sqrt(atol): implementation vs the documented rule
    abs(x) > atol (numpy reference) and vs the Coq model run on the thresholded mask."""
    from quimb.tensor import array_ops as ao

    rng = ctx.rng
    for n in range(ctx.n(110, 1200)):
        nd = rng.choice([1, 2, 2, 3, 3])
        d = rng.choice([2, 2, 3])
        shape = (d,) * nd if rng.random() < 0.6 else tuple(rng.choice([1, 2, 3]) for _ in range(nd))
        cplx = rng.random() < 0.4
        base, kind = struct_array(rng, shape, cplx, kinds=["diag", "antidiag", "column", "column", "twocol", "onehot_f", "copy"])
        if kind == "onehot_f":
            base = np.zeros(shape)
            base[tuple(rng.randrange(k) for k in shape)] = rng.choice([-2.0, 1.0, 3.0])
        level = rng.choice(SMALLS)
        arr = small_fill(rng, base, level, cplx)
        if rng.random() < 0.3:
            arr = arr * rng.choice([1e-3, 10.0, 1e4])  # the threshold is absolute, not relative to the data
        atol = 1e-12 if rng.random() < 0.75 else rng.choice([1e-8, 1e-6, 1e-15])
        arr = clear_of_boundary(np.array(arr, order="C"), atol)
        ctx.bump(f"finder_float:level={level:g}")
        for fname in ("find_diag_axes", "find_antidiag_axes", "find_columns"):
            try:
                r = getattr(ao, fname)(arr, atol=atol)
            except Exception as e:
                ctx.violation(f"{fname}:raised", f"{fname} raised {type(e).__name__}: {str(e)[:100]}",
                              {"fn": fname, "shape": list(shape), "atol": atol, "data": np.asarray(arr).reshape(-1).tolist()})
                continue
            if r is not None:
                r = (int(r[0]), int(r[1]))
            ctx.count((fname, "float", shape, arr.tobytes().hex()[:64], atol), True)
            direct_finder_oracle(ctx, fname, arr, r, atol, cls=":tolerance")
            cid += 1
            info[cid] = {"fn": fname, "shape": list(arr.shape), "atol": atol, "impl": r, "kind": "float:" + kind,
                         "data": [[float(np.real(v)), float(np.imag(v))] for v in np.asarray(arr).reshape(-1)],
                         "class": ":tolerance"}
            exp = "None" if r is None else f"(Some ({r[0]}%nat, {r[1]}%nat))"
            # exact: floats are dyadic rationals; the tolerance test |x|^2 > atol^2 is evaluated inside Coq (nzQ)
            cases.append((cid, f"opt_pair_eqb ({fname}_Q {qlit(atol)} {natlist(arr.shape)} {qclist(arr)}) {exp}"))
    return cid


def qlit(x):
    n, d = float(x).as_integer_ratio()
    return f"(Qmake ({n})%Z {d}%positive)"


def qclist(arr):
    return "[" + "; ".join(f"({qlit(np.real(v))}, {qlit(np.imag(v))})" for v in np.asarray(arr).reshape(-1)) + "]"



# ----------------------------------------------------------------------------
# F18 classifier: did the pass call TensorNetwork.multiply with an exactly zero scalar spread over >= 2 tensors?


class spy_multiply:
    """records, while a pass runs, the two call-site conditions behind the known findings:
    zero_spread  - TensorNetwork.multiply(x) with x exactly 0 spread over >= 2 tensors (x / abs(x) = 0 / 0);
    flip_repeated - Tensor.flip(ind) on a tensor that carries `ind` more than once (only the first axis is reversed);
    and the trace of compute_contracted_inds: every planned group contraction must keep the declared outer labels
    carried by the group (side condition of C04_group_contract_sound: a summed label is never an outer label)."""

    def __init__(self, outs=None):
        self.outs = None if outs is None else set(outs)

    def __enter__(self):
        import functools

        import quimb.tensor as qtn

        self.cls = qtn.TensorNetwork
        self.real = self.cls.multiply
        self.tcls = qtn.Tensor
        self.real_flip = self.tcls.flip
        self.zero_spread = False
        self.flip_repeated = False
        self.real_cci = self.cls.compute_contracted_inds
        self.summed_outputs = []  # (tids, labels): a group contraction was planned that sums a declared outer label
        spy = self

        def compute_contracted_inds(tn, *tids, output_inds=None):
            res = spy.real_cci(tn, *tids, output_inds=output_inds)
            try:
                if spy.outs is not None:
                    on_group = set()
                    for tid in tids:
                        on_group.update(tn.tensor_map[tid].inds)
                    lost = sorted(i for i in on_group if i in spy.outs and i not in res)
                    if lost:
                        spy.summed_outputs.append((list(tids), lost))
            except Exception:
                pass
            return res

        def multiply(tn, x, inplace=False, spread_over=8):
            try:
                n = tn.num_tensors if spread_over == "all" else min(tn.num_tensors, spread_over)
                if n > 1 and not np.iscomplexobj(x) and float(abs(x)) == 0.0:
                    spy.zero_spread = True
            except Exception:
                pass
            return spy.real(tn, x, inplace=inplace, spread_over=spread_over)

        def flip(t, ind, inplace=False):
            if list(t.inds).count(ind) > 1:
                spy.flip_repeated = True
            return spy.real_flip(t, ind, inplace=inplace)

        self.cls.multiply = multiply
        self.cls.multiply_ = functools.partialmethod(multiply, inplace=True)
        self.cls.compute_contracted_inds = compute_contracted_inds
        self.tcls.flip = flip
        self.tcls.flip_ = functools.partialmethod(flip, inplace=True)
        self._trace_enter()
        return self

    # -- decision trace of the structure passes (antidiag_gauge / diagonal_reduce / column_reduce) ------------------
    # calls: one record per call of a pass: {"pass": "ag" | "dr" | "cr", "steps": [[a, b, decision], ...]}; a step is one
    # visited tensor for which the finder returned a structure: ag: (label i, label j, flipped label | None);
    # dr: (label i, label j, [removed, kept] | None); cr: (label, column, True | False).  The labels are read from the
    # tensor the pass is looking at (local `t` of the pass's frame, cross-checked by identity of its data with the
    # array handed to the finder); what the pass then does is seen at TensorNetwork.flip / reindex / isel.
    OWNER = {"ag": "antidiag_gauge", "dr": "diagonal_reduce", "cr": "column_reduce"}
    FINDER = {"ag": "find_antidiag_axes", "dr": "find_diag_axes", "cr": "find_columns"}

    def _trace_enter(self):
        import functools
        import sys

        import quimb.tensor.tensor_core as tc

        self.tc = tc
        self.calls = []
        self.untraced = 0
        self._cur = {}
        self.real_finders = {k: getattr(tc, fn) for k, fn in self.FINDER.items()}
        self.real_tn = {m: getattr(self.cls, m) for m in ("flip", "reindex", "isel")}
        spy = self

        def call_for(kind, frame):
            cur = spy._cur.get(kind)
            if cur is None or cur[0] is not frame:
                rec = {"pass": kind, "steps": [], "visited": 0}
                spy.calls.append(rec)
                spy._cur[kind] = cur = (frame, rec)  # the frame is kept alive so that `is` identifies the call
            return cur[1]

        def mk_finder(kind):
            real = spy.real_finders[kind]

            def finder(x, *a, **kw):
                r = real(x, *a, **kw)
                try:
                    f = sys._getframe(1)
                    if f.f_code.co_name == spy.OWNER[kind]:
                        rec = call_for(kind, f)
                        rec["visited"] += 1
                        if r is not None:
                            loc = f.f_locals
                            t = loc.get("t")
                            if t is None or t.data is not x:
                                t = next((u for u in loc["tn"].tensor_map.values() if u.data is x), None)
                            if t is None:
                                spy.untraced += 1
                            elif kind == "cr":
                                rec["steps"].append([t.inds[int(r[0])], int(r[1]), False])
                            else:
                                rec["steps"].append([t.inds[int(r[0])], t.inds[int(r[1])], None])
                except Exception:
                    spy.untraced += 1
                return r

            return finder

        def decide(kind, decision):
            f = sys._getframe(2)
            if f.f_code.co_name != spy.OWNER[kind]:
                return
            rec = call_for(kind, f)
            if rec["steps"] and rec["steps"][-1][2] in (None, False):
                rec["steps"][-1][2] = decision
            else:  # an action that no finder answer explains
                rec["steps"].append(["?", "?" if kind != "cr" else -1, decision])

        def tn_flip(tn, inds, inplace=False):
            try:
                for ix in ([inds] if isinstance(inds, str) else list(inds)):
                    decide("ag", ix)
            except Exception:
                spy.untraced += 1
            return spy.real_tn["flip"](tn, inds, inplace=inplace)

        def tn_reindex(tn, index_map, inplace=False):
            try:
                if sys._getframe(1).f_code.co_name == "diagonal_reduce":
                    for a, b in dict(index_map).items():
                        decide("dr", [a, b])
            except Exception:
                spy.untraced += 1
            return spy.real_tn["reindex"](tn, index_map, inplace=inplace)

        def tn_isel(tn, selectors, inplace=False):
            try:
                if sys._getframe(1).f_code.co_name == "column_reduce":
                    decide("cr", True)
            except Exception:
                spy.untraced += 1
            return spy.real_tn["isel"](tn, selectors, inplace=inplace)

        for kind, fn in self.FINDER.items():
            setattr(tc, fn, mk_finder(kind))
        for m, w in (("flip", tn_flip), ("reindex", tn_reindex), ("isel", tn_isel)):
            setattr(self.cls, m, w)
            setattr(self.cls, m + "_", functools.partialmethod(w, inplace=True))

    def _trace_exit(self):
        import functools

        for kind, fn in self.FINDER.items():
            setattr(self.tc, fn, self.real_finders[kind])
        for m, real in self.real_tn.items():
            setattr(self.cls, m, real)
            setattr(self.cls, m + "_", functools.partialmethod(real, inplace=True))
        self._cur = {}

    def __exit__(self, *a):
        import functools

        self.cls.multiply = self.real
        self.cls.multiply_ = functools.partialmethod(self.real, inplace=True)
        self.cls.compute_contracted_inds = self.real_cci
        self.tcls.flip = self.real_flip
        self.tcls.flip_ = functools.partialmethod(self.real_flip, inplace=True)
        self._trace_exit()
        return False


# ----------------------------------------------------------------------------
# oracle stream (tests, tolerance 1e-9): QR / SVD based passes on float networks


def rand_float_network(rng, nprng, cplx, loopy, zero_pair=False, low_rank=False):
    """tree or loopy network without hyper labels; every bond is full rank on both sides generically."""
    import quimb.tensor as qtn

    n = rng.randint(2, 6)
    chain = rng.random() < 0.4
    edges = [((k - 1) if chain else rng.randrange(k), k) for k in range(1, n)]
    if loopy:
        for _ in range(rng.randint(1, 2)):
            i, j = sorted(rng.sample(range(n), 2))
            edges.append((i, j))  # may duplicate an edge: a multibond
    inds = {k: [] for k in range(n)}
    dims = {}
    for e, (i, j) in enumerate(edges):
        b = f"b{e}"
        dims[b] = rng.choice([2, 2, 3])
        inds[i].append(b)
        inds[j].append(b)
    c = 0
    for k in range(n):
        for _ in range(rng.choice([0, 1, 1, 2])):
            o = f"k{c}"
            c += 1
            dims[o] = rng.choice([1, 2, 2, 3])
            inds[k].append(o)
        # a tensor whose labels all go to one neighbour leaves nothing to decompose against: give it an outer label
        nb = {a if b == k else b for a, b in edges if k in (a, b)}
        if len(nb) <= 1 and not any(x.startswith("k") for x in inds[k]):
            o = f"k{c}"
            c += 1
            dims[o] = 2
            inds[k].append(o)
        # avoid rank deficient bonds (tests of gauges with inverses need invertible environments)
        for b in [x for x in inds[k] if x.startswith("b")]:
            while int(np.prod([dims[x] for x in inds[k] if x != b] or [1])) < dims[b]:
                o = f"k{c}"
                c += 1
                dims[o] = 2
                inds[k].append(o)
        rng.shuffle(inds[k])
    ts = []
    for k in range(n):
        shape = [dims[x] for x in inds[k]]
        a = nprng.normal(size=shape)
        if cplx:
            a = a + 1j * nprng.normal(size=shape)
        if low_rank and len(shape) >= 2 and rng.random() < 0.5:
            # an exactly rank-1 tensor across a random bipartition (split_simplify / pair_simplify act on it)
            h = rng.randint(1, len(shape) - 1)
            u = nprng.normal(size=shape[:h])
            v = nprng.normal(size=shape[h:])
            a = np.multiply.outer(u, v) * (1 + 0j if cplx else 1)
        ts.append(qtn.Tensor(a, tuple(inds[k]), tags=[f"T{k}"]))
    if zero_pair:
        z = "z0"
        ts.append(qtn.Tensor(np.array([1.0, -1.0]) * (1 + 0j if cplx else 1), (z,), tags=[f"T{n}"]))
        ts.append(qtn.Tensor(np.array([1.0, 1.0]) * (1 + 0j if cplx else 1), (z,), tags=[f"T{n + 1}"]))
    tn = qtn.TensorNetwork(ts)
    return tn, edges, n


def iso_defect(t):
    """|| X^dag X - 1 || for X = t fused as (left_inds) x (other inds)."""
    left = tuple(t.left_inds)
    right = tuple(i for i in t.inds if i not in left)
    X = np.asarray(t.to_dense(left, right)) if left and right else np.asarray(t.data).reshape(
        int(np.prod([t.ind_size(i) for i in left] or [1])), -1)
    G = X.conj().T @ X
    return float(np.max(np.abs(G - np.eye(G.shape[0]))))


def pair_bond_sizes(tn):
    out = {}
    for ix, tids in tn.ind_map.items():
        if len(tids) == 2:
            key = tuple(sorted(next(iter(tg for tg in tn.tensor_map[t].tags if tg.startswith("T"))) for t in tids))
            out[key] = out.get(key, 1) * tn.ind_size(ix)
    return out


def o_canonize_between(tn, a):
    tn.canonize_between(a["t1"], a["t2"], absorb=a["absorb"])
    if a.get("twice"):
        tn.canonize_between(a["t1"], a["t2"], absorb=a["absorb"])  # left_inds shortcut
    return tn


def o_canonize_redirect(tn, a):
    # make t1 an isometry towards t2, then towards another neighbour t3: the left_inds shortcut must not fire
    tn.canonize_between(a["t1"], a["t2"], absorb="right")
    tn.canonize_between(a["t1"], a["t3"], absorb="right")
    return tn


def o_compress_between(tn, a):
    tn.compress_between(a["t1"], a["t2"], max_bond=None, cutoff=0.0, absorb=a["absorb"], reduced=a["reduced"])
    return tn


def o_balance_bonds(tn, a):
    if a.get("fuse_first"):
        tn = tn.fuse_multibonds()  # tensor_balance_bond is documented for tensors sharing a single index
    return tn.balance_bonds()


def o_gauge_all_canonize(tn, a):
    return tn.gauge_all_canonize(max_iterations=a["its"], absorb=a["absorb"], equalize_norms=a["eq"])


def o_gauge_all_simple(tn, a):
    return tn.gauge_all_simple(max_iterations=a["its"], equalize_norms=a["eq"], power=a["power"])


def o_gauge_all_simple_gauges(tn, a):
    gauges = {}
    tn = tn.gauge_all_simple(max_iterations=a["its"], gauges=gauges)
    tn.gauge_simple_insert(gauges)  # the network together with its tracked gauges denotes the tensor
    return tn


def o_gauge_all_random(tn, a):
    return tn.gauge_all_random(max_iterations=a["its"], unitary=a["unitary"], seed=a["seed"])


def o_canonize_around(tn, a):
    return tn.canonize_around(a["tags"], which="any", max_distance=a["max_distance"], absorb=a["absorb"],
                              equalize_norms=a["eq"])


def o_canonize_around_twice(tn, a):
    # moving the canonical centre: tensors already flagged isometric towards the old centre must be re-canonized
    tn = tn.canonize_around(a["tags0"], which="any", absorb="right")
    return tn.canonize_around(a["tags"], which="any", absorb="right")


def o_compress_all(tn, a):
    return tn.compress_all(max_bond=None, cutoff=0.0, canonize=a["canonize"], mode=a["mode"])


def o_compress_all_tree(tn, a):
    return tn.compress_all_tree(max_bond=None, cutoff=0.0)


def o_compress_all_1d(tn, a):
    return tn.compress_all_1d(max_bond=None, cutoff=0.0, canonize=a["canonize"])


def o_compress_all_simple(tn, a):
    return tn.compress_all_simple(max_bond=None, cutoff=0.0, max_iterations=a["its"])


def _maybe_inplace(tn, a, meth, **kw):
    if a.get("inplace"):
        getattr(tn, meth + "_")(**kw)
        return tn
    return getattr(tn, meth)(**kw)


def o_split_simplify(tn, a):
    return _maybe_inplace(tn, a, "split_simplify", atol=1e-12, equalize_norms=a["eq"], check_zero=a.get("check_zero", False))


def o_pair_simplify(tn, a):
    return _maybe_inplace(tn, a, "pair_simplify", cutoff=1e-12, equalize_norms=a["eq"], check_zero=a.get("check_zero", False),
                          output_inds=a.get("outs"))


def o_loop_simplify(tn, a):
    return _maybe_inplace(tn, a, "loop_simplify", cutoff=1e-12, equalize_norms=a["eq"], check_zero=a.get("check_zero", False),
                          output_inds=a.get("outs"))


def o_full_simplify(tn, a):
    return tn.full_simplify(a["seq"], equalize_norms=a["eq"], check_zero=a.get("check_zero", "auto"), output_inds=a.get("outs"))


def o_rank_simplify(tn, a):
    return tn.rank_simplify(equalize_norms=a["eq"], check_zero=a.get("check_zero", False), output_inds=a.get("outs"))


def o_antidiag_gauge(tn, a):
    return tn.antidiag_gauge(output_inds=a.get("outs"))


def o_diagonal_reduce(tn, a):
    return tn.diagonal_reduce(output_inds=a.get("outs"))


def o_column_reduce(tn, a):
    return tn.column_reduce(output_inds=a.get("outs"))


def o_equalize_norms(tn, a):
    return tn.equalize_norms(value=a["value"])


def o_insert_gauge(tn, a):
    tn.insert_gauge(np.array(a["U"]), a["t1"], a["t2"])
    return tn


def o_isometrize_tensor(tn, a):
    t = tn[a["t1"]]
    t.modify(left_inds=a["left"])
    return tn


def o_strip_exponent(tn, a):
    for tid in list(tn.tensor_map):
        tn.strip_exponent(tid, value=a["value"])
    return tn


def o_distribute_exponent(tn, a):
    tn.distribute_exponent(a["new"])
    return tn


def o_fuse_squeeze(tn, a):
    return tn.fuse_multibonds().squeeze(exclude=tn.outer_inds())


def o_multiply(tn, a):
    return tn.multiply(a["x"], spread_over=a["spread"])


ORACLE = {
    "canonize_between": o_canonize_between, "canonize_between[redirect]": o_canonize_redirect, "compress_between": o_compress_between, "balance_bonds": o_balance_bonds,
    "gauge_all_canonize": o_gauge_all_canonize, "gauge_all_simple": o_gauge_all_simple,
    "gauge_all_simple[gauges]": o_gauge_all_simple_gauges, "gauge_all_random": o_gauge_all_random,
    "canonize_around": o_canonize_around, "canonize_around[moved]": o_canonize_around_twice, "compress_all": o_compress_all, "compress_all_tree": o_compress_all_tree,
    "compress_all_1d": o_compress_all_1d, "compress_all_simple": o_compress_all_simple,
    "split_simplify": o_split_simplify, "pair_simplify": o_pair_simplify, "loop_simplify": o_loop_simplify,
    "full_simplify": o_full_simplify, "rank_simplify": o_rank_simplify, "equalize_norms": o_equalize_norms,
    "insert_gauge": o_insert_gauge, "strip_exponent": o_strip_exponent, "distribute_exponent": o_distribute_exponent,
    "fuse_squeeze": o_fuse_squeeze, "multiply": o_multiply,
    "antidiag_gauge": o_antidiag_gauge, "diagonal_reduce": o_diagonal_reduce, "column_reduce": o_column_reduce,
}


def oracle_pass(ctx, netid, tn0, name, args, outs, is_tree, zero=False, mult_factor=1):
    before = tm.qtn_tensors(tn0)
    e0 = float(np.real(tn0.exponent))
    key = name.split("[")[0]
    desc = {"net": netid, "pass": name, "args": args, "outs": list(outs), "exponent": e0, "stream": "oracle",
            "tensors": net_dump(before)}
    ctx.bump("oracle:" + name + (":" + args["seq"] if "seq" in args else ""))
    with spy_multiply(outs=args.get("outs")) as spy:
        try:
            with warnings.catch_warnings():
                warnings.simplefilter("ignore")
                after = ORACLE[name](tn0.copy(), args)
        except Exception as e:
            ctx.count((netid, name, json.dumps(args, default=str)), True)
            if spy.zero_spread:
                ctx.violation(f"{key}:multiply_by_zero_scalar",
                              f"{name} reaches TensorNetwork.multiply(0.0) spread over >= 2 tensors and raises {type(e).__name__}", desc)
            else:
                ctx.violation(f"{key}:raised:" + ("inplace=False" if args.get("inplace") is False else type(e).__name__),
                              f"{name} {args} raised {type(e).__name__}: {str(e)[:120]} on a valid network", desc)
            return None
    ctx.count((netid, name, json.dumps(args, default=str)), changed(tn0, after))
    if spy.calls or spy.untraced:
        check_traces(ctx, name, desc, spy, outs)
    if spy.summed_outputs:
        tids, lost = spy.summed_outputs[0]
        ctx.violation(f"{key}:trace:outer_label_summed", f"{name} {args} planned the contraction of tensors {tids} summing the declared outer "
                      f"label(s) {lost} (compute_contracted_inds did not receive / honour output_inds={list(outs)})", desc)
    try:
        e1 = float(np.real(after.exponent))
        ok, msg = np_same(before, e0, tm.qtn_tensors(after), e1, outs, mult_factor)
    except Exception as e:
        ok, msg = False, f"{type(e).__name__}: {e}"
    if not ok:
        if spy.zero_spread:
            ctx.violation(f"{key}:multiply_by_zero_scalar",
                          f"{name} reaches TensorNetwork.multiply(0.0) spread over >= 2 tensors: result has NaN entries ({msg})", desc)
        else:
            ctx.violation(f"{key}:value" + (":inplace=False" if args.get("inplace") is False else "")
                          + (":flip_on_repeated_label" if spy.flip_repeated else ""),
                          f"network after {name} {args} no longer denotes the same tensor over {list(outs)} ({msg})", desc)
        return None
    missing = [o for o in outs if o not in after.ind_map or after.ind_size(o) != tn0.ind_size(o)]
    if missing:
        ctx.violation(f"{key}:outer_labels", f"{name} lost or resized outer labels {missing}", desc)
    # promised form: equalize_norms=True ends with equalize_norms(): all tensor norms equal
    if args.get("eq") is True and name.split("[")[0] in ("gauge_all_canonize", "full_simplify") and not zero and after.num_tensors:
        norms = [float(np.linalg.norm(np.asarray(t.data))) for t in after.tensors]
        ctx.bump("oracle:equal_norms_checked")
        if max(norms) - min(norms) > 1e-8 * max(1.0, max(norms)):
            ctx.violation(f"{key}:equal_norms", f"{name} {args} (equalize_norms=True) left unequal tensor norms: min {min(norms):.6g}, max {max(norms):.6g} "
                          f"on {after.num_tensors} tensors", desc)
    # promised form 1: every tensor flagged isometric really is
    for t in after.tensors:
        if t.left_inds is not None:
            ctx.bump("oracle:isometry_flag_checked")
            try:
                d = iso_defect(t)
            except Exception as e:
                d = float("inf")
            if not d <= 1e-8:
                ctx.violation(f"{key}:isometry_flag", f"after {name} {args} tensor {sorted(t.tags)} is flagged left_inds={t.left_inds} "
                              f"but its isometry defect is {d:.3e}", desc)
                break
    return after


def oracle_stream(ctx):
    import quimb.tensor as qtn

    rng = ctx.rng
    nprng = np.random.default_rng(ctx.seed + 404)
    N = ctx.n(30, 300)
    letters = "ADCRSLP"
    for n in range(N):
        cplx = rng.random() < 0.4
        loopy = rng.random() < 0.5
        zero = rng.random() < 0.12
        tn, edges, nt = rand_float_network(rng, nprng, cplx, loopy, zero_pair=zero, low_rank=rng.random() < 0.4)
        if rng.random() < 0.4:
            tn.exponent = float(rng.choice([1, 2, -1, 0.5]))
        outs = tuple(tn.outer_inds())
        netid = f"o{n}"
        is_tree = not loopy
        ctx.bump("onet:tree" if is_tree else "onet:loopy")
        ctx.bump("onet:complex" if cplx else "onet:real")
        if zero:
            ctx.bump("onet:zero_valued")
        tags = [f"T{k}" for k in range(nt)]
        i, j = rng.choice(edges)
        if rng.random() < 0.5:
            i, j = j, i
        t1, t2 = f"T{i}", f"T{j}"
        sizes0 = pair_bond_sizes(tn)
        eq = rng.choice([False, False, True, 1.0])
        eq_nz = False if zero else eq  # passes without a check_zero option: NaN on an exactly zero tensor is documented

        def P(name, args, **kw):
            return oracle_pass(ctx, netid, tn, name, args, outs, is_tree, zero=zero, **kw)

        # canonize one bond (QR), also twice (the left_inds shortcut), all absorb modes
        for absorb in ("right", "left", "both"):
            after = P("canonize_between", {"t1": t1, "t2": t2, "absorb": absorb, "twice": rng.random() < 0.5})
            if after is not None and absorb in ("right", "left"):
                check_isometry_towards(ctx, netid, tn, after, *((t1, t2) if absorb == "right" else (t2, t1)),
                                       {"t1": t1, "t2": t2, "absorb": absorb})
        nbrs = sorted({f"T{b if a_ == i else a_}" for a_, b in edges if i in (a_, b)} - {t1, t2})
        if nbrs:
            t3 = rng.choice(nbrs)
            after = P("canonize_between[redirect]", {"t1": t1, "t2": t2, "t3": t3})
            if after is not None:
                check_isometry_towards(ctx, netid, tn, after, t1, t3, {"t1": t1, "t2": t2, "t3": t3})
        # compress with no truncation: same tensor, bond never grows
        for reduced, absorb in rng.sample([(True, "both"), (True, "left"), (True, "right"), (False, "both"), (False, "left"),
                                           ("left", "right"), ("right", "left"), ("left", "both"), ("right", "both")], 3):
            after = P("compress_between", {"t1": t1, "t2": t2, "absorb": absorb, "reduced": reduced})
            check_bonds(ctx, "compress_between", netid, tn, after, sizes0, f":reduced={reduced}",
                        {"t1": t1, "t2": t2, "absorb": absorb, "reduced": reduced})
        P("balance_bonds", {"fuse_first": any(edges.count(e) > 1 for e in edges)})
        P("gauge_all_canonize", {"its": rng.randint(1, 3), "absorb": rng.choice(["both", "left", "right"]), "eq": eq_nz})
        P("gauge_all_simple", {"its": rng.randint(1, 4), "eq": (rng.random() < 0.3) and not zero, "power": rng.choice([1.0, 0.5])})
        P("gauge_all_simple[gauges]", {"its": rng.randint(1, 4)})
        P("gauge_all_random", {"its": rng.randint(1, 2), "unitary": True, "seed": rng.randrange(10 ** 6)})
        # canonical region
        region = [t1] if rng.random() < 0.5 else [t1, t2]  # a connected region
        md = rng.choice([None, None, 1, 2])
        absorb = rng.choice(["right", "right", "both"])
        ceq = False if zero else rng.choice([False, False, 1.0])
        after = P("canonize_around", {"tags": region, "max_distance": md, "absorb": absorb, "eq": ceq})
        if after is not None and is_tree and md is None and absorb == "right" and not zero and not ceq:
            check_canonical_region(ctx, netid, tn, after, region)
        if is_tree and not zero:
            # the promised canonical form: on a tree everything outside the region becomes an isometry pointing at it
            after = P("canonize_around", {"tags": region, "max_distance": None, "absorb": "right", "eq": False})
            if after is not None:
                check_canonical_region(ctx, netid, tn, after, region)
            after = P("canonize_around[moved]", {"tags0": [farthest_tag(edges, nt, region)], "tags": region})
            if after is not None:
                check_canonical_region(ctx, netid, tn, after, region)
        for canonize, mode in rng.sample([(True, "auto"), (False, "auto"), (True, "basic"), (True, "virtual-tree")], 2):
            after = P("compress_all", {"canonize": canonize, "mode": mode})
            check_bonds(ctx, "compress_all", netid, tn, after, sizes0)
        if is_tree:
            after = P("compress_all_tree", {})
            check_bonds(ctx, "compress_all_tree", netid, tn, after, sizes0)
            after = P("compress_all_1d", {"canonize": rng.random() < 0.5})
            check_bonds(ctx, "compress_all_1d", netid, tn, after, sizes0)
        P("compress_all_simple", {"its": rng.randint(1, 3)})
        for inplace in (False, True):
            P("split_simplify", {"eq": eq, "inplace": inplace, "check_zero": bool(eq)})
            P("pair_simplify", {"eq": eq, "inplace": inplace, "check_zero": bool(eq)})
            P("loop_simplify", {"eq": eq, "inplace": inplace, "check_zero": bool(eq)})
        P("rank_simplify", {"eq": eq, "check_zero": bool(eq)})
        for seq in list(letters) + rng.sample(["ADCRS", "RSL", "RPL", "ADCRSLP", "SR", "LR"], 2):
            # with equalize_norms an exactly-zero scalar needs check_zero (documented); 'auto' turns it on unless seq == 'R'
            e = rng.choice([False, False, True, 1.0])
            cz = True if (zero and e) else "auto"
            P("full_simplify", {"seq": seq, "eq": e, "check_zero": cz})
        # norms
        if not zero:
            after = P("equalize_norms", {"value": None})
            check_norms(ctx, netid, tn, after, None)
            v = rng.choice([1.0, 2.0, 0.5])
            after = P("equalize_norms", {"value": v})
            check_norms(ctx, netid, tn, after, v)
            P("strip_exponent", {"value": rng.choice([None, 1.0, 3.0])})
        P("distribute_exponent", {"new": float(rng.choice([0, 1, -2]))})
        d = tn.ind_size(next(iter(qtn.bonds(tn[t1], tn[t2]))))
        if len(qtn.bonds(tn[t1], tn[t2])) == 1:
            U = nprng.normal(size=(d, d)) + 3 * np.eye(d)
            P("insert_gauge", {"U": U.tolist(), "t1": t1, "t2": t2})
        P("fuse_squeeze", {})
        # scalar multiplication, including exactly zero (F18)
        x = rng.choice([0.0, -2.5, 3.0, 1e-3])
        sp = rng.choice([1, 8, "all"])
        P("multiply", {"x": x, "spread": sp}, mult_factor=x)


CIRC_1Q = ["H", "X", "X", "X", "Y", "Y", "Z", "Z", "Z", "S", "T", "RZ", "RZ", "RX", "RY", "X_1_2"]
CIRC_2Q = ["CNOT", "CX", "CZ", "CY", "SWAP", "ISWAP", "RZZ"]


def circuit_stream(ctx):
    """TEST (numpy oracle at 1e-9, not a theorem): networks built by quimb's own Circuit - the unitary (outer labels k* AND
    b*: both ends of every wire), the state, and the state with basis bras on some qubits (partial amplitude) - of small
    random circuits mixing diagonal (Z, S, T, RZ, CZ, RZZ), antidiagonal (X, Y), permutation-like (CNOT, SWAP, ISWAP)
    and dense (H, RX, RY) gates, through the structure passes and full_simplify with and without explicit outer labels,
    for every lazy gate layout ('contract' option of apply_gate)."""
    import quimb.tensor as qtn

    rng = ctx.rng
    for n in range(ctx.n(14, 150)):
        nq = rng.choice([1, 2, 2, 3])
        circ = qtn.Circuit(nq)
        which = rng.choice(["uni", "uni", "uni", "psi", "amp"])
        # get_uni needs the gates kept as separate (lazy) tensors
        contract = rng.choice([False, False, "split-gate", "swap-split-gate", "auto-split-gate"] + ([True] if which != "uni" else []))
        glist = []
        for _ in range(rng.randint(2, 8)):
            if nq >= 2 and rng.random() < 0.35:
                g = rng.choice(CIRC_2Q)
                q = rng.sample(range(nq), 2)
                params = [round(rng.uniform(-3, 3), 3)] if g == "RZZ" else []
            else:
                g = rng.choice(CIRC_1Q)
                q = [rng.randrange(nq)]
                params = [round(rng.uniform(-3, 3), 3)] if g in ("RZ", "RX", "RY") else []
            try:
                circ.apply_gate(g, *params, *q, contract=contract)
                glist.append([g, params, q])
            except Exception:
                ctx.bump("circuit:gate_not_available:" + g)
        if which == "uni":
            try:
                tn = circ.get_uni()
            except Exception:  # get_uni needs lazy gate tensors; outside this property's domain
                ctx.bump("circuit:get_uni_unavailable")
                which = "psi"
        if which != "uni":
            tn = circ.psi.copy()
            if which == "amp":
                for q in rng.sample(range(nq), rng.randint(1, nq)):
                    v = np.zeros(2)
                    v[rng.randrange(2)] = 1.0
                    tn = tn | qtn.Tensor(v, (f"k{q}",), tags=["BRA"])
        tn = qtn.TensorNetwork(list(tn.tensors))  # plain network, no 1D / vector structure
        if rng.random() < 0.3:
            ts = list(tn.tensors)
            rng.shuffle(ts)
            tn = qtn.TensorNetwork(ts)
        outs = tuple(tn.outer_inds())
        netid = f"c{n}"
        ctx.bump("circuit:" + which)
        ctx.bump(f"circuit:contract={contract}")
        if n < 1:
            ctx.sample({"net": netid, "circuit": glist, "which": which, "outs": list(outs), "contract": str(contract)})
        for given in ((list(outs), None) if rng.random() < 0.5 else (list(outs),)):
            for name in ("antidiag_gauge", "diagonal_reduce", "column_reduce"):
                oracle_pass(ctx, netid, tn, name, {"outs": given, "circuit": glist}, outs, False)
            for seq in ["A", "AD", "ADCR"] + rng.sample(["ADCRS", "DARC", "ADCRSL", "CAD"], 1):
                # equalize_norms only where the value cannot be exactly zero (a partial amplitude can be)
                eq = rng.choice([False, False, True]) if which != "amp" else False
                oracle_pass(ctx, netid, tn, "full_simplify", {"seq": seq, "eq": eq, "outs": given, "circuit": glist}, outs, False)


def hyper_output_loop_net(rng, nprng, cplx):
    """a loop of 3-4 tensors with large bonds and small dangling legs (so that loop / pair simplification finds a size
    reducing split), optionally with a tail tensor; the declared outer labels contain a BOND of the loop."""
    import quimb.tensor as qtn

    L = rng.choice([3, 3, 4])
    D = rng.choice([3, 4, 4])
    inds = {k: [f"l{k}", f"l{(k + 1) % L}"] for k in range(L)}
    dims = {f"l{k}": D for k in range(L)}
    carriers = rng.sample(range(L), 2)
    outer = []
    for c, k in enumerate(carriers):
        o = f"k{c}"
        dims[o] = 2
        inds[k].append(o)
        outer.append(o)
    n = L
    if rng.random() < 0.4:  # a tail hanging off the loop
        k = rng.randrange(L)
        dims["t0"], dims["k9"] = 2, 2
        inds[k].append("t0")
        inds[n] = ["t0", "k9"]
        outer.append("k9")
        n += 1
    ts = []
    for k in range(n):
        rng.shuffle(inds[k])
        shape = [dims[x] for x in inds[k]]
        a = nprng.normal(size=shape) + (1j * nprng.normal(size=shape) if cplx else 0)
        ts.append(qtn.Tensor(a, tuple(inds[k]), tags=[f"T{k}"]))
    tn = qtn.TensorNetwork(ts)
    # the bond between the two tensors carrying the dangling legs if they are adjacent, else any loop bond
    a_, b_ = sorted(carriers)
    if b_ - a_ == 1:
        hb = f"l{b_}"
    elif a_ == 0 and b_ == L - 1:
        hb = "l0"
    else:
        hb = f"l{rng.randrange(L)}"
    if rng.random() < 0.25:
        hb = f"l{rng.randrange(L)}"
    return tn, tuple(outer) + (hb,)


def many_tensor_net(rng, nprng, cplx):
    """ring or chain of 9-13 small tensors with wildly different norms (more tensors than multiply's default spread of 8)."""
    import quimb.tensor as qtn

    n = rng.randint(9, 13)
    ring = rng.random() < 0.5
    ts = []
    for k in range(n):
        inds = []
        if ring or k > 0:
            inds.append(f"b{k}")
        if ring or k < n - 1:
            inds.append(f"b{(k + 1) % n}")
        if k % 2 == 0 or rng.random() < 0.3:
            inds.append(f"k{k}")
        shape = [2] * len(inds)
        a = nprng.normal(size=shape) + (1j * nprng.normal(size=shape) if cplx else 0)
        ts.append(qtn.Tensor(a * 10.0 ** rng.randint(-3, 3), tuple(inds), tags=[f"T{k}"]))
    return qtn.TensorNetwork(ts)


def scaled_equally(tn0, after, tol=1e-9):
    """distribute_exponent promises the SAME factor on every tensor: returns (ok, ratios)."""
    ratios = []
    for a, b in zip(tn0.tensors, after.tensors):
        na, nb = float(np.linalg.norm(np.asarray(a.data))), float(np.linalg.norm(np.asarray(b.data)))
        if na > 0:
            ratios.append(nb / na)
    if not ratios:
        return True, ratios
    return (max(ratios) - min(ratios)) <= tol * max(1.0, max(ratios)), ratios


def special_oracle_nets(ctx):
    rng = ctx.rng
    nprng = np.random.default_rng(ctx.seed + 4042)
    # (1) an outer label that is also a bond inside a loop
    for n in range(ctx.n(8, 80)):
        cplx = rng.random() < 0.4
        tn, outs = hyper_output_loop_net(rng, nprng, cplx)
        netid = f"h{n}"
        ctx.bump("onet:outer_label_is_loop_bond")
        o = list(outs)
        for inplace in (False, True):
            oracle_pass(ctx, netid, tn, "loop_simplify", {"eq": False, "inplace": inplace, "outs": o}, outs, False)
            oracle_pass(ctx, netid, tn, "pair_simplify", {"eq": False, "inplace": inplace, "outs": o}, outs, False)
        oracle_pass(ctx, netid, tn, "rank_simplify", {"eq": False, "outs": o}, outs, False)
        for seq in ["L", "LR", "RL", "P", "RPL", "ADCRSLP"]:
            oracle_pass(ctx, netid, tn, "full_simplify", {"seq": seq, "eq": rng.choice([False, False, True]), "outs": o}, outs, False)
    # (2) more tensors than the default spread of TensorNetwork.multiply
    for n in range(ctx.n(6, 60)):
        cplx = rng.random() < 0.4
        tn = many_tensor_net(rng, nprng, cplx)
        if rng.random() < 0.5:
            tn.exponent = float(rng.choice([3, -4, 7, 1.5]))
        outs = tuple(tn.outer_inds())
        netid = f"m{n}"
        ctx.bump("onet:more_than_8_tensors")
        after = oracle_pass(ctx, netid, tn, "equalize_norms", {"value": None}, outs, False)
        check_norms(ctx, netid, tn, after, None)
        v = rng.choice([1.0, 2.0])
        tn2 = oracle_pass(ctx, netid, tn, "equalize_norms", {"value": v}, outs, False)
        check_norms(ctx, netid, tn, tn2, v)
        if tn2 is not None:
            # an exponent left by an earlier pass must be redistributed evenly too
            after = oracle_pass(ctx, netid + "s", tn2, "equalize_norms", {"value": None}, outs, False)
            check_norms(ctx, netid + "s", tn2, after, None)
        new = float(rng.choice([0, 2, -3]))
        after = oracle_pass(ctx, netid, tn, "distribute_exponent", {"new": new}, outs, False)
        if after is not None:
            ok, ratios = scaled_equally(tn, after)
            ctx.bump("oracle:distribute_equal_factor_checked")
            if not ok:
                ctx.violation("distribute_exponent:form", f"distribute_exponent({new}) on {tn.num_tensors} tensors did not scale every tensor by the "
                              f"same factor: factors range {min(ratios):.6g} .. {max(ratios):.6g}",
                              {"net": netid, "pass": "distribute_exponent", "args": {"new": new}, "stream": "oracle", "outs": list(outs),
                               "exponent": float(np.real(tn.exponent)), "tensors": net_dump(tm.qtn_tensors(tn))})
        oracle_pass(ctx, netid, tn, "gauge_all_canonize", {"its": 1, "absorb": "both", "eq": True}, outs, False)
        oracle_pass(ctx, netid, tn, "full_simplify", {"seq": rng.choice(["A", "C", "AC"]), "eq": True, "check_zero": True}, outs, False)


def check_isometry_towards(ctx, netid, tn0, after, tiso, tother, args):
    """promised form of canonize_between: `tiso` is flagged and is an isometry from all its labels except the bond(s) to `tother`."""
    import quimb.tensor as qtn

    t = after[tiso]
    bond = set(qtn.bonds(t, after[tother]))
    want = set(t.inds) - bond
    ctx.bump("oracle:canonize_between_form_checked")
    ok = t.left_inds is not None and set(t.left_inds) == want
    if ok:
        try:
            ok = iso_defect(t) <= 1e-8
        except Exception:
            ok = False
    if not ok:
        ctx.violation("canonize_between:form", f"after canonize_between {args} tensor {tiso} is not a flagged isometry towards {tother} "
                      f"(left_inds={t.left_inds}, expected {sorted(want)})",
                      {"net": netid, "pass": "canonize_between", "args": args, "stream": "oracle", "tensors": net_dump(tm.qtn_tensors(tn0))})


def farthest_tag(edges, n, region):
    """tag of the tensor at the largest graph distance from the region (old centre for the moved-centre test)."""
    adj = {k: set() for k in range(n)}
    for i, j in edges:
        adj[i].add(j)
        adj[j].add(i)
    dist = {int(t[1:]): 0 for t in region}
    queue = list(dist)
    while queue:
        k = queue.pop(0)
        for m in adj[k]:
            if m not in dist:
                dist[m] = dist[k] + 1
                queue.append(m)
    return "T%d" % max(dist, key=lambda k: (dist[k], k))


def check_bonds(ctx, name, netid, tn0, after, sizes0, suffix="", args=None):
    if after is None:
        return
    sizes1 = pair_bond_sizes(after)
    for k, v in sizes1.items():
        if k in sizes0 and v > sizes0[k]:
            ctx.violation(f"{name}:bond_grew{suffix}",
                          f"{name}(max_bond=None, cutoff=0, {args}) increased the bond between {k} from {sizes0[k]} to {v}",
                          {"net": netid, "pass": name, "args": args or {}, "stream": "oracle", "exponent": float(np.real(tn0.exponent)),
                           "tensors": net_dump(tm.qtn_tensors(tn0))})
            return


def check_norms(ctx, netid, tn0, after, value):
    if after is None:
        return
    norms = [float(np.linalg.norm(np.asarray(t.data))) for t in after.tensors]
    target = norms[0] if value is None else value
    ctx.bump("oracle:equal_norms_checked")
    if any(abs(x - target) > 1e-8 * max(1.0, abs(target)) for x in norms):
        ctx.violation("equalize_norms:form", f"equalize_norms(value={value}) on {after.num_tensors} tensors left tensor norms "
                      f"min {min(norms):.6g} max {max(norms):.6g}",
                      {"net": netid, "pass": "equalize_norms", "args": {"value": value}, "stream": "oracle", "outs": list(tn0.outer_inds()),
                       "exponent": float(np.real(tn0.exponent)), "tensors": net_dump(tm.qtn_tensors(tn0))})


def check_canonical_region(ctx, netid, tn0, after, region):
    """tree network canonized around `region` with absorb='right': every tensor outside is an isometry
    pointing at the region, so <tn|tn> equals the norm of the region alone."""
    outside = [t for t in after.tensors if not (set(t.tags) & set(region))]
    unflagged = [sorted(t.tags) for t in outside if t.left_inds is None and t.ndim > 0]
    full = complex(np.sum(np.abs(np_dense(tm.qtn_tensors(after), tuple(after.outer_inds()), 0)) ** 2))
    sub = after.select(region, which="any")
    reg = complex(np.sum(np.abs(np_dense(tm.qtn_tensors(sub), tuple(sub.outer_inds()), 0)) ** 2))
    ctx.bump("oracle:canonical_region_checked")
    if unflagged or abs(full - reg) > 1e-8 * max(1.0, abs(full)):
        ctx.violation("canonize_around:form", f"canonize_around({region}) on a tree: tensors outside the region are not isometries "
                      f"pointing at it (unflagged {unflagged}; |tn|^2={full.real:.6g} vs |region|^2={reg.real:.6g})",
                      {"net": netid, "pass": "canonize_around", "region": region, "tensors": net_dump(tm.qtn_tensors(tn0))})


# ----------------------------------------------------------------------------
# structure passes on FLOAT networks whose "zeros" straddle atol and sqrt(atol)


def tolerance_pass_stream(ctx):
    """column_reduce / diagonal_reduce / antidiag_gauge / full_simplify on float networks: the planted structure holds only up
    to entries of magnitude `level`; a pass may use the structure only when level <= atol, so the value must be preserved up
    to atol * (product of tensor norms) - far below the effect of wrongly dropping entries of size 1e-9 .. 1e-5."""
    rng = ctx.rng
    atol = 1e-12
    for n in range(ctx.n(45, 500)):
        cplx = rng.random() < 0.4
        tn, kinds, outs = targeted_network(rng, cplx)
        level = rng.choice([1e-13, 1e-9, 3e-7, 3e-7, 1e-5, 1e-5])
        ts = list(tn.tensors)
        ts[0].modify(data=small_fill(rng, np.asarray(ts[0].data), level, cplx))
        for t in ts[1:]:
            # large, dense neighbours: a wrongly dropped small component is amplified
            a = np.asarray(t.data)
            a = (a + (a == 0) * rng.choice([1, -1, 2])) * float(rng.choice([1.0, 1e3, 2e7]))
            t.modify(data=a.astype(complex if cplx else float))
        tn.exponent = float(rng.choice([0, 0, 1, -2]))
        before = tm.qtn_tensors(tn)
        e0 = float(tn.exponent)
        P = float(np.prod([max(1.0, np.linalg.norm(np.asarray(a))) for _, a in before]))
        netid = f"t{n}"
        ctx.bump(f"tolnet:level={level:g}")
        ctx.bump("tolnet:" + kinds[0])
        for name, args in [("column_reduce", {}), ("diagonal_reduce", {}), ("antidiag_gauge", {}),
                           ("full_simplify", {"seq": "C"}), ("full_simplify", {"seq": "D"}), ("full_simplify", {"seq": "AD"}),
                           ("full_simplify", {"seq": "ADCR"})]:
            desc = {"net": netid, "pass": name, "args": args, "outs": list(outs), "explicit_outs": True, "exponent": e0,
                    "stream": "tolerance", "level": level, "tensors": net_dump(before)}
            key = name
            spy = spy_multiply()
            try:
                with warnings.catch_warnings(), spy:
                    warnings.simplefilter("ignore")
                    after, _ = PASSES[name](tn.copy(), tuple(outs), args)
            except Exception as e:
                ctx.violation(f"{key}:raised:{type(e).__name__}", f"{name} {args} raised {type(e).__name__}: {str(e)[:100]}", desc)
                continue
            if spy.calls or spy.untraced:
                check_traces(ctx, name, desc, spy, outs)
            ctx.count((netid, name, json.dumps(args)), changed(tn, after))
            try:
                ref = np_dense(before, outs, e0)
                got = np_dense(tm.qtn_tensors(after), outs, float(np.real(after.exponent)))
                scale = float(np.max(np.abs(ref))) if ref.size else 0.0
                tol = 1e-9 * scale + 1e2 * atol * P * 10.0 ** e0
                err = float(np.max(np.abs(ref - got))) if ref.shape == got.shape and ref.size else (0.0 if ref.shape == got.shape else float("inf"))
                ok = np.all(np.isfinite(got)) and err <= tol
                msg = f"max abs err {err:.3e} > allowed {tol:.3e} (data scale {scale:.3e})"
            except Exception as e:
                ok, msg = False, f"{type(e).__name__}: {e}"
            if not ok:
                ctx.violation(f"{key}:value:entries_between_atol_and_sqrt_atol" if atol < level <= 1e-5 else f"{key}:value",
                              f"{name} {args} on a float network whose off-structure entries have magnitude {level:g} (atol={atol:g}) "
                              f"changed the denoted tensor over {list(outs)}: {msg}", desc)


# ----------------------------------------------------------------------------
# gauged networks: (tn, gauges) denotes tn with sqrt(gauge) absorbed on both ends of each gauged bond,
# i.e. the network with the diagonal gauge inserted on the bond (Rw_gauge / C04_insert_gauge_sound with diagonal A, B)


def gauged_dense(tn, gauges, outs):
    t = tn.copy()
    t.gauge_simple_insert({k: np.asarray(v) for k, v in gauges.items() if k in t.ind_map})
    return np_dense(tm.qtn_tensors(t), outs, float(np.real(t.exponent)))


def g_fuse_multibonds(tn, g, a):
    return tn.fuse_multibonds(gauges=g)


def g_fuse_squeeze(tn, g, a):
    import quimb.tensor as qtn

    qtn.tensor_fuse_squeeze(tn[a["t1"]], tn[a["t2"]], gauges=g)
    return tn


def g_fuse_squeeze_all(tn, g, a):
    import quimb.tensor as qtn

    for x, y in a["pairs"]:
        if x in tn.tag_map and y in tn.tag_map and qtn.bonds(tn[x], tn[y]):
            qtn.tensor_fuse_squeeze(tn[x], tn[y], gauges=g)
    return tn


def g_make_single_bond(tn, g, a):
    from quimb.tensor.tensor_core import tensor_make_single_bond

    tensor_make_single_bond(tn[a["t1"]], tn[a["t2"]], gauges=g)
    return tn


def g_contract_between(tn, g, a):
    tn.contract_between(a["t1"], a["t2"], gauges=g)
    return tn


def g_canonize_between(tn, g, a):
    tn.canonize_between(a["t1"], a["t2"], absorb=a["absorb"], gauges=g, gauge_smudge=0.0)
    return tn


def g_compress_between(tn, g, a):
    tn.compress_between(a["t1"], a["t2"], max_bond=None, cutoff=0.0, gauges=g, gauge_smudge=0.0)
    return tn


def g_gauge_all_canonize(tn, g, a):
    return tn.gauge_all_canonize(max_iterations=a["its"], gauges=g, gauge_smudge=0.0)


def g_gauge_all_simple(tn, g, a):
    return tn.gauge_all_simple(max_iterations=a["its"], gauges=g, smudge=0.0)


def g_compress_all_simple(tn, g, a):
    return tn.compress_all_simple(max_bond=None, cutoff=0.0, gauges=g, max_iterations=a["its"], smudge=0.0)


GAUGED = {
    "fuse_multibonds[gauges]": g_fuse_multibonds, "tensor_fuse_squeeze[gauges]": g_fuse_squeeze,
    "tensor_fuse_squeeze[gauges,all_pairs]": g_fuse_squeeze_all, "tensor_make_single_bond[gauges]": g_make_single_bond,
    "contract_between[gauges]": g_contract_between, "canonize_between[gauges]": g_canonize_between,
    "compress_between[gauges]": g_compress_between, "gauge_all_canonize[gauges]": g_gauge_all_canonize,
    "gauge_all_simple[gauges,supplied]": g_gauge_all_simple, "compress_all_simple[gauges]": g_compress_all_simple,
}


def rand_gauged_network(rng, nprng, cplx):
    """float network whose bonds include size-1 bonds and 1x1 / 1xd multibonds, with un-normalised positive gauges."""
    import quimb.tensor as qtn

    n = rng.randint(2, 4)
    edges = [(rng.randrange(k), k) for k in range(1, n)]
    if rng.random() < 0.7:
        edges.append(rng.choice(edges))  # a multibond
    if rng.random() < 0.3 and n >= 3:
        i, j = sorted(rng.sample(range(n), 2))
        edges.append((i, j))
    inds = {k: [] for k in range(n)}
    dims, gauges = {}, {}
    for e, (i, j) in enumerate(edges):
        b = f"b{e}"
        dims[b] = rng.choice([1, 1, 1, 2, 2, 3])
        inds[i].append(b)
        inds[j].append(b)
        if rng.random() < 0.85:
            if dims[b] == 1:
                gauges[b] = np.array([rng.choice([0.5, 3.0, 0.25, 1.0, 2.0])])
            else:
                gauges[b] = np.sort(nprng.uniform(0.2, 3.0, size=dims[b]))[::-1].copy()
    c = 0
    for k in range(n):
        for _ in range(rng.choice([1, 1, 2])):
            o = f"k{c}"
            c += 1
            dims[o] = rng.choice([2, 2, 3, 4])
            inds[k].append(o)
        rng.shuffle(inds[k])
    ts = []
    for k in range(n):
        shape = [dims[x] for x in inds[k]]
        a = nprng.normal(size=shape)
        if cplx:
            a = a + 1j * nprng.normal(size=shape)
        ts.append(qtn.Tensor(a, tuple(inds[k]), tags=[f"T{k}"]))
    return qtn.TensorNetwork(ts), edges, gauges


def gauged_stream(ctx):
    rng = ctx.rng
    nprng = np.random.default_rng(ctx.seed + 4041)
    for n in range(ctx.n(40, 400)):
        cplx = rng.random() < 0.4
        tn, edges, gauges = rand_gauged_network(rng, nprng, cplx)
        outs = tuple(tn.outer_inds())
        netid = f"g{n}"
        i, j = rng.choice(edges)
        t1, t2 = (f"T{i}", f"T{j}") if rng.random() < 0.5 else (f"T{j}", f"T{i}")
        pairs = [[f"T{a}", f"T{b}"] for a, b in dict.fromkeys(edges)]
        ref = gauged_dense(tn, gauges, outs)
        scale = max(1.0, float(np.max(np.abs(ref))))
        if any(tn.ind_size(b) == 1 and float(g[0]) != 1.0 for b, g in gauges.items()):
            ctx.bump("gnet:size1_bond_with_unnormalised_gauge")
        jobs = [("fuse_multibonds[gauges]", {}), ("tensor_fuse_squeeze[gauges]", {"t1": t1, "t2": t2}),
                ("tensor_fuse_squeeze[gauges,all_pairs]", {"pairs": pairs}), ("tensor_make_single_bond[gauges]", {"t1": t1, "t2": t2}),
                ("contract_between[gauges]", {"t1": t1, "t2": t2}),
                ("canonize_between[gauges]", {"t1": t1, "t2": t2, "absorb": rng.choice(["right", "left", "both"])}),
                ("compress_between[gauges]", {"t1": t1, "t2": t2}),
                ("gauge_all_canonize[gauges]", {"its": rng.randint(1, 2)}),
                ("gauge_all_simple[gauges,supplied]", {"its": rng.randint(1, 3)}),
                ("compress_all_simple[gauges]", {"its": rng.randint(1, 2)})]
        for name, args in jobs:
            gauged_check(ctx, netid, tn, gauges, outs, name, args)


def gauged_check(ctx, netid, tn, gauges, outs, name, args):
    ref = gauged_dense(tn, gauges, outs)
    scale = max(1.0, float(np.max(np.abs(ref))))
    if True:
        if True:
            key = name.split("[")[0]
            desc = {"net": netid, "pass": name, "args": args, "outs": list(outs), "stream": "gauged", "exponent": 0.0,
                    "gauges": {k: np.asarray(v).tolist() for k, v in gauges.items()}, "tensors": net_dump(tm.qtn_tensors(tn))}
            ctx.bump("gauged:" + name)
            g = {k: np.array(v, dtype=float) for k, v in gauges.items()}
            try:
                with warnings.catch_warnings():
                    warnings.simplefilter("ignore")
                    after = GAUGED[name](tn.copy(), g, args)
            except Exception as e:
                cls = ""
                if isinstance(e, KeyError) and str(e).strip("'") in tn.ind_map and str(e).strip("'") not in gauges \
                        and tn.ind_size(str(e).strip("'")) == 1:
                    cls = ":size1_bond_without_gauge"
                ctx.violation(f"{key}:gauges:raised:{type(e).__name__}{cls}",
                              f"{name} {args} raised {type(e).__name__}: {str(e)[:120]} on a gauged network", desc)
                return
            ctx.count((netid, name, json.dumps(args)), changed(tn, after) or set(g) != set(gauges))
            try:
                stale = [k for k in g if k not in after.ind_map]
                got = gauged_dense(after, g, outs)
                err = float(np.max(np.abs(got - ref))) if got.shape == ref.shape else float("inf")
                ok = np.all(np.isfinite(got)) and err <= TOL * scale and not stale
                msg = f"max abs err {err:.3e} (scale {scale:.3e})" + (f"; gauges kept for vanished bonds {stale}" if stale else "")
            except Exception as e:
                ok, msg = False, f"{type(e).__name__}: {e}"
            if not ok:
                ctx.violation(f"{key}:gauges:value", f"the gauged network (gauges inserted on their bonds) after {name} {args} no longer denotes "
                              f"the same tensor over {list(outs)}: {msg}", desc)


def corpus_stream(ctx, col):
    """minimised past failures (corpus/C04/*.json), run first."""
    import glob
    import os

    from harness.common import VERIF

    for path in sorted(glob.glob(os.path.join(VERIF, "corpus", "C04", "*.json"))):
        r = json.load(open(path))
        name = os.path.basename(path)[:-5]
        ctx.bump("corpus")
        if r.get("stream") == "finder":
            from quimb.tensor import array_ops as ao

            arr = np.array([complex(a, b) for a, b in r["data"]]).reshape(r["shape"])
            arr = np.array(arr.real if not np.any(arr.imag) else arr, order="C")
            res = getattr(ao, r["fn"])(arr, atol=r.get("atol", 1e-12))
            res = None if res is None else (int(res[0]), int(res[1]))
            direct_finder_oracle(ctx, r["fn"], arr, res, r.get("atol", 1e-12), cls=":tolerance")
            continue
        tn = net_load(r["tensors"], r.get("exponent", 0))
        outs = tuple(r["outs"])
        if r.get("stream") == "gauged":
            gauged_check(ctx, "corpus:" + name, tn, {k: np.array(v) for k, v in r["gauges"].items()}, outs, r["pass"], r["args"])
            continue
        if r.get("stream") == "oracle":
            sizes0 = pair_bond_sizes(tn)
            after = oracle_pass(ctx, "corpus:" + name, tn, r["pass"], r["args"], outs, False,
                                mult_factor=r["args"].get("x", 1) if r["pass"] == "multiply" else 1)
            if r.get("check") == "norms":
                check_norms(ctx, "corpus:" + name, tn, after, r["args"].get("value"))
            if r.get("check") == "bonds":
                check_bonds(ctx, r["pass"], "corpus:" + name, tn, after, sizes0, f":reduced={r['args'].get('reduced')}", r["args"])
        else:
            run_pass(ctx, col, "corpus:" + name, tn, outs, r["pass"], r["args"], r.get("explicit", True))


def correspondence(ctx):
    col = Collector()
    corpus_stream(ctx, col)
    integer_stream(ctx, col)
    wire_stream(ctx, col)
    exponent_stream(ctx, col)
    failed, errors = robust_coq_cases(ctx, "passes", tm.HEADER + "From QV Require Import C04.Rules.\n", col.cases, 180)
    for path, err in errors:
        ctx.broken_obligation("correspondence:" + path.split("/")[-1], err)
    seen = set()
    for c in failed:
        d = col.info[c]
        key = value_key(d)
        if key in seen:
            continue
        seen.add(key)
        ctx.violation(key, f"network after {d['pass']} {d['args']} does not denote the same tensor over {d['outs']} "
                           "(exact mismatch, evaluated in Coq on the dumped arrays)", d)
    ctx.extra["coq_cases_passes"] = len(col.cases)


def run(ctx):
    ctx.extra["rule"] = RULE
    ctx.trusted_base += [
        "network semantics coq/Base/TN.v instantiated for Z[i] in coq/Base/TNExec.v: `dense` is executed by vm_compute on "
        "the dumped arrays of the implementation's network before and after each pass (same_value_expr)",
        "hand model of the three structure finders (coq/C04/Model.v), tied by exact correspondence on generated arrays and "
        "by a direct numpy oracle; abs(val) > atol is modelled as val != 0 (exact integer data, default atol)",
        "hand model of the decision rules of antidiag_gauge / diagonal_reduce / column_reduce (Model.v: ag_choose, ag_decisions, "
        "dr_choose, cr_choose), tied by a run-time trace: spies on the finders (labels read from the local `t` of the pass's "
        "frame, cross-checked by identity of its data) and on TensorNetwork.flip / reindex / isel called from those passes",
        "modelled, not verified: the strategy of the other passes (queues, caches, cost heuristics, which pairs are tried; for "
        "the three structure passes: the visit order and the cache, which the pass theorems quantify over) - the "
        "theorems say that any sequence of the primitives is sound, the correspondence checks each pass end to end; "
        "QR/SVD/eigh/inverse/norm routines enter the theorems only as hypotheses (A^T B = 1, a = q.M, t = ten(d).t') and "
        "are validated numerically in the oracle stream (tests, tolerance 1e-9); cotengra's execution of a contraction",
    ]
    ctx.assumptions += [
        "labels have a fixed dimension in the model: fuse_multibonds / canonize reuse an old label name with a new "
        "dimension, which the model states up to renaming of the summed label (C04_rename_bond_sound)",
        "outer labels: the pass's output_inds (explicit) or the labels occurring once (inferred); plain squeeze() is "
        "compared over the outer labels of dimension > 1 (C04_squeeze_output_sound)",
        "oracle stream networks have generically full-rank bonds (gauge inverses are conditioned by relative smudges)",
        "equalize_norms / check_zero=False on a network containing an exactly zero scalar is documented to produce NaN and is not exercised",
    ]
    import time

    walls = {}
    t = time.time()
    ctx.check_props(["C04/Model.vo", "C04/Rules.vo", "C04/Proofs.vo", "C04/Finders.vo", "C04/Passes.vo", "C04/Props.v"])
    walls["props"] = round(time.time() - t, 1)
    for fn in (finder_stream, correspondence, tolerance_pass_stream, gauged_stream, oracle_stream, special_oracle_nets,
               circuit_stream, trace_correspondence):
        t = time.time()
        ctx.stage(fn)
        walls[fn.__name__] = round(time.time() - t, 1)
    ctx.extra["stage_wall_s"] = walls


def replay(ctx, path):
    """re-run the recorded pass on the recorded network and report; then the whole check."""
    d = json.load(open(path))
    r = d.get("replay", {})
    print(json.dumps({k: v for k, v in d.items() if k != "replay"}, indent=1)[:1500])
    if r.get("stream") == "gauged" and "tensors" in r:
        tn = net_load(r["tensors"], r.get("exponent", 0))
        gauged_check(ctx, "replay", tn, {k: np.array(v) for k, v in r["gauges"].items()}, tuple(r["outs"]), r["pass"], r["args"])
        print("replayed gauged pass; violations so far:", [v[0] for v in ctx.violations])
    elif "fn" in r and "data" in r and "shape" in r:
        from quimb.tensor import array_ops as ao

        flat = [complex(*v) if isinstance(v, (list, tuple)) else complex(v) for v in r["data"]]
        arr = np.array(flat).reshape(r["shape"])
        arr = np.array(arr.real if not np.any(arr.imag) else arr, order="C")
        res = getattr(ao, r["fn"])(arr, atol=r.get("atol", 1e-12))
        print(f"replayed {r['fn']}: returned {res}, documented rule gives {finder_reference(r['fn'], arr, r.get('atol', 1e-12))}")
    elif "tensors" in r and "pass" in r:
        tn = net_load(r["tensors"], r.get("exponent", 0))
        outs = tuple(r.get("outs", tn.outer_inds()))
        try:
            if r.get("stream") == "oracle":
                after = ORACLE[r["pass"]](tn.copy(), r.get("args", {}))
                factor = r.get("args", {}).get("x", 1) if r["pass"] == "multiply" else 1
            else:
                after, factor = PASSES[r["pass"]](tn.copy(), outs, r.get("args", {}))
            ok, msg = np_same(tm.qtn_tensors(tn), float(tn.exponent), tm.qtn_tensors(after), float(np.real(after.exponent)), outs, factor)
            print(f"replayed {r['pass']}: same tensor = {ok} ({msg})")
        except Exception as e:
            print(f"replayed {r['pass']}: raised {type(e).__name__}: {e}")
    run(ctx)

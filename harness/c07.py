"""C07 - all circuit simulators implement the same unitary semantics, no stale caches.

Proof part (coq/C07):
  (1) every registered gate matrix is unitary for ALL real parameters (Coq Reals)
      - the matrices are REGENERATED on every run by executing the *_param_gen
      builders of quimb/tensor/circuit/gates.py on symbolic parameters
      (harness/c07_gates.py -> coq/C07/GatesGen.v), constant gates are recognised
      entry by entry, SU4 is the product of its factors;
  (2) CircuitPermMPS qubit tracker: stays a permutation, locates every qubit,
      refines the MPS site contents under gate_with_auto_swap(swap_back=False);
  (3) cache state machine: every hit returns what a miss would compute now,
      given that every mutator changes num_gates or clears the storage - the
      mutator inventory is REGENERATED from source (harness/c07_inventory.py ->
      coq/C07/Mutators.v).
  (3c) caches keyed by the identity of an object (id(G) -> converted gate array, one dict shared by a circuit and all
      its copies): with entries that store the original array, every history of allocations / frees / copies / dropped
      simulators / accepted and rejected gates under ANY allocator returns the conversion of the array handed in;
      without it a dropped copy or a rejected gate gives a stale hit (coq/C07/IdCacheModel.v, IdCache.v); the inventory
      of id() uses is REGENERATED from source (harness/c07_idcache.py -> coq/C07/IdCacheSites.v).
Tie: (1) the same expression trees evaluated with math.cos/sin vs the
  implementation's float matrices at rational parameters (1e-12); (2) exact:
  circ.qubits after every gate of random programs and the sites handed to
  gate_with_auto_swap, evaluated in Coq; (3) exact: storage keys, hit/miss
  sequence and _sample_n_gates after every operation of random programs; (3c) exact: hit/miss and returned conversion
  of every _maybe_convert_gate_array call, dict listing with pin flags, live arrays (weak references).
Oracle (test stream, tolerance 1e-9): random programs over the whole registered
  vocabulary + raw + (multi-)controlled gates on every simulator class x gate
  application option, interleaving gates / parameter updates / queries; every
  answer vs the dense reference U_n...U_1|0> computed with plain numpy from
  Gate.array; rejected gates must leave the simulator unchanged.
"""

import itertools
import json
import math
import os
import re
import warnings

import numpy as np

from harness import c07_gates as cg
from harness import c07_inventory as inv
from harness.common import COQ, REPO, blit, natlist, natlit, zlit

warnings.filterwarnings("ignore")

TOL = 1e-9
RULE = (
    "gates: every registered gate at 8 (quick) / 200 (thorough) parameter tuples - rationals k/8, multiples of pi/2, large "
    "values - model tree evaluated vs implementation (1e-12), numeric unitarity, documented matrices; tracker: 60 / 2500 random "
    "gate programs on CircuitPermMPS, N in 2..6, exact comparison in Coq of circ.qubits and of the sites handed to "
    "gate_with_auto_swap after every gate (non-trivial: a two-qubit gate on non-adjacent sites); cache: 40 / 1200 random "
    "programs of gates / set_params / update_params_from / clear / copy / queries / sampler passes on Circuit with logging "
    "dicts, exact comparison of key lists, hit/miss events and _sample_n_gates after every operation (non-trivial: a query "
    "repeated across a mutation); light cone: 90 / 4500 (program, where) pairs, exact comparison of the selected gate numbers "
    "(non-trivial: a SWAP in the program and a proper non-empty cone); oracle: 5 / 100 random programs on each of 21 "
    "class x option configurations (+ ~120 targeted programs), every query answer vs a dense numpy reference (exact "
    "simulators and MPS with cutoff=0 1e-9, MPS with the default cutoff 2e-5, default complex64 marginals 1e-4), rejected gates "
    "must leave the simulator unchanged; identity-keyed cache: 35 / 350 event programs (5 eagerly converting simulator classes x 7 "
    "conversion options: dtype / to_backend producing a new array, a view, or the same object) of freshly allocated raw / "
    "parametrised / constant gate arrays, short-lived copies, gates rejected after the conversion, dropped references and "
    "simulators, with an adversarial allocation strategy that reuses the address of a dead array - exact comparison in Coq of "
    "hit/miss, which array's conversion came back, the dict's (key, pins-its-key-object) listing and the live arrays after every "
    "operation; call-site oracle (exact) and dense-state oracle (1e-9, 2e-4 for complex64) on the same programs (non-trivial: a "
    "dropped copy and a rejected gate on a simulator whose conversion allocates). distinct = distinct (stream, configuration, "
    "program) descriptions."
)


# =============================================================================
# (1) gate vocabulary
# =============================================================================


def gates_stage(ctx):
    from quimb.tensor.circuit import gates as G

    models, refused = cg.build_models()
    for name, why in refused.items():
        ctx.broken_obligation(f"translator:gate:{name}", why)
    try:
        text = cg.emit_coq(models)
        ctx.regen("C07/GatesGen.v", text)
    except Exception as e:
        ctx.broken_obligation("translator:GatesGen", repr(e))
    ctx.extra["gates_modelled"] = len(models) + 1
    # coverage of the registry by the theorems in Props.v
    props = open(os.path.join(COQ, "C07/Props.v")).read()
    registered = sorted(set(G.CONSTANT_GATES) | set(G.PARAM_GATES))
    for name in registered:
        tok = cg.ident(name)
        if not re.search(r"\(" + re.escape(tok) + r"[ )]", props):
            ctx.broken_obligation(f"gate_registry:no_unitarity_theorem:{name}",
                                  f"gate {name} is registered but coq/C07/Props.v states no theorem about {tok}")
    for name in sorted(G.ALL_GATES):
        if name not in G.CONSTANT_GATES and name not in G.PARAM_GATES:
            ctx.broken_obligation(f"gate_registry:no_array:{name}", "registered gate without constant array or builder")

    rng = ctx.rng
    nper = ctx.n(8, 200)
    worst = 0.0
    for name in registered:
        nq = G.GATE_SIZE[name]
        d = 2**nq
        npar = 15 if name == "SU4" else models.get(name, (0,))[0]
        for it in range((min(nper, 5) if (name == "SU4" and ctx.quick) else nper) if npar else 1):
            # rational parameters p/8 (exactly representable), plus multiples of pi/2 and large values
            if it % 6 == 5:
                p = [rng.choice([0.0, math.pi / 2, math.pi, -math.pi / 2, 2 * math.pi, 100.0, -37.5]) for _ in range(npar)]
            else:
                p = [rng.randint(-64, 64) / 8.0 for _ in range(npar)]
            ctx.count(("gate", name, tuple(p)), npar > 0)
            ctx.bump("gate_param" if npar else "gate_const")
            try:
                if name in G.CONSTANT_GATES:
                    A = np.asarray(G.CONSTANT_GATES[name]).reshape(d, d)
                else:
                    A = np.asarray(G.PARAM_GATES[name](np.array(p, dtype=float))).reshape(d, d)
                    # the public route: Gate(...).array (lru-cached builder) and the parametrised PArray
                    g = G.Gate(name, p, qubits=tuple(range(nq)))
                    B = np.asarray(g.array).reshape(d, d)
                    if not np.array_equal(A, B):
                        ctx.violation(f"Gate.array:{name}:differs_from_builder", "Gate.array differs from the registered builder",
                                      {"gate": name, "params": p})
                    if it % 8 == 0:
                        gp = G.Gate(name, p, qubits=tuple(range(nq)), parametrize=True)
                        Cc = np.asarray(gp.array.data).reshape(d, d)
                        if not np.allclose(A, Cc, atol=1e-14):
                            ctx.violation(f"Gate.array:{name}:parametrized_differs", "PArray data differs from the builder",
                                          {"gate": name, "params": p})
            except Exception as e:
                ctx.violation(f"gate_builder:{name}:raised", f"builder raised {type(e).__name__}: {e}", {"gate": name, "params": p})
                continue
            # numeric unitarity (oracle; searcher for the unitarity theorems)
            dev = float(np.abs(A.conj().T @ A - np.eye(d)).max())
            if not dev < 1e-10:
                ctx.violation(f"gate:{name}:not_unitary", f"registered gate {name} is not unitary (|U^dag U - 1| = {dev:.3g})",
                              {"gate": name, "params": p, "deviation": dev})
            # model tree vs implementation
            if name == "SU4":
                if all(k in models for k in ("U3", "RZ", "RY", "CX")):
                    M = cg.su4_eval(models, p)
                else:
                    continue
            elif name in models:
                M = cg.m_eval(models[name][2], p)
            else:
                continue
            err = float(np.abs(M - A).max())
            worst = max(worst, err)
            if not err <= 1e-12:
                ctx.broken_obligation(f"correspondence:gate_model_vs_impl:{name}", {"gate": name, "params": p, "err": err})
            else:
                ctx.traces += 1
            # textbook semantics of the standard gates (test)
            ref = textbook(name, p)
            if ref is not None and not np.allclose(ref, A, atol=1e-12):
                ctx.violation(f"gate:{name}:differs_from_documented_matrix",
                              f"{name}({p}) differs from its documented matrix", {"gate": name, "params": p})
    ctx.extra["gate_model_vs_impl_max_err"] = worst
    ctx.sample({"stream": "gates", "example": "RZZ", "params": [0.375],
                "model_entry_00": [cg.r_coq(models["RZZ"][2][0][0][0]), cg.r_coq(models["RZZ"][2][0][0][1])] if "RZZ" in models else None})


def textbook(name, p):
    """documented matrices of the standard gates (independent of gates.py)"""
    from scipy.linalg import expm

    X = np.array([[0, 1], [1, 0]], dtype=complex)
    Y = np.array([[0, -1j], [1j, 0]])
    Z = np.diag([1.0 + 0j, -1.0])
    I2 = np.eye(2, dtype=complex)

    def ctrl(U):
        M = np.eye(4, dtype=complex)
        M[2:, 2:] = U
        return M

    def u3(t, ph, la):
        return np.array([[math.cos(t / 2), -np.exp(1j * la) * math.sin(t / 2)],
                         [np.exp(1j * ph) * math.sin(t / 2), np.exp(1j * (la + ph)) * math.cos(t / 2)]])

    if name == "RX":
        return expm(-0.5j * p[0] * X)
    if name == "RY":
        return expm(-0.5j * p[0] * Y)
    if name == "RZ":
        return expm(-0.5j * p[0] * Z)
    if name in ("U1", "PHASE"):
        return np.diag([1.0, np.exp(1j * p[0])])
    if name == "U3":
        return u3(*p)
    if name == "U2":
        return u3(math.pi / 2, p[0], p[1])
    if name == "CU3":
        return ctrl(u3(*p))
    if name == "CU2":
        return ctrl(u3(math.pi / 2, p[0], p[1]))
    if name in ("CU1", "CPHASE"):
        return ctrl(np.diag([1.0, np.exp(1j * p[0])]))
    if name == "CRX":
        return ctrl(expm(-0.5j * p[0] * X))
    if name == "CRY":
        return ctrl(expm(-0.5j * p[0] * Y))
    if name == "CRZ":
        return ctrl(expm(-0.5j * p[0] * Z))
    if name == "RXX":
        return expm(-0.5j * p[0] * np.kron(X, X))
    if name == "RYY":
        return expm(-0.5j * p[0] * np.kron(Y, Y))
    if name == "RZZ":
        return expm(-0.5j * p[0] * np.kron(Z, Z))
    if name in ("FSIM", "FS"):
        t, ph = p
        return np.array([[1, 0, 0, 0], [0, math.cos(t), -1j * math.sin(t), 0],
                         [0, -1j * math.sin(t), math.cos(t), 0], [0, 0, 0, np.exp(-1j * ph)]])
    const = {"X": X, "Y": Y, "Z": Z, "H": (X + Z) / math.sqrt(2), "S": np.diag([1, 1j]), "T": np.diag([1, np.exp(0.25j * math.pi)]),
             "IDEN": I2, "CX": ctrl(X), "CNOT": ctrl(X), "CY": ctrl(Y), "CZ": ctrl(Z),
             "SWAP": np.array([[1, 0, 0, 0], [0, 0, 1, 0], [0, 1, 0, 0], [0, 0, 0, 1]], dtype=complex),
             "ISWAP": np.array([[1, 0, 0, 0], [0, 0, 1j, 0], [0, 1j, 0, 0], [0, 0, 0, 1]], dtype=complex)}
    if name in const:
        return const[name]
    if name in ("SDG", "TDG"):
        return const[name[0]].conj().T
    if name in ("CCX", "CCNOT", "TOFFOLI", "CCY", "CCZ"):
        M = np.eye(8, dtype=complex)
        M[6:, 6:] = {"X": X, "N": X, "T": X, "Y": Y, "Z": Z}[name[2] if name.startswith("CC") else "T"]
        return M
    if name in ("CSWAP", "FREDKIN"):
        M = np.eye(8, dtype=complex)
        M[4:, 4:] = const["SWAP"]
        return M
    return None


# =============================================================================
# (3a) mutator inventory
# =============================================================================


def inventory_stage(ctx):
    try:
        cov, unc, a = inv.table(REPO)
    except Exception as e:
        ctx.broken_obligation("inventory:scan_failed", repr(e))
        return
    ctx.regen("C07/Mutators.v", inv.emit_coq(cov))
    ctx.extra["mutators_covered"] = len(cov)
    ctx.extra["mutators_uncovered"] = sorted({f"{r['defined_in']}.{r['method']}" for r in unc})
    ctx.extra["private_mutating_helpers"] = inv.private_helpers(REPO)[:40]
    ctx.extra["classes_scanned"] = a["classes"]
    if len(cov) < 50:
        ctx.broken_obligation("inventory:too_few_mutators", f"only {len(cov)} mutators found - scan no longer matches the source")
    names = {r["method"] for r in cov} | {r["method"] for r in unc}
    for must in ("apply_gate", "_apply_gate", "set_params", "update_params_from", "register_named_params", "apply_gates"):
        if must not in names:
            ctx.broken_obligation(f"inventory:missing:{must}", "a known mutator was not found by the scan")
    for nm in a["readers_without_init"]:
        ctx.broken_obligation(f"inventory:cache_read_before_maybe_init:{nm}",
                              "reads self._storage / _sampled_conditionals without calling _maybe_init_storage() first")
    for nm in a["uncopied_returns"]:
        ctx.broken_obligation(f"inventory:cached_object_returned_uncopied:{nm}", "returns self._storage[...] without .copy()")
    # every uncovered mutator: run the concrete stale-cache scenario on the implementation
    seen = set()
    for r in unc:
        tag = f"{r['defined_in']}.{r['method']}"
        if tag in seen:
            continue
        seen.add(tag)
        found = stale_scenario(ctx, r["method"])
        if not found:
            ctx.broken_obligation(f"inventory:uncovered_mutator:{tag}",
                                  f"{tag} changes self._psi / self._gates without changing num_gates or calling clear_storage ({r['why']})")
    # the covered ones as well (searcher for the inventory theorem / stale caches)
    for m in ("set_params", "update_params_from", "apply_gate", "apply_gates", "apply_to_arrays", "register_named_params"):
        stale_scenario(ctx, m)


def _param_circuit():
    import quimb.tensor as qtn

    c = qtn.Circuit(3)
    c.apply_gate("RX", 0.3, 0, parametrize=True)
    c.apply_gate("RY", 0.5, 1, parametrize=True)
    c.apply_gate("CNOT", 0, 1)
    c.apply_gate("RZZ", 0.7, 1, 2, parametrize=True)
    c.apply_gate("H", 2)
    return c


QUERY_BATTERY = ("to_dense", "to_dense.dtype", "amplitude", "partial_trace", "local_expectation", "compute_marginal",
                 "calc_qubit_ordering", "sample")


def _all_queries(c, only=None):
    """a fixed battery of cached queries -> dict of numpy answers (`only`: a single entry of the battery)"""
    Zop = np.diag([1.0, -1.0])
    fns = {
        "to_dense": lambda: np.asarray(c.to_dense()).ravel(),
        "to_dense.dtype": lambda: str(np.asarray(c.to_dense()).dtype),
        "amplitude": lambda: complex(np.asarray(c.amplitude("101"))),
        "partial_trace": lambda: np.asarray(c.partial_trace((1, 2))),
        "local_expectation": lambda: complex(np.asarray(c.local_expectation(Zop, 1))),
        "compute_marginal": lambda: np.asarray(c.compute_marginal((0,), fix={1: "1"}, dtype="complex128")),
        "calc_qubit_ordering": lambda: tuple(c.calc_qubit_ordering()),
        "sample": lambda: tuple(c.sample(4, seed=11, dtype="complex128")),
    }
    return {k: f() for k, f in fns.items() if only is None or k == only}


def _diff_answers(a, b):
    bad = []
    for k in a:
        if isinstance(a[k], (str, tuple)):
            if a[k] != b[k]:
                bad.append(k)
        elif not np.allclose(a[k], b[k], atol=TOL):
            bad.append(k)
    return bad


def stale_scenario(ctx, method):
    """query; mutate through `method`; query again; compare with a circuit that
    was never queried before the mutation.  Returns True when a violation was raised."""
    import quimb.tensor as qtn

    def mutate(c):
        if method == "set_params":
            c.set_params({0: np.array([1.1]), 3: np.array([-0.4])})
        elif method == "update_params_from":
            tn = c.psi
            tn["GATE_1"].params = np.array([2.2])
            c.update_params_from(tn)
        elif method == "apply_gate":
            c.apply_gate("RY", 0.9, 2)
        elif method == "apply_gates":
            c.apply_gates([("H", 0), ("CZ", 0, 2)])
        elif method == "apply_to_arrays":
            c.apply_to_arrays(lambda x: x.astype("complex64"))
        elif method == "register_named_params":
            c.register_named_params({"a": 0.25}, {0: ("2*a",)})
        else:
            return False
        return True

    found = False
    variants = (None,) + QUERY_BATTERY if (not ctx.quick or method in ("apply_gate", "set_params", "apply_to_arrays")) else (None, "partial_trace")
    for only in variants:
        # the whole battery, then every query on its own (another query in between may re-initialise the storage)
        try:
            warm, cold = _param_circuit(), _param_circuit()
            _all_queries(warm, only)
            if not mutate(warm):
                return False
            mutate(cold)
            a, b = _all_queries(warm, only), _all_queries(cold, only)
        except Exception as e:
            ctx.violation(f"CircuitBase.{method}:stale_cache_scenario:raised", f"{type(e).__name__}: {e}", {"method": method, "query": only})
            return True
        bad = _diff_answers(a, b)
        ctx.count(("stale_scenario", method, only), True)
        if bad:
            ctx.violation(
                f"CircuitBase.{method}:storage_not_cleared",
                f"after {method}() the cached queries {bad} differ from the same circuit queried for the first time "
                "(answers depend on what was cached earlier)",
                {"scenario": f"c=_param_circuit(); run {only or 'all queries'}; c.{method}(...); run again; compare with an unqueried twin",
                 "method": method, "differing": bad},
            )
            found = True
            break
    return found


# =============================================================================
# reference simulator (plain numpy)
# =============================================================================


def gate_matrix(label, params, nq, raw=None):
    from quimb.tensor.circuit import gates as G

    if raw is not None:
        return np.asarray(raw, dtype=complex).reshape(2**nq, 2**nq)
    if label in G.CONSTANT_GATES:
        return np.asarray(G.CONSTANT_GATES[label], dtype=complex).reshape(2**nq, 2**nq)
    g = G.Gate(label, params, qubits=tuple(range(nq)))
    return np.asarray(g.array, dtype=complex).reshape(2**nq, 2**nq)


def embed_apply(psi, U, qubits, N):
    k = len(qubits)
    T = np.asarray(U, dtype=complex).reshape([2] * (2 * k))
    out = np.tensordot(T, psi.reshape([2] * N), axes=(list(range(k, 2 * k)), list(qubits)))
    rest = [q for q in range(N) if q not in qubits]
    perm = [0] * N
    for a, q in enumerate(qubits):
        perm[q] = a
    for a, q in enumerate(rest):
        perm[q] = k + a
    return out.transpose(perm).reshape(-1)


def controlled(U, nc):
    d = U.shape[0]
    D = d * 2**nc
    M = np.eye(D, dtype=complex)
    M[D - d:, D - d:] = U
    return M


class Ref:
    def __init__(self, N):
        self.N = N
        self.psi = np.zeros(2**N, dtype=complex)
        self.psi[0] = 1.0
        self.U = np.eye(2**N, dtype=complex)
        self.gates = []  # descriptors (for parameter updates the state is recomputed)

    def apply(self, d):
        self.gates.append(d)
        self._apply(d)

    def _apply(self, d):
        U = gate_matrix(d["label"], d["params"], len(d["qubits"]), d.get("raw"))
        qs = list(d["qubits"])
        if d["controls"]:
            U = controlled(U, len(d["controls"]))
            qs = list(d["controls"]) + qs
        self.psi = embed_apply(self.psi, U, qs, self.N)
        cols = [embed_apply(self.U[:, j].copy(), U, qs, self.N) for j in range(2**self.N)]
        self.U = np.array(cols).T

    def recompute(self):
        self.psi = np.zeros(2**self.N, dtype=complex)
        self.psi[0] = 1.0
        self.U = np.eye(2**self.N, dtype=complex)
        for d in self.gates:
            self._apply(d)

    def copy(self):
        r = Ref(self.N)
        r.psi, r.U, r.gates = self.psi.copy(), self.U.copy(), [dict(g) for g in self.gates]
        return r

    def rdm(self, keep):
        N = self.N
        T = self.psi.reshape([2] * N)
        row = list(range(N))
        col = [i if i not in keep else N + i for i in range(N)]
        out = [row[i] for i in keep] + [col[i] for i in keep]
        R = np.einsum(T, row, T.conj(), col, out)
        return R.reshape(2 ** len(keep), 2 ** len(keep))

    def expectation(self, G, where):
        return complex(np.vdot(self.psi, embed_apply(self.psi, G, list(where), self.N)))

    def marginal(self, where, fix):
        N = self.N
        P = (np.abs(self.psi) ** 2).reshape([2] * N)
        idx = [slice(None)] * N
        for q, b in (fix or {}).items():
            idx[q] = int(b)
        P = P[tuple(idx)]
        remaining = [q for q in range(N) if q not in (fix or {})]
        axes_where = [remaining.index(q) for q in where]
        others = tuple(i for i in range(len(remaining)) if i not in axes_where)
        P = P.sum(axis=others) if others else P
        # axes now in increasing qubit order of `where`; reorder to the order given
        order_now = sorted(where)
        return P.transpose([order_now.index(q) for q in where]) if len(where) > 1 else P

    def prob(self, bits):
        return float(abs(self.psi[int(bits, 2)]) ** 2)


# =============================================================================
# simulator configurations
# =============================================================================

ACCEPT_ALL = {"1q", "1qp", "2q", "2qp", "IDEN", "raw1", "raw2"}


def to_backend_copy(x):
    """a `to_backend` that hands back a NEW array for every numpy array (stands for a device transfer); anything else
    (parametrised PArray) is passed through"""
    return np.array(x) if isinstance(x, np.ndarray) else x


def configs():
    import quimb.tensor as qtn

    C = {}

    def add(name, base, mk, accepts, exact=False, mps=False, lazy=False, perm=False, tol=None):
        # tolerance: exact simulators 1e-9; the MPS simulators truncate with the documented default cutoff 1e-10 on the
        # SQUARED singular values (Schmidt coefficients below ~1e-5 are dropped: observed state error 6e-6) -> 2e-5;
        # 1e-9 again for the configurations built with cutoff=0 (no truncation requested at all)
        C[name] = {"name": name, "base": base, "mk": mk, "accepts": ACCEPT_ALL | set(accepts), "exact": exact, "mps": mps,
                   "lazy": lazy, "perm": perm, "tol": tol if tol is not None else (2e-5 if mps else TOL)}

    add("Circuit", "Circuit", lambda N: qtn.Circuit(N), {"3q", "raw3", "SWAP", "ctrl", "ctrl2", "param"}, exact=True)
    add("Circuit[contract=False]", "Circuit", lambda N: qtn.Circuit(N, gate_contract=False), {"3q", "raw3", "SWAP", "param", "param2"}, exact=True)
    add("Circuit[contract=True]", "Circuit", lambda N: qtn.Circuit(N, gate_contract=True), {"3q", "raw3", "SWAP", "ctrl", "ctrl2"}, exact=True)
    add("Circuit[split-gate]", "Circuit", lambda N: qtn.Circuit(N, gate_contract="split-gate"), {"SWAP", "ctrl", "ctrl2", "param"}, exact=True)
    add("Circuit[swap-split-gate]", "Circuit", lambda N: qtn.Circuit(N, gate_contract="swap-split-gate"), {"SWAP", "param"}, exact=True)
    add("CircuitDense", "CircuitDense", lambda N: qtn.CircuitDense(N), {"3q", "raw3", "SWAP", "ctrl", "ctrl2"}, exact=True)
    add("CircuitMPS", "CircuitMPS", lambda N: qtn.CircuitMPS(N), {"3q", "raw3", "SWAP", "ctrl", "ctrl2"}, mps=True)
    add("CircuitMPS[cutoff=0]", "CircuitMPS", lambda N: qtn.CircuitMPS(N, cutoff=0.0), {"3q", "raw3", "SWAP", "ctrl", "ctrl2"}, mps=True, tol=TOL)
    add("CircuitMPS[nonlocal,cutoff=0]", "CircuitMPS", lambda N: qtn.CircuitMPS(N, gate_contract="nonlocal", cutoff=0.0),
        {"3q", "raw3", "SWAP", "ctrl", "ctrl2"}, mps=True, tol=TOL)
    add("CircuitMPS[swap+split]", "CircuitMPS", lambda N: qtn.CircuitMPS(N, gate_contract="swap+split"), {"SWAP"}, mps=True)
    add("CircuitMPS[nonlocal]", "CircuitMPS", lambda N: qtn.CircuitMPS(N, gate_contract="nonlocal"), {"3q", "raw3", "SWAP", "ctrl", "ctrl2"}, mps=True)
    add("CircuitMPS[convert_eager=False]", "CircuitMPS", lambda N: qtn.CircuitMPS(N, convert_eager=False, dtype="complex128"),
        {"3q", "raw3", "SWAP", "ctrl", "ctrl2"}, mps=True)
    add("CircuitPermMPS", "CircuitPermMPS", lambda N: qtn.CircuitPermMPS(N), {"SWAP"}, mps=True, perm=True)
    add("CircuitPermMPS[convert_eager=False]", "CircuitPermMPS", lambda N: qtn.CircuitPermMPS(N, convert_eager=False, dtype="complex128"),
        {"SWAP"}, mps=True, perm=True)
    add("CircuitPermMPS[auto-mps]", "CircuitPermMPS", lambda N: qtn.CircuitPermMPS(N, gate_contract="auto-mps"),
        {"3q", "raw3", "SWAP", "ctrl", "ctrl2"}, mps=True, perm=True)
    add("CircuitPermMPS[auto-mps,cutoff=0]", "CircuitPermMPS", lambda N: qtn.CircuitPermMPS(N, gate_contract="auto-mps", cutoff=0.0),
        {"3q", "raw3", "SWAP", "ctrl", "ctrl2"}, mps=True, perm=True, tol=TOL)
    add("CircuitMPSLazy", "CircuitMPSLazy", lambda N: qtn.CircuitMPSLazy(N), {"3q", "raw3", "SWAP", "ctrl", "ctrl2"}, mps=True, lazy=True)
    add("CircuitMPSLazy[every=1,direct]", "CircuitMPSLazy", lambda N: qtn.CircuitMPSLazy(N, compress_every=1, method="direct"),
        {"3q", "raw3", "SWAP", "ctrl", "ctrl2"}, mps=True, lazy=True)
    add("CircuitMPSLazy[every=4,cutoff=0]", "CircuitMPSLazy", lambda N: qtn.CircuitMPSLazy(N, compress_every=4, cutoff=0.0),
        {"3q", "raw3", "SWAP", "ctrl", "ctrl2"}, mps=True, lazy=True, tol=TOL)
    # simulators whose eager conversion produces NEW arrays (to_backend stands for a device transfer): every gate array goes
    # through the id()-keyed cache of converted arrays, every state tensor through to_backend
    add("CircuitMPS[to_backend=copy,cutoff=0]", "CircuitMPS", lambda N: qtn.CircuitMPS(N, cutoff=0.0, to_backend=to_backend_copy),
        {"3q", "raw3", "SWAP", "ctrl", "ctrl2"}, mps=True, tol=TOL)
    add("CircuitPermMPS[dtype=complex128,to_backend=copy,cutoff=0]", "CircuitPermMPS",
        lambda N: qtn.CircuitPermMPS(N, cutoff=0.0, dtype="complex128", to_backend=to_backend_copy), {"SWAP"}, mps=True, perm=True, tol=TOL)
    return C


# =============================================================================
# program generation
# =============================================================================

CONST1 = ["H", "X", "Y", "Z", "S", "SDG", "T", "TDG", "SX", "SXDG", "X_1_2", "Y_1_2", "Z_1_2", "W_1_2", "HZ_1_2"]
CONST2 = ["CX", "CNOT", "CY", "CZ", "ISWAP", "IS"]
CONST3 = ["CCX", "CCNOT", "TOFFOLI", "CCY", "CCZ", "CSWAP", "FREDKIN"]
METHOD_OF = {  # convenience methods of CircuitBase
    "H": "h", "X": "x", "Y": "y", "Z": "z", "S": "s", "SDG": "sdg", "T": "t", "TDG": "tdg", "SX": "sx", "SXDG": "sxdg",
    "X_1_2": "x_1_2", "Y_1_2": "y_1_2", "Z_1_2": "z_1_2", "W_1_2": "w_1_2", "HZ_1_2": "hz_1_2", "CNOT": "cnot", "CX": "cx",
    "CY": "cy", "CZ": "cz", "ISWAP": "iswap", "SWAP": "swap", "RX": "rx", "RY": "ry", "RZ": "rz", "U3": "u3", "U2": "u2",
    "U1": "u1", "PHASE": "phase", "CU3": "cu3", "CU2": "cu2", "CU1": "cu1", "CPHASE": "cphase", "FSIM": "fsim", "FSIMG": "fsimg",
    "GIVENS": "givens", "GIVENS2": "givens2", "XXPLUSYY": "xx_plus_yy", "XXMINUSYY": "xx_minus_yy", "RXX": "rxx", "RYY": "ryy",
    "RZZ": "rzz", "CRX": "crx", "CRY": "cry", "CRZ": "crz", "SU4": "su4", "CCX": "ccx", "CCNOT": "ccnot", "TOFFOLI": "toffoli",
    "CCY": "ccy", "CCZ": "ccz", "CSWAP": "cswap", "FREDKIN": "fredkin",
}


def nparams(label):
    return {"RX": 1, "RY": 1, "RZ": 1, "U1": 1, "PHASE": 1, "U2": 2, "U3": 3, "CU1": 1, "CPHASE": 1, "CU2": 2, "CU3": 3, "CRX": 1,
            "CRY": 1, "CRZ": 1, "FSIM": 2, "FS": 2, "FSIMG": 5, "GIVENS": 1, "GIVENS2": 2, "XXPLUSYY": 2, "XXMINUSYY": 2, "RXX": 1,
            "RYY": 1, "RZZ": 1, "SU4": 15}.get(label, 0)


def rand_params(rng, n):
    return [rng.randint(-25, 25) / 8.0 for _ in range(n)]


def gen_gate(rng, N, kinds):
    """-> gate descriptor (JSON-able)"""
    from quimb.tensor.circuit import gates as G

    P1 = sorted(G.ONE_QUBIT_PARAM_GATES)
    P2 = sorted(G.TWO_QUBIT_PARAM_GATES)
    kind = rng.choice(kinds)
    d = {"op": "gate", "kind": kind, "params": [], "controls": [], "parametrize": False, "raw_seed": None, "round": None}
    if kind in ("3q", "raw3") and N < 3:
        kind = d["kind"] = "2q"
    if kind in ("ctrl2",) and N < 3:
        kind = d["kind"] = "ctrl"
    if kind == "1q":
        d["label"] = rng.choice(CONST1)
        d["qubits"] = [rng.randrange(N)]
    elif kind in ("1qp", "param", "param2"):
        d["label"] = rng.choice(P2 if kind == "param2" else P1)
        nq = G.GATE_SIZE[d["label"]]
        d["qubits"] = rng.sample(range(N), nq)
        d["params"] = rand_params(rng, nparams(d["label"]))
        d["parametrize"] = kind != "1qp"
    elif kind == "2q":
        d["label"] = rng.choice(CONST2)
        d["qubits"] = rng.sample(range(N), 2)
    elif kind == "2qp":
        d["label"] = rng.choice(P2) if rng.random() < 0.9 else "SU4"
        d["qubits"] = rng.sample(range(N), 2)
        d["params"] = rand_params(rng, nparams(d["label"]))
    elif kind == "3q":
        d["label"] = rng.choice(CONST3)
        d["qubits"] = rng.sample(range(N), 3)
    elif kind == "SWAP":
        d["label"] = "SWAP"
        d["qubits"] = rng.sample(range(N), 2)
    elif kind == "IDEN":
        d["label"] = "IDEN"
        d["qubits"] = [rng.randrange(N)]
    elif kind in ("raw1", "raw2", "raw3"):
        nq = int(kind[-1])
        d["label"] = "RAW"
        d["qubits"] = rng.sample(range(N), nq)
        d["raw_seed"] = rng.randrange(1 << 30)
    elif kind in ("ctrl", "ctrl2"):
        nc = 1 if kind == "ctrl" else 2
        tq = 1 if (N - nc < 2 or rng.random() < 0.65) else 2
        base = rng.choice(["const", "param", "raw", "swap"] if tq == 2 else ["const", "param", "raw"])
        qs = rng.sample(range(N), nc + tq)
        d["controls"], d["qubits"] = qs[:nc], qs[nc:]
        if base == "const":
            d["label"] = rng.choice(CONST1 if tq == 1 else CONST2)
        elif base == "param":
            d["label"] = rng.choice(P1 if tq == 1 else P2)
            d["params"] = rand_params(rng, nparams(d["label"]))
        elif base == "swap":
            d["label"] = "SWAP"
        else:
            d["label"] = "RAW"
            d["raw_seed"] = rng.randrange(1 << 30)
    if rng.random() < 0.25:
        d["round"] = rng.randrange(5)
    how = ["string", "gate"]
    if d["label"] in METHOD_OF and not d["controls"] and d["label"] != "RAW":
        how.append("method")
    if d["label"] == "RAW":
        how = ["raw", "gate", "rawtuple"]
    d["how"] = rng.choice(how)
    return d


def raw_unitary(d):
    import quimb as qu

    return np.asarray(qu.rand_uni(2 ** len(d["qubits"]), seed=d["raw_seed"], dtype=complex))


def apply_to_circuit(circ, d):
    """apply the described gate through the described API route"""
    from quimb.tensor.circuit import gates as G

    label, params, qubits, controls = d["label"], d["params"], list(d["qubits"]), list(d["controls"]) or None
    opts = dict(d.get("opts") or {})
    if label == "RAW":
        U = raw_unitary(d)
        if d["how"] == "gate":
            circ.apply_gate(G.Gate.from_raw(U, qubits, controls=controls, round=d["round"]), **opts)
        elif d["how"] == "rawtuple" and not controls:
            circ.apply_gate(U, *qubits, gate_round=d["round"], **opts)
        else:
            circ.apply_gate_raw(U, qubits, controls=controls, gate_round=d["round"], **opts)
        return
    if d["how"] == "method":
        kw = {"gate_round": d["round"]}
        if nparams(label):
            kw["parametrize"] = d["parametrize"]
        getattr(circ, METHOD_OF[label])(*params, *qubits, **kw, **opts)
    elif d["how"] == "gate":
        circ.apply_gate(G.Gate(label, params, qubits=qubits, controls=controls, round=d["round"], parametrize=d["parametrize"]), **opts)
    else:
        kw = {}
        if controls:
            kw["controls"] = controls
        if d["parametrize"]:
            kw["parametrize"] = True
        if d["round"] is not None and not (d.get("round_first")):
            kw["gate_round"] = d["round"]
        circ.apply_gate(label, *params, *qubits, **kw, **opts)


def ref_descr(d):
    r = {"label": d["label"], "params": list(d["params"]), "qubits": list(d["qubits"]), "controls": list(d["controls"])}
    if d["label"] == "RAW":
        r["raw"] = raw_unitary(d)
    return r


QUERY_KINDS_EXACT = ["to_dense", "amplitude", "uni", "partial_trace", "local_expectation", "local_expectation_multi", "compute_marginal",
                     "sample", "psi", "rehearse", "simulate_counts", "ordering"]
QUERY_KINDS_MPS = ["to_dense", "amplitude", "partial_trace", "local_expectation", "compute_marginal", "sample", "psi",
                   "fidelity", "mps_sample_prob", "simulate_counts"]
SEQS = ["ADCRS", "R", "", "DRC", "A"]
ATOLS = [1e-12, 1e-6, 1e-14]


def gen_query_of(rng, N, cfg, kind):
    return gen_query(rng, N, cfg, kind)


# optional arguments that select another code path (conversion of a copy, other contraction route, no norm
# equalisation ...) without changing the answer
OPT_POOL_MPS = {
    "to_dense": [{"dtype": "complex128"}, {"backend": "numpy"}, {"optimize": "greedy"}],
    "amplitude": [{"dtype": "complex128"}, {"backend": "numpy"}, {"optimize": "greedy"}],
    "partial_trace": [{"dtype": "complex128"}, {"backend": "numpy"}, {"optimize": "greedy"}],
    "compute_marginal": [{"backend": "numpy"}, {"optimize": "greedy"}],
    "local_expectation": [{"dtype": "complex128"}, {"normalized": True}, {"dtype": "complex128", "normalized": True}],
    "sample": [{"dtype": "complex128"}],
}
OPT_POOL_EXACT = {
    "to_dense": [{"dtype": "complex128"}, {"backend": "numpy"}, {"optimize": "greedy"}, {"simplify_equalize_norms": False}],
    "amplitude": [{"dtype": "complex128"}, {"backend": "numpy"}, {"optimize": "greedy"}, {"simplify_equalize_norms": False}],
    "partial_trace": [{"dtype": "complex128"}, {"backend": "numpy"}, {"optimize": "greedy"}, {"simplify_equalize_norms": False}],
    "local_expectation": [{"dtype": "complex128"}, {"backend": "numpy"}, {"optimize": "greedy"}, {"simplify_equalize_norms": False}],
    "local_expectation_multi": [{"dtype": "complex128"}, {"optimize": "greedy"}],
    "compute_marginal": [{"backend": "numpy"}, {"optimize": "greedy"}, {"simplify_equalize_norms": False}],
    "sample": [{"dtype": "complex128"}, {"backend": "numpy"}, {"optimize": "greedy"}],
}


def gen_query(rng, N, cfg, kind=None):
    kind = kind or rng.choice(QUERY_KINDS_EXACT if cfg["exact"] else QUERY_KINDS_MPS)
    q = {"op": "query", "q": kind}
    pool = (OPT_POOL_EXACT if cfg["exact"] else OPT_POOL_MPS).get(kind)
    if pool and rng.random() < 0.4:
        q["opts"] = dict(rng.choice(pool))
    if cfg["exact"]:
        q["seq"] = rng.choice(SEQS + ["ADCRS"] * 3)
        q["atol"] = rng.choice([1e-12, 1e-12, 1e-14])
    if kind == "amplitude":
        q["b"] = "".join(rng.choice("01") for _ in range(N))
    elif kind == "to_dense":
        q["reverse"] = rng.random() < 0.2
    elif kind == "uni":
        q["transposed"] = rng.random() < 0.3
    elif kind == "partial_trace":
        q["keep"] = rng.sample(range(N), rng.randint(1, min(2, N)))
    elif kind in ("local_expectation", "local_expectation_multi"):
        k = 1 if (N < 2 or rng.random() < 0.6) else 2
        q["where"] = rng.sample(range(N), k)
        q["G_seed"] = rng.randrange(1 << 30)
    elif kind == "compute_marginal":
        k = rng.randint(1, min(2, N))
        where = rng.sample(range(N), k)
        rest = [i for i in range(N) if i not in where]
        nf = rng.randint(0, len(rest))
        q["where"] = where
        q["fix"] = None if (nf == 0 and rng.random() < 0.5) else {str(i): rng.choice("01") for i in rng.sample(rest, nf)}
        q["dtype"] = rng.choice(["complex128", "complex128", None])
    elif kind == "sample":
        q["C"] = rng.randint(1, 4)
        q["seed"] = rng.randrange(1000)
        q["group_size"] = rng.choice([1, 1, 2, 10])
        if cfg["exact"] and rng.random() < 0.6:
            # a subset of the qubits and / or an explicit measurement order: other conditioning events
            sub = sorted(rng.sample(range(N), rng.randint(1, N))) if rng.random() < 0.7 else list(range(N))
            q["qubits"] = sub
            if rng.random() < 0.6:
                q["order"] = rng.sample(sub, len(sub))
            q["C"] = rng.choice([3, 24])
    elif kind == "rehearse":
        q["which"] = rng.choice(["amplitude", "to_dense", "partial_trace", "local_expectation", "sample"])
    elif kind == "ordering":
        q["qubits"] = None if rng.random() < 0.5 else sorted(rng.sample(range(N), rng.randint(1, N)))
    elif kind == "simulate_counts":
        q["C"] = 20
        q["seed"] = rng.randrange(1000)
    elif kind == "mps_sample_prob":
        q["C"] = 3
        q["seed"] = rng.randrange(1000)
    return q


def gen_program(rng, cfg, N, length):
    kinds_ok = sorted(cfg["accepts"])
    weights = {"1q": 3, "1qp": 4, "2q": 4, "2qp": 5, "3q": 2, "SWAP": 3, "IDEN": 1, "raw1": 1, "raw2": 2, "raw3": 1, "ctrl": 3, "ctrl2": 2,
               "param": 3, "param2": 2}
    pool = [k for k in kinds_ok for _ in range(weights.get(k, 1))]
    reject_pool = [k for k in weights if k not in cfg["accepts"]]
    prog = []
    # half of the programs repeat a small fixed pool of queries across the mutations (stale-cache pattern)
    qpool = [gen_query(rng, N, cfg) for _ in range(3)] if rng.random() < 0.5 else None
    for _ in range(length):
        r = rng.random()
        if r < 0.5 or not prog:
            prog.append(gen_gate(rng, N, pool))
        elif r < 0.62 and reject_pool:
            g = gen_gate(rng, N, reject_pool)
            g["expect"] = "may_reject"
            prog.append(g)
        elif r < 0.70 and cfg["exact"] and "param" in cfg["accepts"]:
            prog.append({"op": "set_params", "seed": rng.randrange(1 << 30), "via": rng.choice(["set_params", "update_params_from"])})
        elif r < 0.76 and sum(1 for o in prog if o["op"] == "copy") < 2:
            prog.append({"op": "copy"})
        elif r < 0.79 and cfg["exact"]:
            prog.append({"op": "batch", "gates": [gen_gate(rng, N, [k for k in pool if k in ("1q", "1qp", "2q", "2qp")]) for _ in range(rng.randint(1, 3))]})
        else:
            q = dict(rng.choice(qpool)) if (qpool and rng.random() < 0.7) else gen_query(rng, N, cfg)
            prog.append(q)
            if rng.random() < 0.3:
                # the same query directly before and after one more gate (nothing else touches the caches in between)
                prog.append(gen_gate(rng, N, [k for k in pool if k in ("1q", "1qp", "2q", "2qp")]))
                prog.append(dict(q))
    # after the first copy every operation names the branch (original or one of the copies) it acts on
    nb = 1
    for o in prog:
        if nb > 1:
            o["on"] = rng.randrange(nb)
        if o["op"] == "copy":
            o["switch"] = rng.random() < 0.5
            nb += 1
    # a burst of different queries with no mutation in between (cache-key collisions show up here)
    if rng.random() < 0.6:
        for _ in range(rng.randint(3, 6)):
            q = gen_query(rng, N, cfg)
            if cfg["exact"] and rng.random() < 0.7:
                q["q"] = rng.choice(["partial_trace", "local_expectation", "compute_marginal"])
                q.update({k: v for k, v in gen_query_of(rng, N, cfg, q["q"]).items()})
                q["seq"], q["atol"] = "ADCRS", 1e-12
            if nb > 1:
                q["on"] = rng.randrange(nb)
            prog.append(q)
    # always end with the basic observables, on every branch
    for k in range(nb):
        if cfg["mps"] and nb > 1:
            prog.append({"op": "query", "q": "local_expectation", "where": [rng.randrange(N)], "G_seed": rng.randrange(1 << 30), "on": k})
        prog.append({"op": "query", "q": "to_dense", "reverse": False, "on": k, **({"seq": "R", "atol": 1e-12} if cfg["exact"] else {})})
    return prog


# =============================================================================
# program execution against the reference
# =============================================================================


class Abort(Exception):
    pass


def snapshot(circ, cfg):
    s = {"num_gates": circ.num_gates, "dense": np.asarray(circ.copy().to_dense()).ravel() if cfg["lazy"] else np.asarray(circ.to_dense()).ravel()}
    if cfg["perm"]:
        s["qubits"] = list(circ.qubits)
    return s


def record_truthful(circ):
    """is gate_opts['info']['cur_orthog'] true of circ._psi ?  (None = nothing claimed)"""
    info = circ.gate_opts.get("info", {})
    co = info.get("cur_orthog", None)
    if co is None or co == "calc":
        return None
    cmin, cmax = (co, co) if isinstance(co, int) else (min(co), max(co))
    psi = circ._psi
    L = psi.L
    try:
        for i in range(L):
            if cmin <= i <= cmax:
                continue
            t = psi[i]
            if i < cmin:
                rb = psi.bond(i, i + 1)
                others = [ix for ix in t.inds if ix != rb]
                A = np.asarray(t.to_dense(others, [rb]))
                if not np.allclose(A.conj().T @ A, np.eye(A.shape[1]), atol=1e-8):
                    return False
            else:
                lb = psi.bond(i - 1, i)
                others = [ix for ix in t.inds if ix != lb]
                A = np.asarray(t.to_dense([lb], others))
                if not np.allclose(A @ A.conj().T, np.eye(A.shape[0]), atol=1e-8):
                    return False
    except Exception:
        return None
    return True


def run_program(ctx, cfg, N, prog, check_each_gate=True, stream="oracle"):
    """Execute `prog` on a fresh simulator of configuration `cfg` and compare
    everything with the dense reference.  Raises ctx.violation on disagreement."""
    import quimb as qu

    name, base = cfg["name"], cfg["base"]
    # every copy() starts an independent BRANCH (simulator + its own reference); later operations name the
    # branch they act on ("on"), all the others must stay equal to their references
    branches = [{"circ": cfg["mk"](N), "ref": Ref(N), "state": {"record_false_key": None, "copied": False}}]
    cur = 0
    RECORD_KEY_DTYPE = "CircuitMPS.local_expectation:dtype_or_convert_eager_false:record_written_for_a_copy"

    def replay(upto, extra=None):
        r = {"config": name, "N": N, "program": prog[: upto + 1], "check_each_gate": check_each_gate}
        if extra:
            r.update(extra)
        return r

    def viol(key, what, i, extra=None):
        ctx.violation(key, what, replay(i, extra))

    def check_records(i, op):
        """the canonical-form record of EVERY branch must be true after every operation"""
        if not cfg["mps"]:
            return
        lazy_ok = op["op"] == "query" and op["q"] in ("local_expectation", "fidelity")  # these flush the pending gates first
        for k, b in enumerate(branches):
            if cfg["lazy"] and not (lazy_ok and k == cur):
                continue
            if b["state"]["record_false_key"] is not None or record_truthful(b["circ"]) is not False:
                continue
            rec = b["circ"].gate_opts["info"].get("cur_orthog")
            if k != cur:
                key = f"{base}:copy:record_of_other_simulator_changed"
                what = (f"an operation on branch {cur} changed gate_opts['info']['cur_orthog'] of the independent copy / original "
                        f"(branch {k}) to {rec}: its record no longer describes its own MPS")
            elif op["op"] == "query" and op["q"].startswith("local_expectation") and (
                    (op.get("opts") or {}).get("dtype") is not None or not b["circ"].convert_eager):
                key = RECORD_KEY_DTYPE
                # fixed by /repo fcc41fff (the copy path now works on a copy of the record): a recurrence is a regression
                what = (f"{name}.local_expectation(G, {op.get('where')}, {op.get('opts') or 'convert_eager=False'}) canonicalised a COPY of "
                        f"the MPS but wrote cur_orthog = {rec} into gate_opts['info']: the record no longer describes circ._psi")
            elif op["op"] in ("gate", "batch"):
                lab = (op if op["op"] == "gate" else op["gates"][-1])["label"]
                key = f"{base}:{lab}:cur_orthog_record_false"
                what = f"after a {lab} gate {name}.gate_opts['info']['cur_orthog'] = {rec} but a site outside that range is not isometric"
            else:
                key = f"{base}:{op.get('q', op['op'])}:cur_orthog_record_false"
                what = f"after {op.get('q', op['op'])} the record cur_orthog = {rec} is false (a site outside that range is not isometric)"
            b["state"]["record_false_key"] = key
            viol(key, what, i)

    for i, op in enumerate(prog):
        kind = op["op"]
        if "on" in op:
            cur = op["on"] % len(branches)
        circ, ref, state = branches[cur]["circ"], branches[cur]["ref"], branches[cur]["state"]
        if kind == "gate" or kind == "batch":
            gates = [op] if kind == "gate" else op["gates"]
            before = None
            must_accept = all(g["kind"] in cfg["accepts"] for g in gates)
            if not must_accept or (cfg["perm"] and any(g["controls"] or g["label"] == "SWAP" for g in gates)):
                before = snapshot(circ, cfg)
            try:
                if kind == "gate":
                    apply_to_circuit(circ, op)
                else:
                    specs = []
                    for g in gates:
                        specs.append((g["label"], *g["params"], *g["qubits"]))
                    circ.apply_gates(specs)
            except Exception as e:
                gk = gates[0]["kind"]
                ctx.bump(f"rejected:{name}:{gk}")
                if must_accept:
                    viol(f"{base}:{gk}:unexpected_rejection", f"{name} rejected a supported {gk} gate: {type(e).__name__}: {e}", i)
                    raise Abort()
                # failure atomicity
                try:
                    after = snapshot(circ, cfg)
                    same = (after["num_gates"] == before["num_gates"] and after["dense"].shape == before["dense"].shape
                            and np.allclose(after["dense"], before["dense"], atol=cfg["tol"]) and after.get("qubits") == before.get("qubits"))
                    detail = ""
                except Exception as e2:
                    same, detail = False, f" (state unusable: {type(e2).__name__}: {e2})"
                if not same:
                    g = gates[0]
                    sub = "SWAP" if (g["label"] == "SWAP" and not g["controls"]) else (
                        f"controlled_{len(g['qubits'])}q" if g["controls"] else gk)
                    viol(f"{base}:{sub}:rejected_not_atomic",
                         f"{name} rejected the gate ({type(e).__name__}: {str(e)[:80]}) but its state changed{detail}", i,
                         {"qubits_before": before.get("qubits"), "qubits_after": getattr(circ, "qubits", None)})
                    raise Abort()
                continue
            for g in gates:
                ref.apply(ref_descr(g))
                ctx.bump(f"gate:{g['kind']}")
            check_records(i, op)
            suspicious = cfg["perm"] and any(g["controls"] or g["label"] == "SWAP" for g in gates)
            if (check_each_gate and not cfg["lazy"]) or suspicious:
                got = np.asarray(circ.to_dense()).ravel() if not cfg["exact"] else np.asarray(circ.to_dense(simplify_sequence="R")).ravel()
                if got.shape != ref.psi.shape or not np.allclose(got, ref.psi, atol=cfg["tol"]):
                    g = gates[-1]
                    if cfg["perm"] and g["controls"] and len(g["qubits"]) == 2:
                        key = f"{base}:controlled_2q:cutoff_0:accepted_wrong_state"
                    elif cfg["perm"] and g["label"] == "SWAP" and not g["controls"]:
                        key = f"{base}:SWAP:cutoff_0:accepted_wrong_state"
                    elif cfg["perm"] and g["controls"]:
                        key = f"{base}:controlled:controls_not_mapped_to_physical_sites"
                    else:
                        key = f"{base}:gate:{g['kind']}:wrong_state"
                    viol(key, f"{name}: state after gate {g['label']} on {g['qubits']} (controls {g['controls']}) differs from U|psi> "
                              f"(max err {float(np.abs(got - ref.psi).max()) if got.shape == ref.psi.shape else 'shape'})", i)
                    raise Abort()
        elif kind == "set_params":
            prng = np.random.default_rng(op["seed"])
            idx = [k for k, g in enumerate(ref.gates) if g.get("parametrized")]
            # which gates are parametrized is read from the circuit itself
            idx = [k for k, g in enumerate(circ.gates) if g.parametrize]
            if not idx:
                continue
            chosen = [k for k in idx if prng.random() < 0.6] or idx[:1]
            new = {k: np.round(prng.uniform(-3, 3, size=len(np.asarray(circ.gates[k].params))) * 8) / 8 for k in chosen}
            via = op["via"]
            if via == "update_params_from" and has_tensorless_gate(circ) and not op.get("force"):
                via = "set_params"
            try:
                if via == "set_params":
                    circ.set_params(new)
                else:
                    tn = circ.psi
                    for k, v in new.items():
                        tn[circ.gate_tag(k)].params = v
                    circ.update_params_from(tn)
            except Exception as e:
                if op["via"] == "update_params_from" and isinstance(e, (KeyError, ValueError)) and has_tensorless_gate(circ):
                    viol("CircuitBase.update_params_from:raw_or_tensorless_gate:raises_after_partial_update",
                         f"update_params_from raised {type(e).__name__}({str(e)[:60]}) on a circuit containing SWAP / IDEN gates (no tensor "
                         "tagged GATE_i) or raw gates (tag None), after updating the earlier gates and without clearing the storage", i)
                else:
                    viol(f"{base}:{op['via']}:raised", f"{type(e).__name__}: {e}", i)
                raise Abort()
            # logical index of circ gate k == index in ref.gates (every accepted gate is recorded once, IDEN via method excepted)
            for k, v in new.items():
                ref.gates[k]["params"] = [float(x) for x in v]
            ref.recompute()
            ctx.bump("set_params")
        elif kind == "copy":
            try:
                c2 = circ.copy()
            except Exception as e:
                viol(f"{base}:copy:raised", f"{type(e).__name__}: {e}", i)
                raise Abort()
            shared = shared_mutables(circ, c2)
            if shared:
                viol(f"CircuitBase.copy:shares_mutable_state:{shared[0]}",
                     f"{name}.copy() shares mutable state with the original: {shared} (an operation on one simulator is seen by the other)", i)
            branches.append({"circ": c2, "ref": ref.copy(), "state": {"record_false_key": state["record_false_key"], "copied": True}})
            state["copied"] = True
            if op.get("switch", True):
                cur = len(branches) - 1
            ctx.bump("copy")
        elif kind == "query":
            try:
                run_query(ctx, cfg, circ, ref, op, N, lambda key, what, extra=None: viol(key, what, i, extra), state)
                check_records(i, op)
            except Abort:
                raise
            except Exception as e:
                msg = f"{type(e).__name__}: {e}"
                if "_marginal_storage_size" in msg and state["copied"]:
                    key = "CircuitBase.copy:sample:_marginal_storage_size_missing"
                elif op["q"] == "compute_marginal" and isinstance(e, ZeroDivisionError) and cfg["exact"] and float(np.abs(
                        ref.marginal(op["where"], None if op["fix"] is None else {int(k): v for k, v in op["fix"].items()})).max()) < 1e-12:
                    key = "Circuit.compute_marginal:zero_probability_condition:nan_or_ZeroDivisionError"
                elif op["q"] == "uni" and has_lazy_swap(circ) and (idle_wire(circ) or site_tag_lost(circ)):
                    key = "Circuit.get_uni:site_tag_lost_after_SWAP"
                elif op["q"] == "uni" and idle_wire(circ):
                    key = "Circuit.get_uni:idle_wire"
                elif op["q"] == "amplitude" and isinstance(e, ZeroDivisionError) and cfg["exact"] and abs(ref.psi[int(op["b"], 2)]) < 1e-12:
                    key = "Circuit.amplitude:zero_amplitude:nan_or_ZeroDivisionError"
                elif isinstance(e, ZeroDivisionError) and cfg["exact"] and _zero_expectation(op, ref):
                    key = ZERO_LE_KEY
                else:
                    key = f"{base}:{op['q']}:raised"
                viol(key, f"{name}.{op['q']} raised {msg[:200]}", i)
    if len(branches) > 1 and cfg["mps"]:
        OWNERSHIP_SEEN.append((name, N, [id(b["circ"].gate_opts.get("info")) for b in branches]))
    return branches[cur]["circ"], branches[cur]["ref"]


OWNERSHIP_SEEN = []  # per program with copies: ids of the info dicts of all branches (evaluated against the Coq ownership model)


def _containers(obj, path, out, depth=0):
    """ids of the mutable containers reachable from obj through dict / list / tuple nesting"""
    if isinstance(obj, (dict, list, set)):
        out[id(obj)] = path
        if depth < 3:
            items = obj.items() if isinstance(obj, dict) else enumerate(obj) if isinstance(obj, list) else ()
            for k, v in items:
                _containers(v, f"{path}.{k}", out, depth + 1)
    elif isinstance(obj, tuple) and depth < 3:
        for k, v in enumerate(obj):
            _containers(v, f"{path}.{k}", out, depth + 1)


# caches of converted gate arrays keyed by id(): sharing them between copies is intended and harmless
SHARED_OK = ("_backend_gate_cache",)


def shared_mutables(c1, c2):
    """attribute paths of mutable state that a circuit and its copy both reference"""
    a, b = {}, {}
    for nm, v in vars(c1).items():
        if nm not in SHARED_OK and nm not in ("_psi", "_storage", "_sampled_conditionals"):
            _containers(v, nm, a)
    for nm, v in vars(c2).items():
        if nm not in SHARED_OK and nm not in ("_psi", "_storage", "_sampled_conditionals"):
            _containers(v, nm, b)
    out = sorted({a[i] for i in a if i in b})
    for nm in ("_storage", "_sampled_conditionals"):  # the cached values may be shared (they are only handed out as copies)
        if hasattr(c1, nm) and getattr(c1, nm) is getattr(c2, nm, None):
            out.append(nm)
    if c1._psi is c2._psi or {id(t) for t in c1._psi.tensors} & {id(t) for t in c2._psi.tensors}:
        out.append("_psi")
    return out


def _zero_expectation(op, ref):
    """is the query a local expectation (or its rehearsal with Z on qubit 0) whose exact value is 0 ?"""
    import quimb as qu

    try:
        if op["q"] == "rehearse" and op.get("which") == "local_expectation":
            return abs(ref.expectation(np.diag([1.0, -1.0]), [0])) < 1e-12
        if op["q"] in ("local_expectation", "local_expectation_multi"):
            k = len(op["where"])
            G = np.diag([1.0, -1.0]) if op.get("G") == "Z" else np.asarray(qu.rand_herm(2**k, seed=op["G_seed"]))
            vals = [ref.expectation(G, op["where"])]
            if op["q"] == "local_expectation_multi":
                vals.append(ref.expectation(G @ G + 0.5j * G, op["where"]))
            return any(abs(v) < 1e-12 for v in vals)
    except Exception:
        return False
    return False


def idle_wire(circ):
    """does an initial-state tensor sit directly on an output site index (qubit without a gate tensor,
    possibly moved by a lazily reindexing SWAP)?"""
    try:
        sites = {circ.ket_site_ind(i) for i in range(circ.N)}
        tids = list(circ._psi.tensor_map)[: circ.N]
        return any(not sites.isdisjoint(circ._psi.tensor_map[t].inds) for t in tids)
    except Exception:
        return False


def has_tensorless_gate(circ):
    """gates update_params_from cannot look up: SWAP / IDEN add no tensor tagged GATE_i, raw gates have tag None"""
    return any((g.label in ("SWAP", "IDEN") and not g.controls) or g.tag is None for g in circ.gates)


def _close(a, b, tol):
    a, b = np.asarray(a), np.asarray(b)
    return a.shape == b.shape and bool(np.allclose(a, b, atol=tol))


def has_lazy_swap(circ):
    return any(g.label == "SWAP" and not g.controls for g in circ.gates)


def site_tag_lost(circ):
    """after lazily re-indexing SWAPs a site tag I{q} may survive only on the initial-state tensor"""
    try:
        tids = set(list(circ._psi.tensor_map)[: circ.N])
        tags = set()
        for tid, t in circ._psi.tensor_map.items():
            if tid not in tids:
                tags |= set(t.tags)
        return any(circ._psi.site_tag(q) not in tags for q in range(circ.N))
    except Exception:
        return False


ZERO_LE_KEY = "Circuit.local_expectation:zero_value:nan_or_ZeroDivisionError"


def run_query(ctx, cfg, circ, ref, q, N, viol, state):
    import quimb as qu

    name, base, kind = cfg["name"], cfg["base"], q["q"]
    TOL = cfg["tol"]  # noqa: N806 - the configuration's tolerance replaces the module default below

    def close(a, b, tol=TOL):
        return _close(a, b, tol)

    ctx.bump(f"query:{kind}")
    sopts = {}
    if cfg["exact"] and "seq" in q:
        sopts = {"simplify_sequence": q["seq"], "simplify_atol": q["atol"]}
    qopts = dict(q.get("opts") or {})
    sopts = {**sopts, **qopts}

    def bad(what, extra=None, sub=""):
        key = f"{base}:{kind}{sub}"
        if kind in ("local_expectation", "local_expectation_multi", "fidelity") and state.get("record_false_key"):
            key = state["record_false_key"]  # consequence of the record already reported false
        viol(key, f"{name}.{kind}: {what}", extra)

    if kind == "to_dense":
        got = np.asarray(circ.to_dense(reverse=q.get("reverse", False), **sopts)).ravel()
        want = ref.psi
        if q.get("reverse"):
            want = ref.psi.reshape([2] * N).transpose(list(range(N))[::-1]).reshape(-1)
        if not close(got, want):
            bad("differs from U_n...U_1|0>")
    elif kind == "amplitude":
        got = complex(np.asarray(circ.amplitude(q["b"], **sopts)))
        want = ref.psi[int(q["b"], 2)]
        if got != got and cfg["exact"] and abs(want) < 1e-12:
            viol("Circuit.amplitude:zero_amplitude:nan_or_ZeroDivisionError",
                 f"{name}.amplitude('{q['b']}', {sopts}) = NaN for a bitstring of amplitude 0")
        elif not abs(got - want) <= TOL:
            bad(f"<{q['b']}|psi> = {got} but the reference amplitude is {want}")
    elif kind == "uni":
        if base != "Circuit" or "True" in name:
            return
        U = np.asarray(circ.get_uni(transposed=True).to_dense()) if q.get("transposed") else np.asarray(circ.uni.to_dense())
        want = ref.U.T if q.get("transposed") else ref.U
        if not close(U, want):
            if has_lazy_swap(circ) and (idle_wire(circ) or site_tag_lost(circ)):
                viol("Circuit.get_uni:site_tag_lost_after_SWAP", f"{name}.uni.to_dense() has shape {U.shape}: after a lazily re-indexing SWAP "
                     "the site tag of one qubit is no longer on a tensor of its wire, so the operator view drops / mislabels that site")
            elif idle_wire(circ):
                viol("Circuit.get_uni:idle_wire", f"{name}.uni has shape {U.shape} / differs from the product of the gate matrices: an "
                     "initial-state tensor sits directly on an output index (qubit without gate tensor), its identity wire is dropped")
            else:
                bad("unitary differs from the product of the gate matrices")
    elif kind == "psi":
        got = np.asarray(circ.psi.to_dense()).ravel() if not cfg["perm"] else np.asarray(
            circ.psi.contract(all, output_inds=[f"k{i}" for i in range(N)]).data).ravel()
        if not close(got, ref.psi):
            bad("circ.psi does not denote the reference state")
    elif kind == "partial_trace":
        got = np.asarray(circ.partial_trace(tuple(q["keep"]), **sopts))
        if not close(got, ref.rdm(q["keep"])):
            bad(f"reduced density matrix on {q['keep']} differs from the reference")
    elif kind in ("local_expectation", "local_expectation_multi"):
        k = len(q["where"])
        G = np.diag([1.0, -1.0]) if q.get("G") == "Z" else np.asarray(qu.rand_herm(2**k, seed=q["G_seed"]))
        where = tuple(q["where"]) if k > 1 else (q["where"][0] if q["G_seed"] % 2 else tuple(q["where"]))
        if kind == "local_expectation_multi":
            G2 = G @ G + 0.5j * G
            got = circ.local_expectation([G, G2], where, **sopts)
            want = (ref.expectation(G, q["where"]), ref.expectation(G2, q["where"]))
            if not close(np.array([complex(x) for x in got]), np.array(want)):
                bad(f"stacked expectations {got} differ from the reference {want}")
        else:
            if cfg["mps"]:
                got = complex(np.asarray(circ.local_expectation(G, where, **qopts)))
            else:
                got = complex(np.asarray(circ.local_expectation(G, where, **sopts)))
            want = ref.expectation(G, q["where"])
            if got != got and cfg["exact"] and abs(want) < 1e-12:
                viol(ZERO_LE_KEY, f"{name}.local_expectation(G, {q['where']}, {sopts}) = NaN for an expectation value that is exactly 0")
            elif not abs(got - want) <= TOL:
                bad(f"<G_{q['where']}> = {got} but the reference is {want}")
    elif kind == "compute_marginal":
        fix = None if q["fix"] is None else {int(k): v for k, v in q["fix"].items()}
        kw = dict(sopts)
        tol = TOL
        if q.get("dtype"):
            kw["dtype"] = q["dtype"]
        elif cfg["exact"]:
            tol = 1e-4  # default dtype of the exact simulator's marginals is complex64
        if cfg["exact"] and "simplify_atol" in kw and q.get("dtype") is None:
            kw["simplify_atol"] = 1e-6
        got = np.asarray(circ.compute_marginal(tuple(q["where"]), fix=fix, **kw))
        want = ref.marginal(q["where"], fix)
        if cfg["exact"] and np.isnan(got).any() and float(np.abs(want).max()) < 1e-12:
            viol("Circuit.compute_marginal:zero_probability_condition:nan_or_ZeroDivisionError",
                 f"{name}.compute_marginal({q['where']}, fix={fix}) = NaN for a zero-probability condition (the reference marginal is 0)")
        elif not close(got, want, tol):
            bad(f"marginal of {q['where']} given {fix} = {got.tolist()} but the reference is {np.asarray(want).tolist()}")
    elif kind == "sample":
        kw = {}
        if cfg["exact"]:
            kw = {"group_size": q["group_size"], "simplify_sequence": q.get("seq", "ADCRS")}
            if q.get("qubits") is not None:
                kw["qubits"] = tuple(q["qubits"])
            if q.get("order") is not None:
                kw["order"] = tuple(q["order"])
        kw.update(qopts)
        s1 = list(circ.sample(q["C"], seed=q["seed"], **kw))
        s2 = list(circ.sample(q["C"], seed=q["seed"], **kw))
        if s1 != s2:
            bad(f"same seed gave {s1} then {s2}", sub=":not_reproducible")
        measured = list(q["qubits"]) if q.get("qubits") is not None else list(range(N))
        pm = np.asarray(ref.marginal(measured, None), dtype=float)  # exact distribution of the measured qubits (axes as `measured`)
        for b in s1:
            pb = float(pm[tuple(int(x) for x in b)]) if len(b) == len(measured) else -1.0
            if not pb > 1e-9:
                bad(f"sampled bitstring {b} of qubits {measured} has probability {pb if pb >= 0 else 'n/a'} in the reference state",
                    sub=":zero_probability_string")
                break
        else:
            if q["C"] >= 24:
                emp = np.zeros_like(pm)
                for b in s1:
                    emp[tuple(int(x) for x in b)] += 1.0 / len(s1)
                tv = 0.5 * float(np.abs(emp - pm).sum())
                # total variation of an empirical distribution of C samples over k outcomes is ~ sqrt(k / C) / 2
                if tv > 0.5 * math.sqrt(pm.size / len(s1)) + 0.3:
                    bad(f"{len(s1)} samples of qubits {measured} are at total-variation distance {tv:.2f} from the exact distribution",
                        sub=":wrong_distribution")
    elif kind == "mps_sample_prob":
        # the MPS sampler reports the probability of each configuration
        psi = circ.get_psi_unordered() if cfg["perm"] else circ.psi
        qubits = list(circ.qubits) if cfg["perm"] else list(range(N))
        for config, omega in psi.sample(q["C"], seed=q["seed"]):
            bits = ["0"] * N
            for site, b in enumerate(config):
                bits[qubits[site]] = str(int(b))
            p = ref.prob("".join(bits))
            if not abs(p - float(omega)) <= TOL:
                bad(f"configuration {''.join(bits)} sampled with reported probability {float(omega)} but its probability is {p}")
                break
    elif kind == "fidelity":
        f = float(np.real(circ.fidelity_estimate()))
        if not abs(f - 1.0) <= max(1e-8, 10 * TOL):
            bad(f"fidelity_estimate() = {f} for an untruncated circuit")
    elif kind == "simulate_counts":
        counts = circ.simulate_counts(q["C"], seed=q["seed"])
        if sum(counts.values()) != q["C"] or any(ref.prob(b) < 1e-12 for b in counts):
            bad(f"counts {dict(counts)} contain impossible outcomes or do not add up")
    elif kind == "ordering":
        o = circ.calc_qubit_ordering(q["qubits"])
        want = sorted(q["qubits"]) if q["qubits"] is not None else list(range(N))
        if sorted(o) != want:
            bad(f"ordering {o} is not a permutation of {want}")
    elif kind == "rehearse":
        # fills the caches without contracting; the following queries must not be affected
        w = q["which"]
        if w == "amplitude":
            circ.amplitude_rehearse(simplify_sequence=q.get("seq", "ADCRS"))
        elif w == "to_dense":
            tn = circ.to_dense_tn(simplify_sequence=q.get("seq", "R"))
            got = np.asarray(tn.contract(all, output_inds=[f"k{i}" for i in range(N)]).data).ravel()
            if not close(got, ref.psi):
                bad("to_dense_tn does not denote the reference state")
        elif w == "partial_trace":
            circ.partial_trace_rehearse((0,), simplify_sequence=q.get("seq", "ADCRS"))
        elif w == "local_expectation":
            circ.local_expectation_rehearse(np.diag([1.0, -1.0]), 0, simplify_sequence=q.get("seq", "ADCRS"))
        else:
            circ.sample_rehearse(group_size=2, simplify_sequence=q.get("seq", "ADCRS"))


def oracle_stage(ctx):
    C = configs()
    rng = ctx.rng
    nprog = ctx.n(5, 100)
    ran = 0
    for name, cfg in C.items():
        for k in range(nprog):
            N = rng.choice([2, 3, 3, 4, 4, 5] if ctx.quick else [2, 3, 4, 4, 5, 5, 6])
            if cfg["base"] == "CircuitDense" or name in ("Circuit[contract=True]",):
                N = min(N, 5)
            prog = gen_program(rng, cfg, N, rng.randint(8, 16))
            check_each = (k % 2 == 0)
            nontriv = sum(1 for o in prog if o["op"] == "query") >= 2 and sum(1 for o in prog if o["op"] == "gate") >= 3
            ctx.count(("oracle", name, N, json.dumps(prog, sort_keys=True, default=str)), nontriv)
            ctx.bump(f"program:{name}")
            try:
                run_program(ctx, cfg, N, prog, check_each)
            except Abort:
                pass
            except Exception as e:
                ctx.violation(f"{cfg['base']}:program:raised", f"{name}: {type(e).__name__}: {e}",
                              {"config": name, "N": N, "program": prog, "check_each_gate": check_each})
            ran += 1
            if ran == 3:
                ctx.sample({"stream": "oracle", "config": name, "N": N, "program_head": prog[:4]})
    ctx.extra["oracle_programs"] = ran


# =============================================================================
# targeted scenarios (known defect classes and their neighbours)
# =============================================================================


def targeted_stage(ctx):
    import quimb.tensor as qtn

    C = configs()
    rng = ctx.rng

    def run(cfgname, N, prog, check_each=True):
        ctx.count(("targeted", cfgname, N, json.dumps(prog, sort_keys=True, default=str)), True)
        try:
            run_program(ctx, C[cfgname], N, prog, check_each)
        except Abort:
            pass
        except Exception as e:
            ctx.violation(f"{C[cfgname]['base']}:program:raised", f"{cfgname}: {type(e).__name__}: {e}",
                          {"config": cfgname, "N": N, "program": prog})

    def g(label, *args, controls=(), kind=None, how="string"):
        npar = nparams(label)
        params, qubits = list(args[:npar]), list(args[npar:])
        k = kind or ("SWAP" if label == "SWAP" else f"{len(qubits)}q")
        if controls:
            k = "ctrl" if len(controls) == 1 else "ctrl2"
        return {"op": "gate", "kind": k, "label": label, "params": params, "qubits": qubits, "controls": list(controls),
                "parametrize": False, "raw_seed": None, "round": None, "how": how}

    def qle(where, seed=3):
        return {"op": "query", "q": "local_expectation", "where": list(where), "G_seed": seed}

    # SWAP followed by canonical-form queries on the MPS simulators (every pair of sites, every later site)
    for cfgname in ("CircuitMPS", "CircuitMPS[swap+split]", "CircuitMPS[nonlocal]", "CircuitMPSLazy"):
        for (a, b) in ([(1, 2), (0, 2), (3, 1)] if ctx.quick else [(1, 2), (0, 1), (0, 2), (2, 3), (3, 1)]):
            for w in range(4):
                prog = [g("H", 0), g("CNOT", 0, 1), g("RY", 0.375, 2), g("CNOT", 1, 2), g("RX", 0.875, 3), g("CNOT", 2, 3), g("SWAP", a, b),
                        qle([w]), {"op": "query", "q": "fidelity"}, {"op": "query", "q": "to_dense"}]
                run(cfgname, 4, prog, check_each=False)
    # the permutation-tracking simulator: SWAP, controlled gates, three-qubit gates after a non-trivial permutation
    for cfgname in ("CircuitPermMPS", "CircuitPermMPS[auto-mps]", "CircuitPermMPS[auto-mps,cutoff=0]"):
        pre = [g("H", 0), g("H", 1), g("RY", 0.375, 2), g("H", 3), g("CNOT", 0, 3), g("FSIM", 0.25, 0.5, 3, 1)]
        tails = [
            [g("SWAP", 0, 2)], [g("SWAP", 3, 0)], [g("SWAP", 1, 2)],
            [g("RX", 0.625, 0, controls=[3])], [g("RX", 0.625, 1, controls=[2])], [g("X", 2, controls=[0])],
            [g("FSIM", 0.25, 0.125, 3, 1, controls=[0])], [g("SWAP", 0, 2, controls=[1])], [g("X", 1, controls=[3, 0])],
            [g("CCX", 3, 0, 2)], [g("CSWAP", 1, 3, 0)],
        ]
        for t in tails:
            prog = pre + t + [{"op": "query", "q": "to_dense"}, qle([2]), qle([0, 3]), {"op": "query", "q": "amplitude", "b": "1011"},
                              {"op": "query", "q": "sample", "C": 3, "seed": 5, "group_size": 1},
                              {"op": "query", "q": "mps_sample_prob", "C": 3, "seed": 7}]
            run(cfgname, 4, prog, check_each=False)
    # parametrised two-qubit gates on far-apart qubits of the MPS simulators: must be rejected without moving sites
    for cfgname in ("CircuitMPS", "CircuitMPS[swap+split]", "CircuitMPS[nonlocal]", "CircuitPermMPS", "CircuitMPSLazy"):
        prog = [g("H", 0), g("CNOT", 0, 1), g("RY", 0.375, 2),
                {**g("CRZ", -0.5, 0, 2), "parametrize": True, "kind": "param2", "how": "string", "expect": "may_reject"},
                {"op": "query", "q": "to_dense"}, g("CNOT", 1, 3), {"op": "query", "q": "amplitude", "b": "1101"}]
        run(cfgname, 4, prog, check_each=False)
    # copy independence (the seeded defect class: state shared between a simulator and its copy): make the record definite,
    # copy, work on the copy only (canonicalising queries, one more two-qubit gate), then query the ORIGINAL everywhere
    brick = [g("H", 0), g("H", 1), g("H", 2), g("H", 3), g("CX", 0, 1), g("CX", 2, 3), g("RY", 0.875, 0), g("RZ", 1.375, 1),
             g("RY", 2.125, 2), g("RZ", 0.625, 3), g("CX", 1, 2), g("RY", 1.625, 1), g("RZ", 2.375, 2)]
    for cfgname in C:
        prog = list(brick) + [qle([3]), {"op": "copy", "switch": True},
                              {**qle([0], seed=5), "on": 1}, {**g("CX", 0, 1), "on": 1}, {**qle([1], seed=6), "on": 1}]
        prog += [{**qle([w], seed=7 + w), "on": 0} for w in range(4)]
        prog += [{"op": "query", "q": "to_dense", "on": 0, **({"seq": "R", "atol": 1e-12} if C[cfgname]["exact"] else {})},
                 {**qle([2, 3], seed=11), "on": 1}, {"op": "query", "q": "amplitude", "b": "0110", "on": 0,
                                                    **({"seq": "ADCRS", "atol": 1e-12} if C[cfgname]["exact"] else {})}]
        run(cfgname, 4, prog, check_each=False)
    # queries through every optional code path, each followed by the plain query everywhere ("never depends on what was queried")
    for cfgname in C:
        pool = OPT_POOL_EXACT if C[cfgname]["exact"] else OPT_POOL_MPS
        sqx = {"seq": "ADCRS", "atol": 1e-12} if C[cfgname]["exact"] else {}
        for kind, optlist in pool.items():
            if kind in ("sample", "local_expectation_multi") and ctx.quick:
                continue
            for opts in optlist:
                base_q = {"to_dense": {"q": "to_dense", "reverse": False}, "amplitude": {"q": "amplitude", "b": "1001"},
                          "partial_trace": {"q": "partial_trace", "keep": [0, 2]}, "local_expectation": {"q": "local_expectation", "where": [0], "G_seed": 3},
                          "local_expectation_multi": {"q": "local_expectation_multi", "where": [1], "G_seed": 4},
                          "compute_marginal": {"q": "compute_marginal", "where": [1], "fix": None, "dtype": "complex128"},
                          "sample": {"q": "sample", "C": 2, "seed": 3, "group_size": 2}}[kind]
                prog = list(brick) + [{"op": "query", **base_q, **sqx, "opts": opts}]
                prog += [{**qle([w], seed=20 + w), **sqx} for w in range(4)]
                prog += [{"op": "query", **base_q, **sqx}, {"op": "query", "q": "to_dense", "reverse": False, **({"seq": "R", "atol": 1e-12} if sqx else {})}]
                run(cfgname, 4, prog, check_each=False)
    # copy, then queries that need the conditional cache
    for pre_q in ("sample", "to_dense", None):
        prog = [g("H", 0), g("CNOT", 0, 1), g("H", 2)]
        if pre_q == "sample":
            prog.append({"op": "query", "q": "sample", "C": 2, "seed": 1, "group_size": 10, "seq": "ADCRS", "atol": 1e-12})
        elif pre_q == "to_dense":
            prog.append({"op": "query", "q": "to_dense", "seq": "R", "atol": 1e-12})
        prog += [{"op": "copy"}, {"op": "query", "q": "sample", "C": 2, "seed": 1, "group_size": 1, "seq": "ADCRS", "atol": 1e-12},
                 g("X", 1), {"op": "query", "q": "sample", "C": 2, "seed": 1, "group_size": 1, "seq": "ADCRS", "atol": 1e-12}]
        run("Circuit", 3, prog, check_each=False)
    # unitary of circuits with an idle qubit / a SWAP of an idle wire; zero-probability conditions; update through a
    # network when the circuit contains tensorless (SWAP / IDEN) gates
    sq = {"seq": "ADCRS", "atol": 1e-12}
    for prog in (
        [g("H", 0), {"op": "query", "q": "uni", "transposed": False, **sq}],
        [g("X", 0), g("SWAP", 0, 1), {"op": "query", "q": "uni", "transposed": False, **sq}],
        [g("X", 0), g("H", 1), g("SWAP", 0, 1), g("CNOT", 1, 2), g("T", 2), {"op": "query", "q": "uni", "transposed": False, **sq},
         {"op": "query", "q": "uni", "transposed": True, **sq}],
        [g("CX", 1, 2), g("RZ", 0.375, 0), {"op": "query", "q": "compute_marginal", "where": [2, 1], "fix": {"0": "1"}, "dtype": "complex128", **sq},
         {"op": "query", "q": "amplitude", "b": "100", **sq}],
        [g("H", 0), g("CX", 0, 1), g("T", 2),
         {"op": "query", "q": "compute_marginal", "where": [2], "fix": {"0": "1", "1": "0"}, "dtype": "complex128", "seq": "R", "atol": 1e-12},
         {"op": "query", "q": "amplitude", "b": "100", "seq": "R", "atol": 1e-12},
         {"op": "query", "q": "amplitude", "b": "110", "seq": "R", "atol": 1e-12}],
        [{**g("RX", 0.375, 0), "parametrize": True, "kind": "param"}, {"op": "query", "q": "to_dense", **sq}, g("SWAP", 0, 1),
         {"op": "set_params", "seed": 5, "via": "update_params_from", "force": True}, {"op": "query", "q": "to_dense", **sq}],
        [{**g("RX", 0.375, 0), "parametrize": True, "kind": "param"}, {"op": "query", "q": "to_dense", **sq},
         {"op": "gate", "kind": "raw1", "label": "RAW", "params": [], "qubits": [1], "controls": [], "parametrize": False, "raw_seed": 11,
          "round": None, "how": "raw"},
         {"op": "set_params", "seed": 5, "via": "update_params_from", "force": True}, {"op": "query", "q": "to_dense", **sq}],
        [{**g("RX", 0.375, 0), "parametrize": True, "kind": "param"}, {"op": "query", "q": "to_dense", **sq}, g("SWAP", 0, 1),
         {"op": "set_params", "seed": 5, "via": "set_params"}, {"op": "query", "q": "to_dense", **sq}],
    ):
        run("Circuit", 3, prog, check_each=False)
    run("Circuit", 2, [g("H", 0), g("CX", 0, 1), {"op": "query", "q": "local_expectation", "where": [0], "G": "Z", "G_seed": 1, "seq": "R", "atol": 1e-12},
                       {"op": "query", "q": "local_expectation", "where": [0], "G": "Z", "G_seed": 1, "seq": "ADCRS", "atol": 1e-12}], check_each=False)
    run("Circuit[contract=False]", 3, [g("H", 2), g("SWAP", 2, 1), g("T", 2), g("H", 0), {"op": "query", "q": "uni", "transposed": False, **sq},
                                       {"op": "query", "q": "to_dense", "seq": "R", "atol": 1e-12}], check_each=False)
    run("Circuit[split-gate]", 4, [g("U1", 2.5, 2), g("SWAP", 3, 1), {"op": "batch", "gates": [g("GIVENS", -3.0, 0, 2), g("CY", 2, 3), g("IS", 0, 1)]},
                                   {"op": "query", "q": "amplitude", "b": "0011", "seq": "R", "atol": 1e-14},
                                   {"op": "query", "q": "amplitude", "b": "0000", "seq": "R", "atol": 1e-14}], check_each=False)
    # parameter update that fails half way must not leave stale caches
    try:
        c = _param_circuit()
        before = _all_queries(c)
        try:
            c.set_params({0: np.array([1.1]), 2: np.array([0.3])})  # gate 2 (CNOT) is not parametrised
            rejected = False
        except Exception:
            rejected = True
        ctx.count(("targeted", "set_params_partial"), True)
        if rejected:
            twin = qtn.Circuit(3)
            for gt in c.gates:
                twin.apply_gate(gt)
            a, b = _all_queries(c), _all_queries(twin)
            bad = _diff_answers(a, b)
            changed = not np.allclose(np.asarray(c.gates[0].params), [0.3])
            if bad:
                ctx.violation("CircuitBase.set_params:invalid_gate_index:partial_update_stale_cache",
                              f"set_params({{0: .., 2: ..}}) raised (gate 2 has no parameters) after updating gate 0 "
                              f"(changed={changed}) and without clearing the storage: cached queries {bad} no longer describe circ.gates",
                              {"scenario": "c=_param_circuit(); all queries; c.set_params({0:[1.1], 2:[0.3]}) -> raises; all queries vs Circuit.from_gates(c.gates)",
                               "differing": bad})
    except Exception as e:
        ctx.broken_obligation("targeted:set_params_partial", repr(e))


# =============================================================================
# (2) tracker correspondence
# =============================================================================


def nll(xs):
    return "[" + "; ".join(natlist(x) for x in xs) + "]"


def perm_stage(ctx):
    """tracker correspondence: uncontrolled gates on 1-3 qubits, uncontrolled SWAPs (relabelling) and controlled gates
    (auto-mps only: swap+split rejects them before anything happens); observed: circ.qubits after every gate, the
    target / control sites CircuitPermMPS hands on (gate recorded by the simulator), the route of two-qubit gates"""
    import quimb.tensor as qtn
    from quimb.tensor.tn1d.core import MatrixProductState

    rng = ctx.rng
    seen_where = []
    real = MatrixProductState.gate_with_auto_swap

    def spy(self, G, where, *a, **kw):
        seen_where.append((tuple(int(x) for x in where), kw.get("swap_back", True)))
        return real(self, G, where, *a, **kw)

    def glit(swap, ctrl, qs):
        return f"{{| pg_swap := {blit(swap)}; pg_ctrl := {natlist(ctrl)}; pg_qubits := {natlist(qs)} |}}"

    cases, info = [], {}
    MatrixProductState.gate_with_auto_swap = spy
    try:
        for cid in range(1, ctx.n(60, 2500) + 1):
            N = rng.randint(2, 6)
            contract = rng.choice(["swap+split", "swap+split", "auto-mps", "auto-mps"])
            circ = qtn.CircuitPermMPS(N, gate_contract=contract, **({"cutoff": 0.0} if rng.random() < 0.3 else {}))
            gates, glits, trace = [], [], []
            nonadj = False
            for _ in range(rng.randint(1, 10)):
                r = rng.random()
                ctrl, swap = [], False
                if r < 0.25:
                    qs = [rng.randrange(N)]
                    label = rng.choice(["H", "T", "X"])
                elif r < 0.60:
                    qs = rng.sample(range(N), 2)
                    label = rng.choice(["CNOT", "CZ", "ISWAP"])
                elif r < 0.78:
                    qs = rng.sample(range(N), 2)
                    label, swap = "SWAP", True
                elif r < 0.86 and N >= 3 and contract == "auto-mps":
                    qs = rng.sample(range(N), 3)
                    label = "CCZ"
                elif contract == "auto-mps" and N >= 3:
                    nc = rng.randint(1, min(2, N - 2))
                    nt = rng.randint(1, 2)
                    allq = rng.sample(range(N), nc + nt)
                    ctrl, qs = allq[:nc], allq[nc:]
                    label = rng.choice(["X", "Z"]) if nt == 1 else rng.choice(["CZ", "SWAP", "ISWAP"])
                    swap = label == "SWAP"
                else:
                    qs = [rng.randrange(N)]
                    label = "Y"
                seen_where.clear()
                pos = [circ.qubits.index(q) for q in qs]
                try:
                    circ.apply_gate(label, *qs, **({"controls": ctrl} if ctrl else {}))
                except Exception as e:
                    ctx.violation("CircuitPermMPS:gate:unexpected_rejection", f"{label} {qs} controls {ctrl}: {type(e).__name__}: {e}",
                                  {"N": N, "contract": contract, "gates": gates + [[label, qs, ctrl]]})
                    break
                if len(qs) == 2 and not ctrl and abs(pos[0] - pos[1]) > 1:
                    nonadj = True
                rec = circ.gates[-1]  # the gate as CircuitPermMPS recorded / handed it on: physical targets and controls
                gates.append([label, qs, ctrl])
                glits.append(glit(swap, ctrl, qs))
                trace.append((list(circ.qubits), [int(x) for x in rec.qubits], [int(x) for x in (rec.controls or ())]))
                tracked = len(qs) == 2 and not ctrl and not swap
                if tracked and (len(seen_where) != 1 or seen_where[0][1] is not False or list(seen_where[0][0]) != [int(x) for x in rec.qubits]):
                    ctx.violation("CircuitPermMPS:two_qubit_gate:swap_back_not_disabled",
                                  "an uncontrolled two-qubit gate was not applied through gate_with_auto_swap(swap_back=False) on its physical sites",
                                  {"N": N, "gates": gates, "seen": seen_where})
                if not tracked and any(sb is False for _, sb in seen_where):
                    ctx.violation("CircuitPermMPS:untracked_gate:swap_back_forwarded",
                                  "swap_back=False was forwarded for a gate the tracker does not follow", {"N": N, "gates": gates})
            ctx.count(("perm", N, contract, json.dumps(gates)), nonadj or any(g[0] == "SWAP" or g[2] for g in gates))
            ctx.bump("perm_program")
            info[cid] = {"N": N, "contract": contract, "gates": gates, "impl_trace(qubits, target sites, control sites)": trace}
            tl = "[" + "; ".join(f"({natlist(t[0])}, {natlist(t[1])}, {natlist(t[2])})" for t in trace) + "]"
            cases.append((cid, f"perm_check_g {natlit(N)} [{'; '.join(glits)}] {tl}"))
            if cid == 1:
                ctx.sample({"stream": "tracker", **info[cid]})
    finally:
        MatrixProductState.gate_with_auto_swap = real
    PENDING.append(("tracker", cases, info, _perm_searcher))


def _perm_searcher(ctx, failed, info):
    for c in failed[:5]:
        ctx.broken_obligation("correspondence:tracker_model_vs_impl", info[c])
        # searcher: replay the program against the dense reference
        d = info[c]
        prog = [{"op": "gate", "kind": "SWAP" if (lab == "SWAP" and not ct) else ("ctrl" if ct else f"{len(q)}q"), "label": lab, "params": [],
                 "qubits": q, "controls": ct, "parametrize": False, "raw_seed": None, "round": None, "how": "string"} for lab, q, ct in d["gates"]]
        prog.append({"op": "query", "q": "to_dense"})
        cfgname = "CircuitPermMPS" if d["contract"] == "swap+split" else "CircuitPermMPS[auto-mps]"
        try:
            run_program(ctx, configs()[cfgname], d["N"], prog, True)
        except Abort:
            pass


# =============================================================================
# reverse light cone: exact correspondence of the selected gate tags
# =============================================================================


def lightcone_stage(ctx):
    import quimb.tensor as qtn

    rng = ctx.rng
    cases, info = [], {}
    cid = 0
    for _ in range(ctx.n(30, 1500)):
        N = rng.randint(2, 6)
        circ = qtn.Circuit(N)
        lg = []
        for _ in range(rng.randint(1, 14)):
            r = rng.random()
            try:
                if r < 0.12:
                    q = rng.randrange(N)
                    circ.apply_gate("IDEN", q)
                    lg.append("LIden")
                elif r < 0.30:
                    a, b = rng.sample(range(N), 2)
                    circ.apply_gate("SWAP", a, b)
                    lg.append(f"LSwap {natlit(a)} {natlit(b)}")
                elif r < 0.50:
                    q = rng.randrange(N)
                    if rng.random() < 0.7:
                        circ.apply_gate(rng.choice(["H", "T", "Y"]), q)
                    else:
                        circ.apply_gate("RZ", 0.25, q)
                    lg.append(f"LGate {natlist([q])}")
                elif r < 0.75 or N < 3:
                    a, b = rng.sample(range(N), 2)
                    circ.apply_gate(rng.choice(["CNOT", "CZ", "ISWAP"]), a, b)
                    lg.append(f"LGate {natlist([a, b])}")
                elif r < 0.85:
                    qs = rng.sample(range(N), 3)
                    circ.apply_gate("CCX", *qs)
                    lg.append(f"LGate {natlist(qs)}")
                else:
                    nc = rng.randint(1, min(2, N - 1))
                    lab = rng.choice(["X", "SWAP", "IDEN"]) if N - nc >= 2 else rng.choice(["X", "IDEN"])
                    qs = rng.sample(range(N), nc + (2 if lab == "SWAP" else 1))
                    circ.apply_gate(lab, *qs[nc:], controls=qs[:nc])
                    lg.append("LIden" if lab == "IDEN" else f"LGate {natlist(qs)}")
            except Exception as e:
                ctx.violation("Circuit:lightcone_program:raised", f"{type(e).__name__}: {e}", {"N": N, "gates": lg})
                break
        for _ in range(3):
            where = rng.sample(range(N), rng.randint(1, min(3, N)))
            arg = where[0] if (len(where) == 1 and rng.random() < 0.5) else tuple(where)
            tags = circ.get_reverse_lightcone_tags(arg)
            if not tags or tags[0] != "PSI0":
                ctx.violation("Circuit.get_reverse_lightcone_tags:no_PSI0", "initial state tag is not first", {"N": N, "gates": lg, "where": where})
                continue
            idx = [int(t.split("_")[1]) for t in tags[1:]]
            cid += 1
            nontriv = any(x.startswith("LSwap") for x in lg) and 0 < len(idx) < len(lg)
            ctx.count(("lightcone", N, tuple(lg), tuple(where)), nontriv)
            ctx.bump("lightcone_case")
            info[cid] = {"N": N, "gates": lg, "where": where, "impl_gate_numbers": idx}
            cases.append((cid, f"natlist_eqb (lightcone_tags [{'; '.join(lg)}] {natlist(where)}) {natlist(idx)}"))
    if info:
        ctx.sample({"stream": "lightcone", **info[1]})
    PENDING.append(("lightcone", cases, info, _lightcone_searcher))


def _lightcone_searcher(ctx, failed, info):
    for c in failed[:5]:
        ctx.broken_obligation("correspondence:lightcone_model_vs_impl", info[c])


# =============================================================================
# sampler histories: several sample() calls on one unchanged circuit
# =============================================================================


def _gd(label, *args, controls=()):
    npar = nparams(label)
    return {"op": "gate", "kind": "x", "label": label, "params": list(args[:npar]), "qubits": list(args[npar:]), "controls": list(controls),
            "parametrize": False, "raw_seed": None, "round": None, "how": "string"}


def run_sample_history(ctx, cfgname, N, gates, calls):
    """The memoised conditionals live on the circuit across sample() calls.  Every call of the history - other qubit
    subsets, orders, group sizes - must (a) only produce strings of non-zero probability and follow the exact distribution
    of the measured qubits, (b) behave like the same call on a twin circuit that was never sampled; finally (c) every
    cached conditional must equal the conditional computed afresh for the event its key names."""
    C = configs()
    cfg = C[cfgname]
    circ, ref = cfg["mk"](N), Ref(N)
    for gd in gates:
        apply_to_circuit(circ, gd)
        ref.apply(ref_descr(gd))
    rep = {"config": cfgname, "N": N, "gates": gates, "sample_calls": calls}

    def viol(key, what, upto):
        ctx.violation(key, what, {**rep, "sample_calls": calls[: upto + 1]})

    def tv_and_support(samples, pm):
        emp = np.zeros_like(pm)
        for b in samples:
            ix = tuple(int(x) for x in b)
            if not pm[ix] > 1e-9:
                return None, b
            emp[ix] += 1.0 / len(samples)
        return 0.5 * float(np.abs(emp - pm).sum()), None

    for k, call in enumerate(calls):
        kw = {"qubits": tuple(call["qubits"]), "group_size": call["group_size"], "seed": call["seed"], "dtype": "complex128"}
        if call.get("order") is not None:
            kw["order"] = tuple(call["order"])
        pm = np.asarray(ref.marginal(list(call["qubits"]), None), dtype=float)
        thr = 0.5 * math.sqrt(pm.size / call["C"]) + 0.25
        ctx.bump("sample_history_call")
        try:
            got = list(circ.sample(call["C"], **kw))
        except Exception as e:
            viol(f"{cfg['base']}:sample:history:raised", f"{cfgname}.sample({kw}) raised {type(e).__name__}: {str(e)[:120]} after the earlier calls "
                 f"{calls[:k]} on the same circuit", k)
            return
        tv, badstr = tv_and_support(got, pm)
        if badstr is not None:
            viol(f"{cfg['base']}:sample:history:zero_probability_string",
                 f"call {k} ({kw}) on a circuit already sampled with {calls[:k]} produced {badstr}, whose exact probability is 0", k)
            return
        if tv > thr:
            viol(f"{cfg['base']}:sample:history:wrong_distribution",
                 f"call {k} ({kw}) after {calls[:k]}: total-variation distance {tv:.2f} from the exact distribution of qubits {call['qubits']}", k)
            return
        # (b) the same call on a twin that has never been sampled
        twin = cfg["mk"](N)
        for gd in gates:
            apply_to_circuit(twin, gd)
        fresh = list(twin.sample(call["C"], **kw))
        if fresh != got:
            emp_a, emp_b = np.zeros_like(pm), np.zeros_like(pm)
            for b in got:
                emp_a[tuple(int(x) for x in b)] += 1.0 / len(got)
            for b in fresh:
                emp_b[tuple(int(x) for x in b)] += 1.0 / len(fresh)
            d = 0.5 * float(np.abs(emp_a - emp_b).sum())
            if d > thr:
                viol(f"{cfg['base']}:sample:history:depends_on_earlier_calls",
                     f"call {k} ({kw}) gives a different distribution (TV {d:.2f}) on the circuit already sampled with {calls[:k]} than on a fresh twin", k)
                return
    # (c) cached conditionals vs fresh ones for the event named by the key
    twin = cfg["mk"](N)
    for gd in gates:
        apply_to_circuit(twin, gd)
    for key, p in list(dict.items(circ._sampled_conditionals)):
        try:
            where, pairs = key
            fix = {int(q): str(b) for q, b in pairs}
            where = tuple(int(w) for w in where)
        except Exception:
            continue  # not the documented key format: reported by the key correspondence
        if float(np.asarray(ref.marginal(list(where), fix)).sum()) < 1e-12:
            continue
        fp = np.asarray(twin.compute_marginal(where, fix=fix, dtype="complex128"), dtype=float)
        fp = fp / fp.sum()
        if np.asarray(p).shape != fp.shape or not np.allclose(np.asarray(p, dtype=float), fp, atol=1e-6):
            viol(f"{cfg['base']}:sample:history:cached_conditional_differs_from_fresh",
                 f"_sampled_conditionals[{key!r}] = {np.asarray(p).tolist()} but p{where} given {fix} computed afresh is {fp.tolist()}", len(calls) - 1)
            return


def sample_history_stage(ctx, budget=None):
    rng = ctx.rng
    n = budget if budget is not None else ctx.n(10, 150)
    for it in range(n):
        cfgname = rng.choice(["Circuit", "Circuit", "Circuit[contract=False]", "CircuitDense"])
        N = rng.randint(3, 5)
        # correlated qubits: a few superposed roots, CX fan-outs, bit flips, sometimes a rotation
        gates = []
        roots = rng.sample(range(N), rng.randint(1, 2))
        for r in roots:
            gates.append(_gd("H", r) if rng.random() < 0.7 else _gd("RY", rng.choice([0.875, 1.375, 2.125]), r))
        for q in range(N):
            if q not in roots:
                gates.append(_gd("CX", rng.choice(roots), q))
                if rng.random() < 0.4:
                    gates.append(_gd("X", q))
        for _ in range(rng.randint(0, 2)):
            a, b = rng.sample(range(N), 2)
            gates.append(_gd(rng.choice(["CX", "CZ"]), a, b) if rng.random() < 0.7 else _gd("RY", 0.375, a))
        calls = []
        for _ in range(rng.randint(2, 4)):
            sub = sorted(rng.sample(range(N), rng.randint(2, N)))
            order = rng.sample(sub, len(sub)) if rng.random() < 0.6 else None
            calls.append({"qubits": sub, "order": order, "group_size": rng.choice([1, 1, 1, 2]), "C": 48, "seed": rng.randrange(1000)})
        ctx.count(("sample_history", cfgname, N, json.dumps(gates), json.dumps(calls)), True)
        ctx.bump("sample_history")
        try:
            run_sample_history(ctx, cfgname, N, gates, calls)
        except Exception as e:
            ctx.violation("Circuit:sample:history:harness_raised", f"{type(e).__name__}: {e}", {"config": cfgname, "N": N, "gates": gates, "sample_calls": calls})
    # the documented two-call pattern: the same target conditioned on another qubit of a correlated register
    ghz = [_gd("H", 0), _gd("CX", 0, 2), _gd("CX", 0, 1), _gd("X", 1)]
    for cfgname in ("Circuit", "CircuitDense"):
        for calls in ([{"qubits": [0, 2], "order": [0, 2], "group_size": 1, "C": 48, "seed": 1}, {"qubits": [1, 2], "order": [1, 2], "group_size": 1, "C": 48, "seed": 2}],
                      [{"qubits": [0, 1, 2], "order": [0, 2, 1], "group_size": 1, "C": 48, "seed": 3}, {"qubits": [0, 1, 2], "order": [1, 2, 0], "group_size": 1, "C": 48, "seed": 4}]):
            ctx.count(("sample_history", cfgname, "ghz", json.dumps(calls)), True)
            try:
                run_sample_history(ctx, cfgname, 3, ghz, calls)
            except Exception as e:
                ctx.violation("Circuit:sample:history:harness_raised", f"{type(e).__name__}: {e}", {"config": cfgname, "N": 3, "gates": ghz, "sample_calls": calls})


# =============================================================================
# (3b) cache correspondence
# =============================================================================


class LogDict(dict):
    """dict that logs membership tests / failed lookups (shared log)"""

    def __init__(self, log, which, *a):
        super().__init__(*a)
        self._log = log
        self._which = which

    def __contains__(self, k):
        r = dict.__contains__(self, k)
        self._log.append((k, r, self._which))
        return r

    def __getitem__(self, k):
        try:
            return dict.__getitem__(self, k)
        except KeyError:
            self._log.append((k, False, self._which))
            raise


def key_lit(k, cond=False):
    if cond:
        where, fixed = k
        return f"KCond {natlist(where)} [" + "; ".join(f"({natlit(q)}, {natlit(int(b))})" for q, b in fixed) + "]"
    if k[0] == "psi_simplified":
        return f"KPsi {natlit(SEQS.index(k[1]))} {natlit(ATOLS.index(k[2]))}"
    if k[0] == "rdm_lightcone_simplified":
        return f"KRdm {natlist(k[1])} {natlit(SEQS.index(k[2]))} {natlit(ATOLS.index(k[3]))}"
    if k[0] == "lightcone_ordering":
        assert k[1] == "greedy-lightcone"
        return f"KOrder 0 {natlist(k[2])}"
    if k[0] == "gate_by_gate_circuits":
        return f"KGbg {natlit(k[1])}"
    raise ValueError(f"unknown storage key {k!r}")


def is_cond_key(k):
    return isinstance(k, tuple) and len(k) == 2 and isinstance(k[0], tuple) and isinstance(k[1], tuple) and (
        not k[0] or isinstance(k[0][0], int))


def cache_stage(ctx):
    import quimb.tensor as qtn

    rng = ctx.rng
    cases, info = [], {}
    MUT_APPEND = "Mut {| m_world := true; m_append := 1; m_clear := false |}"
    MUT_CLEAR = "Mut {| m_world := true; m_append := 0; m_clear := true |}"
    MUT_ONLYCLEAR = "Mut {| m_world := false; m_append := 0; m_clear := true |}"
    MUT_NOP = "Mut {| m_world := false; m_append := 0; m_clear := false |}"
    for cid in range(1, ctx.n(40, 1200) + 1):
        N = rng.randint(2, 4)
        circ = qtn.Circuit(N)
        log = []

        def wrap(c):
            c._storage = LogDict(log, "storage", c._storage)
            c._sampled_conditionals = LogDict(log, "cond", c._sampled_conditionals)

        wrap(circ)
        ops_coq, obs, descr = [], [], []
        pool_sq = rng.choice(SEQS)  # most queries of one program share their simplification options (repeats -> hits)
        repeated_across_mutation = False
        seen_at, nmut, history = {}, 0, []
        key_event, collided = {}, {"flag": False}  # conditional key -> conditioning event (reset whenever the storage is cleared)
        for _ in range(rng.randint(3, 12)):
            r = rng.random()
            log.clear()
            try:
                if r < 0.32:
                    which = rng.random()
                    if which < 0.5:
                        circ.apply_gate(rng.choice(["RX", "RY", "RZ"]), rng.randint(-8, 8) / 8, rng.randrange(N), parametrize=True)
                    elif which < 0.8 and N >= 2:
                        a, b = rng.sample(range(N), 2)
                        circ.apply_gate(rng.choice(["CNOT", "CZ", "SWAP"]), a, b)
                    else:
                        circ.apply_gate("H", rng.randrange(N))
                    ops_coq.append(MUT_APPEND)
                    descr.append("apply_gate")
                    nmut += 1
                elif r < 0.42:
                    idx = [k for k, gt in enumerate(circ.gates) if gt.parametrize]
                    if not idx:
                        continue
                    k = rng.choice(idx)
                    if rng.random() < 0.5 or has_tensorless_gate(circ):
                        circ.set_params({k: np.array([rng.randint(-8, 8) / 8])})
                        descr.append("set_params")
                    else:
                        tn = circ.psi
                        tn[circ.gate_tag(k)].params = np.array([rng.randint(-8, 8) / 8])
                        circ.update_params_from(tn)
                        descr.append("update_params_from")
                    ops_coq.append(MUT_CLEAR)
                    nmut += 1
                elif r < 0.46:
                    circ.clear_storage()
                    ops_coq.append(MUT_ONLYCLEAR)
                    descr.append("clear_storage")
                elif r < 0.50:
                    circ = circ.copy()
                    wrap(circ)
                    ops_coq.append(MUT_NOP)
                    descr.append("copy")
                else:
                    if history and rng.random() < 0.45:
                        spec = dict(rng.choice(history))
                    else:
                        sq = pool_sq if rng.random() < 0.8 else rng.choice(SEQS)
                        at = ATOLS[0] if rng.random() < 0.8 else rng.choice(ATOLS)
                        qk = rng.choice(["to_dense", "amplitude", "partial_trace", "local_expectation", "compute_marginal", "ordering",
                                         "sample", "sample"])
                        spec = {"qk": qk, "sq": sq, "at": at}
                        if qk == "amplitude":
                            spec["b"] = "".join(rng.choice("01") for _ in range(N))
                        elif qk in ("partial_trace", "local_expectation"):
                            spec["w"] = rng.sample(range(N), rng.randint(1, min(2, N)))
                        elif qk == "compute_marginal":
                            spec["w"] = rng.sample(range(N), rng.randint(1, min(2, N)))
                            rest = [i for i in range(N) if i not in spec["w"]]
                            spec["fixq"] = rng.sample(rest, rng.randint(0, len(rest)))
                        elif qk == "ordering":
                            qs = sorted(rng.sample(range(N), rng.randint(1, N)))
                            rng.shuffle(qs)
                            spec["qs"] = qs
                        elif qk == "sample":
                            spec["gs"] = rng.choice([1, 1, 2, 10])
                            spec["qubits"] = sorted(rng.sample(range(N), rng.randint(1, N))) if rng.random() < 0.5 else list(range(N))
                            spec["order"] = None
                            if rng.random() < 0.4:
                                spec["order"] = rng.sample(spec["qubits"], len(spec["qubits"]))
                            spec["seed"] = rng.randrange(100)
                        history.append(spec)
                    qk, sq, at = spec["qk"], spec["sq"], spec["at"]
                    s_, a_ = natlit(SEQS.index(sq)), natlit(ATOLS.index(at))
                    so = {"simplify_sequence": sq, "simplify_atol": at}
                    if qk == "to_dense":
                        circ.to_dense(**so)
                        ops_coq.append(f"Query (q_psi {s_} {a_})")
                        tag = ("psi", sq, at)
                    elif qk == "amplitude":
                        circ.amplitude(spec["b"], **so)
                        ops_coq.append(f"Query (q_psi {s_} {a_})")
                        tag = ("psi", sq, at)
                    elif qk == "partial_trace":
                        keep = spec["w"]
                        circ.partial_trace(tuple(keep), **so)
                        ops_coq.append(f"Query (q_rdm {natlist(keep)} {s_} {a_})")
                        tag = ("rdm", tuple(sorted(keep)), sq, at)
                    elif qk == "local_expectation":
                        w = spec["w"]
                        circ.local_expectation(np.eye(2 ** len(w)), tuple(w), **so)
                        ops_coq.append(f"Query (q_rdm {natlist(w)} {s_} {a_})")
                        tag = ("rdm", tuple(sorted(w)), sq, at)
                    elif qk == "compute_marginal":
                        w = spec["w"]
                        # condition on bits of the most likely outcome (a zero-probability condition hits the known
                        # 0/0 defect of the exact simulator); the state is read from a copy so that no cache is touched
                        best = int(np.argmax(np.abs(np.asarray(circ.copy().to_dense()).ravel())))
                        fix = {i: str((best >> (N - 1 - i)) & 1) for i in spec["fixq"]}
                        circ.compute_marginal(tuple(w), fix=fix, dtype="complex128", **so)
                        fl = "[" + "; ".join(f"({natlit(i)}, {natlit(int(b))})" for i, b in fix.items()) + "]"
                        ops_coq.append(f"Query (q_marginal {natlit(N)} {natlist(w)} {fl} {s_} {a_})")
                        tag = ("marg", tuple(sorted(set(w) | set(fix))), sq, at)
                    elif qk == "ordering":
                        qs = spec["qs"]
                        circ.calc_qubit_ordering(qs)
                        ops_coq.append(f"Query (q_order {natlist(qs)})")
                        tag = ("order", tuple(sorted(qs)))
                    else:
                        gs, order, qsub = spec["gs"], spec["order"], spec["qubits"]
                        given = order is not None
                        nlog = len(log)
                        (b,) = list(circ.sample(1, qubits=tuple(qsub), order=order, group_size=gs, seed=spec["seed"], dtype="complex128", **so))
                        used = tuple(order) if given else dict.__getitem__(circ._storage, ("lightcone_ordering", "greedy-lightcone", tuple(sorted(qsub))))
                        groups = circ._group_order(used, gs)
                        outcome = dict(zip(qsub, b))  # the sample lists the measured qubits in the order of `qubits`
                        bits = "[" + "; ".join(f"({natlit(i)}, {natlit(int(outcome[i]))})" for i in qsub) + "]"
                        ops_coq.append(f"Sample {natlit(N)} {natlist(qsub)} {blit(given)} {nll([list(g_) for g_ in groups])} {bits} {s_} {a_}")
                        # property level: a conditional key must determine the conditioning event.  The events of this pass are
                        # known (group, outcomes of the earlier groups); pair them with the keys looked up in _sampled_conditionals
                        touched = [k for k, _h, which in log[nlog:] if which == "cond"]
                        fixed, events = {}, []
                        for g_ in groups:
                            events.append((tuple(g_), tuple(sorted(fixed.items()))))
                            for qq in g_:
                                fixed[qq] = outcome[qq]
                        if len(touched) == len(events):
                            for k_, ev_ in zip(touched, events):
                                prev = key_event.setdefault(repr(k_), ev_)
                                if prev != ev_:
                                    ctx.violation("Circuit.sample:conditional_key_does_not_determine_event",
                                                  f"the memoised conditional key {k_!r} was used for p{prev[0]} given {dict(prev[1])} and now for "
                                                  f"p{ev_[0]} given {dict(ev_[1])}: a later hit returns the conditional of another event",
                                                  {"N": N, "ops": descr + ["sample"], "specs": history, "key": repr(k_), "events": [prev, ev_]})
                                    collided["flag"] = True
                        tag = ("sample", gs, sq, at, tuple(qsub), tuple(order) if given else None)
                    descr.append(qk)
                    if tag in seen_at and seen_at[tag] < nmut:
                        repeated_across_mutation = True
                    seen_at[tag] = nmut
            except Exception as e:
                last = history[-1] if history else None
                key = "Circuit:cache_program:raised"
                # the exact simulator's known 0/0 defect (an exactly zero amplitude under norm equalisation) is the same
                # genuine finding the main oracle reports - same key, so that it is recognised, not a new alarm
                try:
                    if (isinstance(e, ZeroDivisionError) and last is not None and last.get("qk") == "amplitude"
                            and abs(np.asarray(circ.copy().to_dense()).ravel()[int(last["b"], 2)]) < 1e-12):
                        key = "Circuit.amplitude:zero_amplitude:nan_or_ZeroDivisionError"
                except Exception:  # noqa: BLE001
                    pass
                ctx.violation(key, f"{type(e).__name__}: {e}", {"N": N, "ops": descr, "failing_query": last})
                break
            try:
                ev = "[" + "; ".join(f"({key_lit(k, which == 'cond')}, {blit(h)})" for k, h, which in log) + "]"
                ks = "[" + "; ".join(key_lit(k) for k in dict.keys(circ._storage)) + "]"
                kc = "[" + "; ".join(key_lit(k, True) for k in dict.keys(circ._sampled_conditionals)) + "]"
            except (ValueError, AssertionError, TypeError, IndexError) as e:
                ctx.broken_obligation("correspondence:cache:unknown_key", repr(e))
                NEED_SAMPLE_SEARCH["flag"] = True
                break
            if not dict.__len__(circ._sampled_conditionals):
                key_event.clear()
            if collided["flag"]:
                NEED_SAMPLE_SEARCH["flag"] = True
            obs.append(f"({ev}, {ks}, {kc}, {zlit(circ._sample_n_gates)})")
        if not ops_coq or len(ops_coq) != len(obs):
            continue
        ctx.count(("cache", N, tuple(descr), tuple(obs)), repeated_across_mutation)
        ctx.bump("cache_program")
        info[cid] = {"N": N, "ops": descr, "model_ops": ops_coq, "impl_observations": obs}
        cases.append((cid, f"check_all (run_trace init_st [{'; '.join(ops_coq)}]) [{'; '.join(obs)}]"))
        if cid == 2:
            ctx.sample({"stream": "cache", "N": N, "ops": descr, "impl_observations": obs[:3]})
    PENDING.append(("cache", cases, info, _cache_searcher))


NEED_SAMPLE_SEARCH = {"flag": False}


def _cache_searcher(ctx, failed, info):
    for c in failed[:5]:
        ctx.broken_obligation("correspondence:cache_model_vs_impl", info[c])
    if failed:
        # searcher: the stale-cache scenarios on the implementation
        for m in ("set_params", "update_params_from", "apply_gate", "apply_gates", "register_named_params"):
            stale_scenario(ctx, m)


# =============================================================================
# (3c) caches keyed by the identity of an object: key / liveness discipline
# =============================================================================


def idcache_scan_stage(ctx):
    """static inventory of every id() use in the circuit modules -> coq/C07/IdCacheSites.v (Props.v states that every
    site stores the object next to its id)"""
    from harness import c07_idcache as ic

    try:
        sites, extra = ic.scan(REPO)
    except Exception as e:
        ctx.broken_obligation("idcache:scan_failed", repr(e))
        return
    ctx.regen("C07/IdCacheSites.v", ic.emit_coq(sites))
    ctx.extra["id_keyed_sites"] = [{k: s[k] for k in ("site", "kind", "object", "pins", "value")} for s in sites]
    ctx.extra["identity_caches_other"] = extra
    if not any(s["kind"] == "dict_key" and "_maybe_convert_gate_array" in s["site"] for s in sites):
        ctx.broken_obligation("idcache:scan:known_site_not_found",
                              "the id()-keyed dict of CircuitBase._maybe_convert_gate_array was not found - the scan (or the model "
                              "coq/C07/IdCacheModel.v) no longer matches the source")
    for s in sites:
        if not s["pins"]:
            ctx.broken_obligation(f"idcache:site_does_not_store_its_key_object:{s['site']}",
                                  f"line {s['line']}: {s['kind']} derived from id({s['object']}) but the stored value `{s['value']}` does not "
                                  f"contain {s['object']} itself: the id can outlive the object it names")


def idcache_stage(ctx):
    """event programs (fresh gate arrays, short-lived copies, rejected gates, dropped references, adversarial address
    reuse) on every eagerly converting simulator class x conversion option: exact correspondence with the Coq model
    + call-site oracle (exact) + dense-state oracle (a test, not a theorem: 1e-9, 2e-4 for complex64 simulators)"""
    from harness import c07_idcache as ic

    rng = ctx.rng
    combos = [(cls, conv) for cls in ic.CLASSES for conv in ic.CONVS]
    n = ctx.n(len(combos), 10 * len(combos))
    cases, info, unexplained = [], {}, {}
    real = ic.install_spy()
    try:
        for cid in range(1, n + 1):
            cls, conv = combos[(cid - 1) % len(combos)]
            N = rng.choice([3, 4])
            prog = ic.gen_program(rng, cls, N, rng.randint(5, 9))
            kinds = [o["op"] for o in prog]
            nontriv = "drop" in kinds and any(o.get("reject") for o in prog) and ic.CONVS[conv]["new"]
            ctx.count(("idcache", cls, conv, N, json.dumps(prog)), nontriv)
            ctx.bump(f"idcache:{cls}")
            ctx.bump(f"idcache:conv:{conv}")
            try:
                r = ic.run_program(ctx, cls, conv, N, prog)
            except Exception as e:
                ctx.violation(f"{cls}:idcache_program:harness_raised", f"{type(e).__name__}: {e}",
                              {"stream": "idcache", "class": cls, "conv": conv, "N": N, "program": prog})
                continue
            if r is None:
                continue
            trace, inf, st = r
            ctx.bump("idcache:address_recycled", st["recycled"])
            info[cid] = inf
            if not st["violated"]:
                unexplained[cid] = (cls, conv, N, prog)
            cases.append((cid, ic.case_expr(trace)))
            if cid == 2:
                ctx.sample({"stream": "idcache", "class": cls, "conv": conv, "N": N, "ops_head": inf["ops"][:3]})
    finally:
        ic.remove_spy(real)
    IDCACHE_UNEXPLAINED.clear()
    IDCACHE_UNEXPLAINED.update(unexplained)
    PENDING.append(("idcache", cases, info, _idcache_searcher))


IDCACHE_UNEXPLAINED = {}


def _idcache_searcher(ctx, failed, info):
    from harness import c07_idcache as ic

    for c in failed[:5]:
        ctx.broken_obligation("correspondence:idcache_model_vs_impl", {k: v for k, v in info[c].items() if k != "program"})
    # searcher: the same programs again with a much more persistent adversarial allocator
    real = ic.install_spy()
    try:
        for c in [c for c in failed if c in IDCACHE_UNEXPLAINED][:6]:
            cls, conv, N, prog = IDCACHE_UNEXPLAINED[c]
            try:
                ic.run_program(ctx, cls, conv, N, prog, ncand=256)
            except Exception:
                pass
    finally:
        ic.remove_spy(real)


# =============================================================================
# all exact correspondences are evaluated by ONE batch of Coq files (shards run in parallel)
# =============================================================================

PENDING = []

from harness.c07_idcache import COQ_HEADER as _IDCACHE_COQ_HEADER  # noqa: E402

CORR_HEADER = (
    "From Coq Require Import List Arith Bool ZArith.\nFrom QV Require Import C07.Model C07.LightconeModel C07.RecordModel C07.IdCacheModel.\nImport ListNotations.\n"
    + _IDCACHE_COQ_HEADER +
    # tracker
    "Fixpoint phys_trace (qs : list nat) (gates : list (list nat)) : list (list nat) :=\n"
    "  match gates with [] => [] | g :: r => match perm_step qs g with Some (qs', ph) => ph :: phys_trace qs' r | None => [] end end.\n"
    "Definition perm_check (N : nat) (gates trace sites : list (list nat)) : bool :=\n"
    "  natll_eqb (perm_trace (seq 0 N) gates) trace && natll_eqb (phys_trace (seq 0 N) gates) sites\n"
    "  && forallb (is_perm_of_range N) trace.\n"
    "Definition perm_check_g (N : nat) (gates : list pgate) (trace : list (list nat * list nat * list nat)) : bool :=\n"
    "  triples_eqb (perm_trace_g (seq 0 N) gates) trace && forallb (fun t => is_perm_of_range N (fst (fst t))) trace.\n"
    # cache
    "Definition obs := (list (key * bool) * list key * list key * Z)%type.\n"
    "Definition is_cond (k : key) : bool := match k with KCond _ _ => true | _ => false end.\n"
    "Definition check_step (p : list event * st) (o : obs) : bool :=\n"
    "  let '(ev, s) := p in let '(oev, ks, kc, n) := o in\n"
    "  evl_eqb ev oev && keyl_eqb (filter (fun k => negb (is_cond k)) (obs_keys s)) ks\n"
    "  && keyl_eqb (filter is_cond (obs_keys s)) kc && Z.eqb (stamp s) n.\n"
    "Fixpoint check_all (tr : list (list event * st)) (os : list obs) : bool :=\n"
    "  match tr, os with [], [] => true | p :: tr', o :: os' => check_step p o && check_all tr' os' | _, _ => false end.\n"
)


def ownership_cases(ctx):
    """info-dict identities of all branches of every program with copies, checked by the Coq ownership predicate"""
    cases, info = [], {}
    for cid, (name, N, ids) in enumerate(OWNERSHIP_SEEN[:400], 1):
        canon = {}
        small = [canon.setdefault(x, len(canon)) for x in ids]
        info[cid] = {"config": name, "N": N, "info_dict_ids": small}
        cases.append((cid, f"nodupb {natlist(small)}"))
    OWNERSHIP_SEEN.clear()
    if cases:
        PENDING.append(("ownership", cases, info, _ownership_searcher))


def _ownership_searcher(ctx, failed, info):
    for c in failed[:5]:
        ctx.broken_obligation("correspondence:record_ownership", info[c])


def correspondence_flush(ctx):
    STRIDE = 1000000
    allcases, owner = [], {}
    for k, (name, cases, info, searcher) in enumerate(PENDING):
        for cid, expr in cases:
            allcases.append((k * STRIDE + cid, expr))
    if not allcases:
        return
    shard = max(60, (len(allcases) + 5) // 6)
    failed, errors = ctx.coq_cases("corr", CORR_HEADER, allcases, shard=shard)
    for path, err in errors:
        ctx.broken_obligation("correspondence:" + os.path.basename(path), err)
    for k, (name, cases, info, searcher) in enumerate(PENDING):
        mine = [f - k * STRIDE for f in failed if k * STRIDE <= f < (k + 1) * STRIDE]
        ctx.extra.setdefault("correspondence_cases", {})[name] = {"cases": len(cases), "failed": len(mine)}
        if mine:
            searcher(ctx, mine, info)
    PENDING.clear()


def run(ctx):
    ctx.extra["rule"] = RULE
    ctx.trusted_base += [
        "harness/c07_gates.py: symbolic execution of the *_param_gen builders through an autoray backend (cos, sin, complex, "
        "exp(i x), stack, + - * / by constants); constant gates recognised as (a + b/sqrt2)/2 at 1e-12; SU4 modelled by hand as "
        "the product of its factors; float evaluation of the same trees compared with the implementation at 1e-12",
        "harness/c07_inventory.py: syntactic AST scan (assignments / in-place calls on self._gates and self._psi, calls of "
        "self.* and super().*, position of clear_storage()); path-insensitive; in-place gauge moves through local aliases "
        "(psi = self._psi) are not tracked",
        "hand models coq/C07/Model.v of CircuitPermMPS._apply_gate / gate_with_auto_swap / swap_site_to (index level) and of "
        "the storage protocol of exact.py; tie = exact correspondence evaluated in Coq on observed traces",
        "harness/c07_idcache.py: syntactic scan of id() uses (dict entry `X[id(G)] = value`, attribute derived from id(U); anything "
        "else is reported unrecognised); hand model coq/C07/IdCacheModel.v of _maybe_convert_gate_array / copy() / _gates over a heap "
        "with an adversarial allocator, tied by exact correspondence (spy on the method, weak references for liveness, CPython "
        "reference counting + gc.collect() after dropped simulators)",
        "numpy / cotengra / LAPACK and quimb's tensor-network layer are not modelled: all numeric claims (states, amplitudes, "
        "reduced density matrices, marginals, samples) are decided by the dense-reference oracle stream at 1e-9 (tests)",
    ]
    ctx.assumptions += [
        "cache theorem: a mutator either completes, leaves the object unchanged, or clears the storage on its failure path "
        "(set_params: try/finally, recognised by the scan; update_params_from raising half way is an open known finding; failure "
        "atomicity of gates is tested, not proved); m_append = 1 stands for 'at least one gate appended per change'",
        "documented domain of the oracle: qubits in range and pairwise distinct, controls disjoint from targets, unitary raw "
        "matrices of the right shape, no truncation requested (default cutoff 1e-10); out-of-range qubits are accepted silently "
        "by Circuit / CircuitMPS (outside the domain, not reported)",
        "CircuitPEPSSimpleUpdate / CircuitPEPOSimpleUpdate (approximate simple-update simulators without cached queries) are "
        "listed by the inventory scan; only the identity-keyed gate cache of CircuitPEPSSimpleUpdate is exercised (no state oracle)",
        "identity-keyed cache: gate arrays are not modified in place after they were handed to a simulator (quimb keeps "
        "references, never copies); CircuitDense never converts eagerly (its convert_eager argument is stored in gate_opts, "
        "circ.convert_eager stays False), so its id()-keyed dict stays empty and it is not part of that stream",
    ]
    import time

    times = ctx.extra.setdefault("stage_wall_s", {})

    only = [x for x in os.environ.get("VERIF_C07_ONLY", "").split(",") if x]  # development aid: run a subset of stages

    def timed(fn):
        if only and fn.__name__ not in only:
            return
        t = time.time()
        ctx.stage(fn)
        times[fn.__name__] = round(time.time() - t, 1)

    timed(gates_stage)
    timed(inventory_stage)
    timed(idcache_scan_stage)
    if only and "props" not in only:
        ctx.extra["partial_run"] = only
    else:
      ctx.check_props([
        "Base/Sums.vo", "C07/CMat.vo", "C07/GatesGen.vo", "C07/GateProofs.vo", "C07/Model.vo", "C07/Proofs.vo", "C07/TrackerG.vo",
        "C07/Ctrl.vo", "C07/LightconeModel.vo", "C07/Lightcone.vo", "C07/RecordModel.vo", "C07/Record.vo", "C07/Mutators.vo", "C07/Inventory.vo",
        "C07/IdCacheModel.vo", "C07/IdCache.vo", "C07/IdCacheSites.vo", "C07/Props.v",
    ])
    PENDING.clear()
    NEED_SAMPLE_SEARCH["flag"] = False
    timed(perm_stage)
    timed(cache_stage)
    timed(lightcone_stage)

    def sample_histories(c):
        sample_history_stage(c, budget=c.n(40, 150) if NEED_SAMPLE_SEARCH["flag"] else None)

    sample_histories.__name__ = "sample_history_stage"
    timed(sample_histories)
    OWNERSHIP_SEEN.clear()
    timed(targeted_stage)
    timed(oracle_stage)
    timed(idcache_stage)
    if not only or any(x in only for x in ("perm_stage", "cache_stage", "lightcone_stage", "idcache_stage", "correspondence_flush")):
        ownership_cases(ctx)
        timed(correspondence_flush)


def replay(ctx, path):
    with open(path) as f:
        d = json.load(f)
    r = d.get("replay", d)
    if isinstance(r, dict) and r.get("stream") == "idcache":
        from harness import c07_idcache as ic

        real = ic.install_spy()
        try:
            ic.run_program(ctx, r["class"], r["conv"], r["N"], r["program"], ncand=256)
        finally:
            ic.remove_spy(real)
    elif isinstance(r, dict) and "sample_calls" in r and "gates" in r:
        run_sample_history(ctx, r["config"], r["N"], r["gates"], r["sample_calls"])
    elif isinstance(r, dict) and "program" in r and "config" in r:
        cfg = configs()[r["config"]]
        try:
            run_program(ctx, cfg, r["N"], r["program"], r.get("check_each_gate", True))
        except Abort:
            pass
    elif isinstance(r, dict) and r.get("gate"):
        gates_stage(ctx)
    else:
        run(ctx)

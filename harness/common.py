"""Shared machinery for every property check.

One `Ctx` per run: pins the environment, owns the PRNG (everything derives
from VERIF_SEED), runs Coq (props files, regenerated files, correspondence case
files), collects coverage counters, reports violations / known findings and
writes the evidence file.  Nothing here is property specific.
"""

import hashlib
import json
import os
import random
import re
import subprocess
import sys
import time
import traceback

VERIF = os.path.dirname(os.path.dirname(os.path.abspath(__file__)))
REPO = os.environ.get("VERIF_REPO", "/repo")
COQ = os.path.join(VERIF, "coq")
WORKROOT = os.path.join(VERIF, ".work")
# runs against a scratch tree (VERIF_REPO set by the seeded-change experiments) keep
# their evidence / work files apart, so they never overwrite what a run on /repo wrote
_SCRATCH = "" if os.path.realpath(REPO) == "/repo" else "__" + os.path.basename(os.path.realpath(REPO))
EVID = os.path.join(VERIF, "evidence") if not _SCRATCH else os.path.join(WORKROOT, "evidence" + _SCRATCH)
REPLAY = os.path.join(VERIF, "replay")
KNOWN_DIR = os.path.join(VERIF, "known_findings.d")

COQ_TIMEOUT = 600

# axioms the brief allows (standard-library declared); everything else that
# shows up under Print Assumptions makes the obligation count as not discharged
ALLOWED_AXIOMS = {
    "ClassicalDedekindReals.sig_forall_dec",
    "ClassicalDedekindReals.sig_not_dec",
    "FunctionalExtensionality.functional_extensionality_dep",
    "Classical_Prop.classic",
    "functional_extensionality_dep",
    "sig_forall_dec",
    "sig_not_dec",
    "classic",
}

KERNEL_TB = [
    "Coq 8.16.1 kernel (coqc); vm_compute used for correspondence evaluation "
    "and finite-table theorems; no native_compute; no extraction",
    "no Axiom/Parameter/Admitted in /verif/coq (grep gate in setup and in "
    "every run); Print Assumptions of every property theorem recorded below",
]


# ----------------------------------------------------------------------------
# Coq text emitters


def zlit(n):
    n = int(n)
    return f"({n})%Z" if n < 0 else f"{n}%Z"


def natlit(n):
    n = int(n)
    assert 0 <= n < 5000, "nat literal too large"
    return f"{n}%nat"


def coqlist(xs, f=str):
    return "[" + "; ".join(f(x) for x in xs) + "]"


def zlist(xs):
    return coqlist(xs, zlit)


def natlist(xs):
    return coqlist(xs, natlit)


def blit(b):
    return "true" if b else "false"


def optlit(x, f):
    return "None" if x is None else f"(Some {f(x)})"


def pairlit(a, b):
    return f"({a}, {b})"


# ----------------------------------------------------------------------------


class Violation(Exception):
    pass


class Ctx:
    def __init__(self, pid, tier, seed):
        self.pid = pid
        self.tier = tier
        self.seed = int(seed)
        self.t0 = time.time()
        self.rng = random.Random(self.seed * 1000003 + int(pid[1:]))
        self.work = os.path.join(WORKROOT, pid + _SCRATCH)
        os.makedirs(self.work, exist_ok=True)
        os.makedirs(EVID, exist_ok=True)
        os.makedirs(REPLAY, exist_ok=True)
        for f in os.listdir(self.work):
            if f.endswith((".v", ".vo", ".glob", ".vok", ".vos", ".aux", ".out")):
                try:
                    os.remove(os.path.join(self.work, f))
                except OSError:
                    pass
        for f in os.listdir(REPLAY):
            if f.startswith(pid + "_"):
                try:
                    os.remove(os.path.join(REPLAY, f))
                except OSError:
                    pass
        self.evaluations = 0
        self.distinct = set()
        self.samples = []
        self.obligations = 0
        self.discharged = 0
        self.theorems = []
        self.axioms_seen = {}
        self.trusted_base = list(KERNEL_TB)
        self.assumptions = []
        self.violations = []  # (key, what, replay_path, found_input)
        self.known_hits = []
        self.traces = 0
        self.extra = {}
        self.hist = {}
        self.broken = []  # names of theorems / correspondences that no longer check
        self.quick = tier == "quick"
        self._known = self._load_known()
        self.level = "proof"

    # -- scaling -------------------------------------------------------------
    def n(self, quick, thorough):
        return quick if self.quick else thorough

    # -- known findings --------------------------------------------------------
    def _load_known(self):
        try:
            with open(os.path.join(KNOWN_DIR, self.pid + ".json")) as f:
                d = json.load(f)
        except FileNotFoundError:
            return {}
        out = {}
        for e in d.get("findings", []):
            if e.get("property") == self.pid and e.get("status", "open") == "open":
                out[e["key"]] = e
        return out

    # -- counters ----------------------------------------------------------------
    def count(self, case_key=None, nontrivial=True, n=1):
        self.evaluations += n
        if case_key is not None and nontrivial:
            if not isinstance(case_key, str):
                case_key = json.dumps(case_key, sort_keys=True, default=str)
            self.distinct.add(hashlib.md5(case_key.encode()).hexdigest())

    def bump(self, name, k=1):
        self.hist[name] = self.hist.get(name, 0) + k

    def sample(self, obj, maxn=6):
        if len(self.samples) < maxn:
            self.samples.append(obj)

    # -- violations --------------------------------------------------------------
    def violation(self, key, what, replay, found_input=True):
        """Report one failure.  `key` identifies call site + input class; it
        is what known_findings.json is matched on."""
        if key in self._known:
            if key not in [k for k, _ in self.known_hits]:
                self.known_hits.append((key, self._known[key].get("what", what)))
            return False
        for k, _, _, _ in self.violations:
            if k == key:
                return True
        h = hashlib.md5((key + json.dumps(replay, sort_keys=True, default=str)).encode()).hexdigest()[:10]
        path = os.path.join(REPLAY, f"{self.pid}_{h}.json")
        with open(path, "w") as f:
            json.dump(
                {
                    "property": self.pid,
                    "key": key,
                    "what": what,
                    "found_failing_input": bool(found_input),
                    "replay": replay,
                    "seed": self.seed,
                    "tier": self.tier,
                },
                f,
                indent=1,
                default=str,
            )
        self.violations.append((key, what, path, found_input))
        return True

    def stage(self, fn, *a, **kw):
        """Run one stage of a check; an exception breaks that stage only (the
        remaining stages - in particular the searchers - still run)."""
        try:
            return fn(self, *a, **kw)
        except Exception:
            tb = traceback.format_exc()
            sys.stderr.write(tb)
            self.broken_obligation("stage:" + getattr(fn, "__name__", "?"), tb[-2500:])
            return None

    def broken_obligation(self, name, detail):
        self.broken.append((name, detail))

    # -- Coq ------------------------------------------------------------------------
    def coqc(self, path, timeout=COQ_TIMEOUT, extra=()):
        cmd = ["coqc", "-Q", COQ, "QV", "-Q", self.work, f"W{self.pid}", *extra, path]
        try:
            p = subprocess.run(
                ["timeout", str(timeout)] + cmd,
                capture_output=True,
                text=True,
                cwd=self.work,
            )
            if p.returncode == 124:
                # ran out of time (loaded machine): one retry with a five times longer limit
                self.bump("coqc_retried_after_timeout")
                p = subprocess.run(["timeout", str(5 * timeout)] + cmd, capture_output=True, text=True, cwd=self.work)
                if p.returncode == 124:
                    return 124, p.stdout, f"coqc timed out twice ({timeout}s, {5 * timeout}s) on {os.path.basename(path)}"
            return p.returncode, p.stdout, p.stderr
        except Exception as e:  # pragma: no cover
            return 99, "", repr(e)

    def make(self, targets, timeout=1800):
        """Bring the listed .vo files up to date, in the order given (the list
        must be in dependency order; files outside it - Base/* - are built by
        setup).  Each file is compiled with coqc when its .vo is missing, older
        than its .v, or an earlier file of the list was just rebuilt.  A lock
        serialises concurrent checks."""
        import fcntl

        out = []
        rc = 0
        with open(os.path.join(COQ, ".lock"), "w") as lk:
            fcntl.flock(lk, fcntl.LOCK_EX)
            rebuilt = False
            for t in targets:
                v = os.path.join(COQ, t[:-1])
                vo = os.path.join(COQ, t)
                if not os.path.exists(v):
                    rc = 1
                    out.append(f"missing source {v}")
                    break
                stale = (not os.path.exists(vo)) or os.path.getmtime(v) > os.path.getmtime(vo) or rebuilt
                if not stale:
                    continue
                p = subprocess.run(
                    ["timeout", str(timeout), "coqc", "-Q", COQ, "QV", v],
                    capture_output=True, text=True, cwd=COQ,
                )
                rebuilt = True
                if p.returncode != 0:
                    rc = p.returncode
                    out.append(f"coqc {t} failed:\n" + (p.stdout + p.stderr)[-2500:])
                    try:
                        os.remove(vo)
                    except OSError:
                        pass
                    break
        return rc, "\n".join(out)

    def regen(self, relpath, text):
        """Write a regenerated model file under coq/ if its text changed."""
        path = os.path.join(COQ, relpath)
        os.makedirs(os.path.dirname(path), exist_ok=True)
        old = None
        if os.path.exists(path):
            with open(path) as f:
                old = f.read()
        if old != text:
            with open(path, "w") as f:
                f.write(text)
            return True
        return False

    def grep_gate(self):
        pat = re.compile(
            r"\b(Admitted|admit|Axiom|Axioms|Parameter|Parameters|Conjecture|"
            r"Admit Obligations|Unset Guard Checking|bypass_check|"
            r"Unset Positivity Checking|Unset Universe Checking)\b"
        )
        bad = []
        for root, _, files in os.walk(COQ):
            for fn in files:
                if fn.endswith(".v"):
                    p = os.path.join(root, fn)
                    with open(p) as f:
                        for i, line in enumerate(f, 1):
                            s = re.sub(r"\(\*.*?\*\)", "", line)
                            if pat.search(s):
                                bad.append(f"{p}:{i}:{line.strip()}")
        if bad:
            self.broken_obligation("grep_gate", bad[:5])
        return bad

    def check_props(self, modules, allowed_extra=()):
        """(Re)build the given logical modules (e.g. ['C16/Proofs.vo']) and then
        compile the property file(s) given as the last entries named Props*.v,
        parsing Print Assumptions.  Every `Theorem` in a Props file is one
        obligation; it is discharged iff the file compiles and the theorem's
        assumptions are closed or all allowed."""
        t = time.time()
        self.grep_gate()
        vo = [m for m in modules if m.endswith(".vo")]
        if vo:
            rc, out = self.make(vo)
            if rc != 0:
                self.broken_obligation("make " + " ".join(vo), out[-3000:])
        props = [m for m in modules if m.endswith(".v")]
        for rel in props:
            path = os.path.join(COQ, rel)
            with open(path) as f:
                src = f.read()
            names = re.findall(r"^\s*(?:Theorem|Lemma|Corollary)\s+([A-Za-z0-9_']+)", src, re.M)
            self.obligations += len(names)
            rc, out, err = self.coqc_in_place(path)
            if rc != 0:
                self.broken_obligation(rel, (out + err)[-3000:])
                # find which theorems still check: the first failing one breaks the file
                continue
            # parse Print Assumptions blocks in order
            blocks = self._parse_assumptions(out)
            allowed = ALLOWED_AXIOMS | set(allowed_extra)
            pa = re.findall(r"Print Assumptions\s+([A-Za-z0-9_']+)", src)
            for i, nm in enumerate(names):
                if nm in pa and pa.index(nm) < len(blocks):
                    ax = blocks[pa.index(nm)]
                else:
                    ax = None
                if ax is None:
                    self.broken_obligation(nm, "no Print Assumptions output")
                    continue
                bad = [a for a in ax if a.split(" ")[0].split(":")[0].strip() not in allowed]
                if bad:
                    self.broken_obligation(nm, f"unexpected assumptions {bad}")
                else:
                    self.discharged += 1
                    self.theorems.append(nm)
                    for a in ax:
                        self.axioms_seen.setdefault(a.split(":")[0].strip(), []).append(nm)
        self.extra.setdefault("coq_wall_s", 0)
        self.extra["coq_wall_s"] += round(time.time() - t, 2)

    def coqc_in_place(self, path, timeout=COQ_TIMEOUT):
        # compile into the work dir so that concurrent checks never race on .vo
        base = os.path.basename(path)
        dst = os.path.join(self.work, "P_" + base)
        with open(path) as f:
            src = f.read()
        with open(dst, "w") as f:
            f.write(src)
        return self.coqc(dst, timeout=timeout)

    @staticmethod
    def _parse_assumptions(out):
        blocks = []
        cur = None
        for line in out.splitlines():
            if line.startswith("Closed under the global context"):
                if cur is not None:
                    blocks.append(cur)
                    cur = None
                blocks.append([])
            elif line.startswith("Axioms:"):
                if cur is not None:
                    blocks.append(cur)
                cur = []
            elif cur is not None:
                if re.match(r"^[A-Za-z_][A-Za-z0-9_'.]*\s*:", line):
                    cur.append(line.strip())
                elif line.startswith(" ") or line.strip() == "":
                    # continuation of a type
                    pass
                else:
                    blocks.append(cur)
                    cur = None
        if cur is not None:
            blocks.append(cur)
        return blocks

    def coq_cases(self, name, header, cases, shard=400, timeout=COQ_TIMEOUT, jobs=8):
        """cases: list of (case_id:int, coq_bool_expr:str).  Returns
        (failed_ids, errors).  Each shard file evaluates, with vm_compute, the
        list of ids whose expression is not `true`."""
        shards = [cases[i : i + shard] for i in range(0, len(cases), shard)]
        procs = []
        failed, errors = [], []
        for si, sh in enumerate(shards):
            lines = [header, "Open Scope Z_scope.", "Definition cases : list (Z * bool) := ["]
            lines.append(";\n".join(f"  ({zlit(cid)}, ({expr}))" for cid, expr in sh))
            lines.append("].")
            lines.append(
                "Definition failing := map fst (filter (fun p => negb (snd p)) cases)."
            )
            lines.append("Eval vm_compute in failing.")
            path = os.path.join(self.work, f"cases_{name}_{si}.v")
            with open(path, "w") as f:
                f.write("\n".join(lines) + "\n")
            procs.append((path, sh))
        # run in parallel
        running = []
        results = {}

        def launch(path):
            cmd = ["timeout", str(timeout), "coqc", "-Q", COQ, "QV", path]
            return subprocess.Popen(
                cmd, stdout=subprocess.PIPE, stderr=subprocess.PIPE, text=True, cwd=self.work
            )

        queue = list(procs)
        while queue or running:
            while queue and len(running) < jobs:
                path, sh = queue.pop(0)
                running.append((path, sh, launch(path)))
            path, sh, pr = running.pop(0)
            out, err = pr.communicate()
            results[path] = (pr.returncode, out, err, sh)
        for path, (rc, out, err, sh) in list(results.items()):
            if rc == 124:
                # the evaluation ran out of time (a loaded machine, not a disagreement): retry once, alone, with a
                # five times longer limit before reporting the shard as an obligation that no longer checks
                self.bump("coq_shard_retried_after_timeout")
                pr = subprocess.run(["timeout", str(5 * timeout), "coqc", "-Q", COQ, "QV", path],
                                    capture_output=True, text=True, cwd=self.work)
                rc, out, err = pr.returncode, pr.stdout, pr.stderr
                if rc == 124:
                    err = f"coqc timed out twice ({timeout}s, {5 * timeout}s) on {os.path.basename(path)}"
            if rc != 0:
                errors.append((path, (out + err)[-2000:]))
                continue
            m = re.search(r"=\s*(\[.*?\])\s*:\s*list Z", out.replace("\n", " "), re.S)
            if not m:
                errors.append((path, "unparsed: " + out[-500:]))
                continue
            ids = [int(x) for x in re.findall(r"-?\d+", m.group(1))]
            failed.extend(ids)
        self.traces += len(cases) - len(failed)
        return failed, errors

    def coq_eval(self, name, text, timeout=COQ_TIMEOUT):
        path = os.path.join(self.work, f"eval_{name}.v")
        with open(path, "w") as f:
            f.write(text)
        return self.coqc(path, timeout=timeout)

    # -- finish ---------------------------------------------------------------------
    def finish(self):
        # obligations that broke without a concrete failing input
        if self.broken and not self.violations:
            names = [b[0] for b in self.broken]
            self.violation(
                "broken:" + ",".join(names)[:200],
                "proof obligation / correspondence no longer checks",
                {"broken": self.broken},
                found_input=False,
            )
        elif self.broken:
            # attach the broken obligations to the first violation's replay
            try:
                with open(self.violations[0][2]) as f:
                    d = json.load(f)
                d["broken_obligations"] = self.broken
                with open(self.violations[0][2], "w") as f:
                    json.dump(d, f, indent=1, default=str)
            except Exception:
                pass
        for key, what in self.known_hits:
            print(f"KNOWN-FINDING: property={self.pid} {key}: {what}")
        tb = list(self.trusted_base)
        if self.axioms_seen:
            tb.append(
                "Print Assumptions (standard-library axioms only): "
                + "; ".join(f"{a} <- {sorted(set(v))[:4]}" for a, v in sorted(self.axioms_seen.items()))
            )
        else:
            tb.append("Print Assumptions: every property theorem is closed under the global context")
        cov = {
            "obligations": self.obligations,
            "discharged": self.discharged,
            "checker_cmd": f"./check {self.pid} --tier {self.tier}  (coqc -Q coq QV coq/{self.pid}/Props.v ; Print Assumptions)",
            "trusted_base": tb,
            "theorems": self.theorems,
            "evaluations": self.evaluations,
            "distinct_nontrivial": len(self.distinct),
            "rule": self.extra.pop("rule", ""),
            "samples": self.samples or ["(no correspondence cases in this run)"],
            "traces_validated_against_impl": self.traces,
            "input_distribution": self.hist,
            "broken_obligations": [b[0] for b in self.broken],
            "known_findings_hit": [k for k, _ in self.known_hits],
        }
        cov.update(self.extra)
        ev = {
            "property_id": self.pid,
            "tier": self.tier,
            "seed": self.seed,
            "level": self.level,
            "coverage": cov,
            "assumptions": self.assumptions,
            "wall_s": round(time.time() - self.t0, 2),
            "violations": len(self.violations),
        }
        with open(os.path.join(EVID, f"{self.pid}.json"), "w") as f:
            json.dump(ev, f, indent=1, default=str)
        for key, what, path, found in self.violations:
            tail = "" if found else " no-failing-input-found"
            print(f"VIOLATION property={self.pid} replay={path}{tail}")
            print(f"  ({key}: {what})")
        print(
            f"[{self.pid}] tier={self.tier} seed={self.seed} obligations={self.obligations} "
            f"discharged={self.discharged} evaluations={self.evaluations} "
            f"distinct={len(self.distinct)} traces={self.traces} violations={len(self.violations)} "
            f"known={len(self.known_hits)} wall={ev['wall_s']}s"
        )
        return 1 if self.violations else 0


def main(module):
    import argparse

    ap = argparse.ArgumentParser()
    ap.add_argument("pid")
    ap.add_argument("--tier", default=os.environ.get("VERIF_TIER", "quick"))
    ap.add_argument("--replay", default=None)
    a = ap.parse_args()
    seed = int(os.environ.get("VERIF_SEED", "0") or 0)
    ctx = Ctx(a.pid, a.tier if a.tier in ("quick", "thorough") else "quick", seed)
    try:
        if a.replay:
            module.replay(ctx, a.replay)
        else:
            module.run(ctx)
    except Exception:
        tb = traceback.format_exc()
        sys.stderr.write(tb)
        ctx.broken_obligation("harness_exception", tb[-3000:])
    rc = ctx.finish()
    sys.stdout.flush()
    return rc

"""C07 sub-model 3: AST inventory of everything that can change what the
queries of a circuit object describe.

Regenerated from source on every run.  For every class of quimb/tensor/circuit
that derives from CircuitBase and every method (own or inherited) it records

  * direct effects: assigns / mutates `self._gates`, `self._psi` (assignment,
    in-place `x_()` call, `.params = ...` on a tensor of it, or handing
    `self._psi` to a function), calls `_set_gate_params`;
  * calls to other methods of `self` / `super()` (call graph, resolved along
    the MRO) and the position of `self.clear_storage()` in the body;
  * readers of `self._storage` / `self._sampled_conditionals` and whether
    `self._maybe_init_storage()` is called before the first read;
  * whether a cached object is handed out un-copied.

A public method is a *mutator* when it (transitively) has a direct effect.  It
is *covered* when it (transitively) appends to `self._gates` - num_gates
changes - or a top-level `self.clear_storage()` statement (plain, or in the
`finally` clause of a top-level try) follows its last mutating statement.  The covered table is emitted as coq/C07/Mutators.v.
"""

import ast
import os

FILES = ["core.py", "exact.py", "mps.py", "peps.py", "pepo.py", "simple_update.py"]
# the simulators the property is about (exact results, cached queries); the simple-update
# PEPS / PEPO classes are approximate and have no cached query - they are listed, not checked
SCOPE = ("CircuitBase", "Circuit", "CircuitDense", "CircuitMPS", "CircuitPermMPS", "CircuitMPSLazy")
INPLACE_OK = {"copy"}  # never mutating even though called on self._psi
GATE_LIST_MUT = {"append", "extend", "insert", "pop", "remove", "clear", "reverse", "sort", "__setitem__"}


def _is_self_attr(node, name):
    return (
        isinstance(node, ast.Attribute)
        and isinstance(node.value, ast.Name)
        and node.value.id == "self"
        and node.attr == name
    )


def _contains_self_attr(node, name):
    return any(_is_self_attr(n, name) for n in ast.walk(node))


class MethodInfo:
    def __init__(self, cls, fn):
        self.cls = cls
        self.name = fn.name
        self.fn = fn
        self.appends = False  # self._gates.append(...)
        self.gates_other = False  # any other mutation / assignment of self._gates
        self.psi_mut = False
        self.set_gate_params = False
        self.calls = []  # (lineno, kind 'self'|'super', name)
        self.clear_top = []  # linenos of top-level self.clear_storage() statements
        self.reads_cache = []  # linenos
        self.maybe_init = []  # linenos
        self.mut_lines = []  # linenos of directly mutating statements
        self.returns_uncopied_cache = False
        self.is_property = any(
            (isinstance(d, ast.Name) and d.id == "property") or (isinstance(d, ast.Attribute) and d.attr in ("setter",))
            for d in fn.decorator_list
        )
        self._scan()

    def _scan(self):
        fn = self.fn
        for st in fn.body:
            if (
                isinstance(st, ast.Expr)
                and isinstance(st.value, ast.Call)
                and isinstance(st.value.func, ast.Attribute)
                and _is_self_attr(st.value.func, "clear_storage")
            ):
                self.clear_top.append(st.lineno)
            # try: ... finally: self.clear_storage()  - runs on every path, after everything in the try body
            if isinstance(st, ast.Try):
                for fs in st.finalbody:
                    if (
                        isinstance(fs, ast.Expr)
                        and isinstance(fs.value, ast.Call)
                        and isinstance(fs.value.func, ast.Attribute)
                        and _is_self_attr(fs.value.func, "clear_storage")
                    ):
                        self.clear_top.append(fs.lineno)
        for node in ast.walk(fn):
            # assignments
            targets = []
            if isinstance(node, ast.Assign):
                targets = node.targets
            elif isinstance(node, (ast.AugAssign, ast.AnnAssign)):
                targets = [node.target]
            for t in targets:
                for sub in ast.walk(t):
                    if _is_self_attr(sub, "_gates"):
                        # plain `self._gates = []` in __init__/copy builds a fresh object: still recorded
                        self.gates_other = True
                        self.mut_lines.append(node.lineno)
                    if _is_self_attr(sub, "_psi"):
                        self.psi_mut = True
                        self.mut_lines.append(node.lineno)
            if isinstance(node, ast.Call):
                f = node.func
                if isinstance(f, ast.Attribute):
                    # self.method(...)
                    if isinstance(f.value, ast.Name) and f.value.id == "self":
                        self.calls.append((node.lineno, "self", f.attr))
                        if f.attr == "_set_gate_params":
                            self.set_gate_params = True
                        if f.attr == "_maybe_init_storage":
                            self.maybe_init.append(node.lineno)
                    # super().method(...)
                    if (
                        isinstance(f.value, ast.Call)
                        and isinstance(f.value.func, ast.Name)
                        and f.value.func.id == "super"
                    ):
                        self.calls.append((node.lineno, "super", f.attr))
                    # self._gates.append(...)
                    if _is_self_attr(f.value, "_gates"):
                        if f.attr == "append":
                            self.appends = True
                            self.mut_lines.append(node.lineno)
                        elif f.attr in GATE_LIST_MUT:
                            self.gates_other = True
                            self.mut_lines.append(node.lineno)
                    # self._psi.something_(...) / apply_to_arrays / add_tag ...
                    if _is_self_attr(f.value, "_psi") and f.attr not in INPLACE_OK:
                        if f.attr.endswith("_") or f.attr in ("apply_to_arrays", "add_tag", "drop_tags", "retag", "reindex"):
                            # (retag / reindex without underscore return copies, but listing them is harmless)
                            if f.attr.endswith("_") or f.attr in ("apply_to_arrays", "add_tag", "drop_tags"):
                                self.psi_mut = True
                                self.mut_lines.append(node.lineno)
                # self._psi handed to a function (positional or keyword)
                handed = [a for a in node.args if _is_self_attr(a, "_psi")] + [
                    k.value for k in node.keywords if _is_self_attr(k.value, "_psi") and k.arg not in ("like",)
                ]
                if handed:
                    fname = ast.unparse(f)
                    if fname not in ("isinstance", "len", "id", "type"):
                        self.psi_mut = True
                        self.mut_lines.append(node.lineno)
            # reads of the caches
            if isinstance(node, (ast.Subscript, ast.Compare)) and (
                _contains_self_attr(node, "_storage") or _contains_self_attr(node, "_sampled_conditionals")
            ):
                self.reads_cache.append(node.lineno)
            if isinstance(node, ast.Return) and node.value is not None:
                v = node.value
                if isinstance(v, ast.Subscript) and _contains_self_attr(v, "_storage"):
                    self.returns_uncopied_cache = True


def scan(repo):
    base = os.path.join(repo, "quimb/tensor/circuit")
    classes = {}  # name -> (bases, {method: MethodInfo}, file)
    for fnm in FILES:
        path = os.path.join(base, fnm)
        if not os.path.exists(path):
            continue
        tree = ast.parse(open(path).read())
        for node in tree.body:
            if isinstance(node, ast.ClassDef):
                bases = [ast.unparse(b).split(".")[-1] for b in node.bases]
                meths = {}
                for it in node.body:
                    if isinstance(it, ast.FunctionDef):
                        # property setters share the getter's name: keep both
                        key = it.name
                        if key in meths:
                            key = key + "#setter"
                        meths[key] = MethodInfo(node.name, it)
                classes[node.name] = (bases, meths, fnm)
    return classes


def mro(classes, name):
    out = []
    stack = [name]
    while stack:
        c = stack.pop(0)
        if c in out or c not in classes:
            continue
        out.append(c)
        stack.extend(classes[c][0])
    return out


def derives_from_base(classes, name):
    return "CircuitBase" in mro(classes, name)


def resolve(classes, cls, meth, after=None):
    """MethodInfo for `meth` looked up on `cls` (or, for super(), after class `after`)."""
    chain = mro(classes, cls)
    if after is not None:
        chain = chain[chain.index(after) + 1 :] if after in chain else []
    for c in chain:
        if meth in classes[c][1]:
            return classes[c][1][meth]
    return None


def analyse(repo):
    classes = scan(repo)
    rows = []  # dicts
    readers_bad = []
    uncopied = []
    for cname in classes:
        if not derives_from_base(classes, cname) or cname not in SCOPE:
            continue
        seen_names = set()
        for c in mro(classes, cname):
            for mname, mi in classes[c][1].items():
                if mname in seen_names:
                    continue
                seen_names.add(mname)
                eff = effects(classes, cname, mi, set())
                if mi.reads_cache:
                    first_read = min(mi.reads_cache)
                    ok = any(l < first_read for l in mi.maybe_init)
                    if not ok and mi.name not in ("clear_storage", "copy", "__init__"):
                        readers_bad.append(f"{c}.{mi.name}")
                if mi.returns_uncopied_cache and mi.name not in ("calc_qubit_ordering",):
                    uncopied.append(f"{c}.{mi.name}")
                if not eff["world"]:
                    continue
                rows.append(
                    {
                        "cls": cname,
                        "defined_in": c,
                        "method": mi.name,
                        "public": not mi.name.startswith("_"),
                        "appends": eff["appends"],
                        "clears": eff["clears"],
                        "covered": eff["appends"] or eff["clears"] or eff.get("delegated", False),
                        "why": eff["why"],
                    }
                )
    return {"rows": rows, "readers_without_init": sorted(set(readers_bad)), "uncopied_returns": sorted(set(uncopied)),
            "classes": sorted(c for c in classes if derives_from_base(classes, c))}


def effects(classes, cls, mi, stack):
    """transitive effects of calling method `mi` on an instance of `cls`:
    world   - (transitively) changes gates / params / psi
    appends - (transitively) appends to self._gates
    clears  - a top-level self.clear_storage() follows the last mutating statement,
              or the method only delegates to callees that are themselves covered"""
    key = (mi.cls, mi.name)
    if key in stack:
        return {"world": False, "appends": False, "clears": False, "why": []}
    stack = stack | {key}
    direct = mi.appends or mi.gates_other or mi.psi_mut or mi.set_gate_params
    world, appends = direct, mi.appends
    why = []
    if mi.appends:
        why.append("self._gates.append")
    if mi.gates_other:
        why.append("assigns self._gates")
    if mi.psi_mut:
        why.append("mutates self._psi")
    last_mut = max(mi.mut_lines) if mi.mut_lines else -1
    callee_cov = []
    for lineno, kind, name in mi.calls:
        if name == "clear_storage":
            continue
        target = resolve(classes, cls, name, after=mi.cls if kind == "super" else None)
        if target is None or target.is_property:
            continue
        sub = effects(classes, cls, target, stack)
        if sub["world"]:
            world = True
            why.append(f"calls {name}")
            appends = appends or sub["appends"]
            last_mut = max(last_mut, lineno)
            callee_cov.append(sub["appends"] or sub["clears"])
    top_clear = world and any(l > last_mut for l in mi.clear_top)
    delegated = (not direct) and bool(callee_cov) and all(callee_cov)
    return {"world": world, "appends": appends, "clears": top_clear or (delegated and not appends), "why": why,
            "delegated": delegated}


# construction / duplication of the object itself: no earlier query can exist on the
# new object (or, for copy, the caches are duplicated together with the state)
CONSTRUCTORS = {"__init__", "copy", "_init_state", "_init_geometry"}


def table(repo):
    """-> (covered_rows, uncovered_rows, info) for public mutators (one row per
    (class, method); inherited methods are listed under every class)."""
    a = analyse(repo)
    cov, unc = [], []
    for r in a["rows"]:
        if r["method"] in CONSTRUCTORS:
            continue
        if not r["public"] and r["method"] != "_apply_gate":
            continue
        (cov if r["covered"] else unc).append(r)
    return cov, unc, a


def private_helpers(repo):
    """private mutating helpers and the public methods through which they are reachable"""
    a = analyse(repo)
    return sorted({f"{r['cls']}.{r['method']}" for r in a["rows"] if not r["public"] and r["method"] not in CONSTRUCTORS})


def emit_coq(cov):
    lines = [
        "(* GENERATED by harness/c07_inventory.py from quimb/tensor/circuit/*.py on every run - do not edit.",
        "   Public methods of the circuit classes that (transitively) assign self._gates / self._psi or call",
        "   _set_gate_params, classified: m_append = appends to self._gates, m_clear = clear_storage() follows. *)",
        "From Coq Require Import List String.",
        "From QV Require Import C07.Model.",
        "Import ListNotations.",
        "Open Scope string_scope.",
        "",
        "Definition mutators : list (string * mut) := [",
    ]
    ent = []
    for r in sorted(cov, key=lambda r: (r["cls"], r["method"])):
        ent.append(
            f'  ("{r["cls"]}.{r["method"]}", {{| m_world := true; m_append := {1 if r["appends"] else 0}; '
            f'm_clear := {"true" if r["clears"] or not r["appends"] else "false"} |}})'
        )
    lines.append(";\n".join(ent))
    lines.append("].")
    return "\n".join(lines) + "\n"


if __name__ == "__main__":
    import json
    import sys

    repo = sys.argv[1] if len(sys.argv) > 1 else "/repo"
    cov, unc, a = table(repo)
    print("classes", a["classes"])
    for r in cov:
        print("COVERED  ", r["cls"], r["method"], "appends" if r["appends"] else "", "clears" if r["clears"] else "", r["why"])
    for r in unc:
        print("UNCOVERED", r["cls"], r["method"], r["why"])
    print("readers without _maybe_init_storage:", a["readers_without_init"])
    print("uncopied cache returns:", a["uncopied_returns"])
    print("private helpers:", private_helpers(repo))

"""C11 - TEBD equals its documented Trotter product and converges at the stated order.

Proof part (coq/C11): (a) executable model of trotter_schedule and of the TEBD
clock / queue state machine (TEBD.__init__/sweep/step/_compute_sweep_dt_tol/
update_to/at_times) with theorems over ALL states / histories: update_to reaches
exactly T, leaves nothing queued and executes (up to merging adjacent
equal-direction sweeps) n full product-formula steps + one final shorter step;
termination; at_times = successive update_to's; schedule fractions sum to one per
layer and orders 2, 4 are palindromic for any number of layers; the Suzuki cubic
over R; the even/odd/boundary colouring covers every bond once.  (b) LocalHam
term algebra: flipping a (j, i) term is swap conjugation and the stored pair terms
(one-site terms distributed) sum to sum(H2) + sum(H1).
Tie (H): random operation histories with dyadic clocks run through the real TEBD
class (gate application observed by rebinding gate_split_ / get_gate_expm on the
instance, t / _dt / _queued_sweep / err read after every call) and through the
model inside Coq; LocalHamGen / LocalHam1D terms on integer matrices vs the model.
Oracle (test/searcher): evolution vs scipy expm of the explicit product formula
and vs exact evolution, norm preservation, imaginary time normalisation, term
sums, gate exponentials, cache freshness, convergence order (thorough).
"""

import math
from fractions import Fraction

import numpy as np

from harness.common import blit, zlit

RULE = (
    "machine: random histories of 1-5 public calls (update_to / at_times / step / sweep incl. queue=True, dt "
    "overrides, tol route, invalid orders / backwards targets / missing dt as must-be-rejected cases) on chains "
    "L=2..7 open and periodic, dyadic clocks (unit 2^-k), orders 1,2,4; exact comparison for orders 1,2 with "
    "power-of-two steps, 2^-30 units otherwise (order-4 coefficient is irrational). Non-trivial: at least one "
    "update_to/at_times whose span is not a multiple of dt or that starts with a queued sweep. hamiltonian: random "
    "graphs / chains with integer matrices, flipped keys, default + site specific one-site terms. oracle: L<=7, "
    "random Hermitian site-dependent non-exchange-symmetric terms."
)

import os

STAGES = [x for x in os.environ.get("C11_STAGES", "").split(",") if x]  # development aid: run a subset
S_FLOAT = 1 / (4 - 4 ** (1 / 3))
COQ_HEADER = (
    "From Coq Require Import ZArith QArith Qabs Qcanon List Bool.\n"
    "From QV Require Import C11.Model.\nImport ListNotations.\nOpen Scope Z_scope.\n"
    "Definition qc (n : Z) (d : positive) : Qc := Q2Qc (n # d).\n"
    "Definition close (eps a b : Qc) : bool := Qle_bool (Qabs (this a - this b)) (this eps).\n"
    "Definition oclose (eps : Qc) (a b : option Qc) : bool := match a, b with Some x, Some y => close eps x y | None, None => true | _, _ => false end.\n"
    "Definition qclose (eps : Qc) (a b : option (dir * Qc)) : bool := match a, b with Some (d, x), Some (e, y) => dir_eqb d e && close eps x y | None, None => true | _, _ => false end.\n"
    "Fixpoint gclose (eps : Qc) (a b : list (Z * Z * Qc)) : bool := match a, b with [] , [] => true\n"
    "  | (i, j, x) :: a', (k, l, y) :: b' => (i =? k) && (j =? l) && close eps x y && gclose eps a' b' | _, _ => false end.\n"
    "Definition err_value (dn : positive) (hn : Qc) (e : list (Z * Z)) : Qc :=\n"
    "  fold_left (fun acc od => (acc + hn * Qcpower (qc (snd od) dn) (Z.to_nat (fst od + 1)))%Qc) e 0%Qc.\n"
    "(* one observation after every call: t, _dt, _queued_sweep, number of gates applied so far *)\n"
    "Fixpoint follow (c : cfg) (s eps : Qc) (ops : list op) (obs : list (Z * option Z * option (dir * Qc) * Z)) (st : state) : option state :=\n"
    "  match ops, obs with\n"
    "  | [], [] => Some st\n"
    "  | o :: ops', (t, cu, q, ng) :: obs' =>\n"
    "      match apply_op c s o st with None => None | Some st1 =>\n"
    "        if (clk st1 =? t) && (match cur st1, cu with Some a, Some b => a =? b | None, None => true | _, _ => false end)\n"
    "           && qclose eps (queued st1) q && (Z.of_nat (length (expand c (log st1))) =? ng)\n"
    "        then follow c s eps ops' obs' st1 else None end\n"
    "  | _, _ => None end.\n"
    "Definition hist_ok (c : cfg) (s eps epserr : Qc) (dn : positive) (hn : Qc) (t0 : Z) (dt0 : option Z) (tol0 : bool)\n"
    "  (ops : list op) (obs : list (Z * option Z * option (dir * Qc) * Z)) (bad : option op)\n"
    "  (gruns : list (Qc * list (Z * Z))) (err : Qc) : bool :=\n"
    "  let gates := flat_map (fun r => map (fun b => (fst b, snd b, fst r)) (snd r)) gruns in\n"
    "  match init t0 dt0 tol0 with None => false | Some st0 =>\n"
    "  match follow c s eps ops obs st0 with None => false | Some st =>\n"
    "    gclose eps (expand c (log st)) gates && close epserr (err_value dn hn (errlog st)) err\n"
    "    && match bad with None => true | Some o => match apply_op c s o st with None => true | Some _ => false end end\n"
    "  end end.\n"
)


def qcl(x):
    x = Fraction(x)
    n, d = x.numerator, x.denominator
    return f"(qc {zlit(n)} {d}%positive)"


def optz(x):
    return "None" if x is None else f"(Some {zlit(x)})"


def optb(x):
    return "None" if x is None else f"(Some {blit(x)})"


def dirl(d):
    return "Right" if d == "right" else "Left"


def cfgl(L, cyclic, lns=1, tolu=0):
    return f"(Build_cfg {zlit(L)} {blit(cyclic)} {zlit(lns)} {zlit(tolu)})"


# ----------------------------------------------------------------------------
# instrumented TEBD


def zz_ham(L, cyclic):
    from quimb.tensor.tn1d.tebd import LocalHam1D

    Z = np.diag([1.0, -1.0])
    return LocalHam1D(L, H2=2 * np.kron(Z, Z), cyclic=cyclic)  # every term has Frobenius norm 4


class _Tagged(np.ndarray):
    """ndarray that keeps a tag through reshape / transpose"""

    def __array_finalize__(self, obj):
        self.tag = getattr(obj, "tag", None)


def traced_tebd(L, cyclic, dt, tol, t0, imag):
    """A real TEBD object whose gate application is observed, not performed:
    H.get_gate_expm and _pt.gate_split_ are rebound on the instances."""
    import quimb.tensor as qtn
    from quimb.tensor.tn1d.tebd import TEBD

    ham = zz_ham(L, cyclic)
    p0 = qtn.MPS_computational_state("0" * L, cyclic=cyclic)
    tb = TEBD(p0, ham, dt=dt, tol=tol, t0=t0, imag=imag, progbar=False)
    rec = []
    marker = np.arange(16, dtype=complex).reshape(4, 4)  # not exchange symmetric

    def fake_expm(where, x):
        # what LocalHamGen would return: the gate of the term stored for the SORTED pair, here a tagged marker
        U = marker.copy().view(_Tagged)
        U.tag = (tuple(where), x)
        return U

    def fake_gate(U, where=None, **kw):
        tag = getattr(U, "tag", None) or ((), None)
        arr = np.asarray(U).reshape(4, 4)
        orient = "stored" if np.array_equal(arr, marker) else ("exchanged" if np.array_equal(arr, flip2(marker)) else "other")
        # a gate applied to (a, b) with a > b must have its two sites exchanged w.r.t. the stored (b, a) term
        ok = orient == ("stored" if where[0] < where[1] else "exchanged")
        rec.append((tuple(where), tag[0], tag[1], ok))
        return tb._pt

    tb.H.get_gate_expm = fake_expm
    tb._pt.gate_split_ = fake_gate
    return tb, rec


def gate_time(x, imag):
    """x = -imag_factor * _dt * dt_frac  ->  _dt * dt_frac (exact)."""
    if imag:
        if isinstance(x, complex):
            if x.imag != 0:
                return None
            x = x.real
        return Fraction(-float(x))
    x = complex(x)
    if x.real != 0:
        return None
    return Fraction(-x.imag)


def is_pow2(n):
    return n > 0 and (n & (n - 1)) == 0


def gen_history(rng, quick):
    L = rng.choice([2, 3, 3, 4, 4, 5, 5, 6, 7])
    cyclic = L >= 3 and rng.random() < 0.35
    k = rng.randint(0, 4)
    D = 2**k
    imag = rng.random() < 0.3
    t0 = rng.choice([0, 0, 0, rng.randint(-8, 8)])
    pow2 = rng.random() < 0.7

    def rand_dt():
        return rng.choice([1, 2, 4, 8]) if pow2 else rng.choice([1, 2, 3, 4, 5, 6, 8, 12])

    mode = rng.choice(["dt"] * 15 + ["tol"] * 3 + ["none"] * 2)
    dt0 = rand_dt() if mode == "dt" else None
    tol0 = mode == "tol"
    if rng.random() < 0.03:
        dt0, tol0 = rand_dt(), True  # constructor must reject
    ops = []
    nops = rng.randint(1, 5)
    for _ in range(nops):
        kind = rng.choice(["upd", "upd", "upd", "at", "step", "sweep"])
        order = rng.choice([1, 2, 2, 4]) if rng.random() > 0.02 else rng.choice([0, 3, 5])
        # mostly well-formed calls; the must-be-rejected combinations (dt and tol, neither, ...) stay a minority
        dtarg = rand_dt() if rng.random() < {"dt": 0.3, "tol": 0.06, "none": 0.93}[mode] else None
        if kind == "upd":
            ops.append({"k": "upd", "span": rng.choice([0, 1, 2, 3, 5, 7, 8, 11, 16, 23, rng.randint(0, 40)]),
                        "back": rng.random() < 0.025, "dt": dtarg, "order": order,
                        "tol": (rng.random() < 0.5) if (dtarg is None and rng.random() < 0.25) else None})
        elif kind == "at":
            n = rng.randint(1, 4)
            spans = [rng.randint(0, 25) for _ in range(n)]
            if rng.random() < 0.3 and n > 1:
                spans[1] = spans[0]
            if rng.random() < 0.05:
                spans = []
            ops.append({"k": "at", "spans": spans, "dt": dtarg, "order": order,
                        "tol": True if (dtarg is None and rng.random() < 0.15) else None})
        elif kind == "step":
            ops.append({"k": "step", "dt": dtarg if rng.random() < 0.5 else None, "order": order,
                        "queue": rng.random() < 0.5})
        else:
            ops.append({"k": "sweep", "dir": rng.choice(["right", "left"]),
                        "frac": Fraction(rng.choice([1, 1, 2, 3, 4, 6]), 4),
                        "dt": dtarg if rng.random() < 0.4 else None, "queue": rng.random() < 0.5})
    return {"L": L, "cyclic": cyclic, "k": k, "imag": imag, "t0": t0, "dt0": dt0, "tol0": tol0, "ops": ops}


HN = 4  # mean Frobenius norm of the terms of zz_ham


def run_history(h):
    """Run one history on the implementation; returns the concrete operations
    (in clock units), the observations and the Coq literals."""
    D = 2 ** h["k"]
    L, cyclic, imag = h["L"], h["cyclic"], h["imag"]
    u = lambda z: None if z is None else z / D  # units -> float (exact)
    tol0_val = 0.0078125 if h["tol0"] else None
    out = {"init_rejected": False, "ops": [], "obs": [], "bad": None, "exact": True, "note": [], "cops": []}
    try:
        tb, rec = traced_tebd(L, cyclic, u(h["dt0"]), tol0_val, u(h["t0"]), imag)
    except ValueError:
        out["init_rejected"] = True
        return out
    units = lambda x: Fraction(x) * D
    for o in h["ops"]:
        t_now = units(tb.t)
        if t_now.denominator != 1:
            out["note"].append("clock left the dyadic grid")
            break
        t_now = int(t_now)
        concrete = None
        call = None
        order = o.get("order")
        if o["k"] == "upd":
            T = t_now - 1 - o["span"] if o["back"] else t_now + o["span"]
            tolarg, chosen, kw = None, 0, {}
            if o["dt"] is not None:
                kw["dt"] = u(o["dt"])
            if o["tol"] is not None:
                if o["tol"] and T > t_now and order in (1, 2, 4):
                    # pick tol so that the documented formula gives a power-of-two step
                    chosen = rng_free_pow2(T - t_now)
                    kw["tol"] = float(Fraction(chosen, D) ** order * Fraction(T - t_now, D) * HN)
                    tolarg = True
                else:
                    kw["tol"] = False
                    tolarg = False
            elif h["tol0"] and o["dt"] is None and h["dt0"] is None:
                # constructor tol is consulted: expected step from the documented formula
                if T > t_now and order in (1, 2, 4):
                    val = (Fraction(tol0_val) / (Fraction(T - t_now, D) * HN))
                    chosen = exact_root(val, order)
                    if chosen is None:
                        out["exact"] = False
                        chosen = Fraction(float(val) ** (1 / order)) * D
                        if chosen.denominator != 1:
                            continue  # step off the clock grid: not representable, skip this op
                        chosen = int(chosen)
                    else:
                        chosen = chosen * D
                        if chosen.denominator != 1:
                            continue
                        chosen = int(chosen)
                else:
                    continue  # tol route with zero / negative span divides by zero: outside the domain
            concrete = f"(OUpdateTo {zlit(T)} {optz(o['dt'])} {optb(tolarg)} {zlit(chosen)} {zlit(order)})"
            cop = {"k": "upd", "ts": [T], "dt": o["dt"], "tolarg": tolarg, "chosen": chosen, "order": order, "kw": dict(kw)}
            call = lambda: tb.update_to(u(T), order=order, **kw)
        elif o["k"] == "at":
            ts = [t_now + s for s in o["spans"]]
            tolarg, chosen, kw = None, 0, {}
            if o["dt"] is not None:
                kw["dt"] = u(o["dt"])
            uses_tol = (o["tol"] or (h["tol0"] and h["dt0"] is None)) and o["dt"] is None
            if uses_tol:
                if not ts or max(ts) <= t_now or order not in (1, 2, 4):
                    continue
                span = Fraction(max(ts) - t_now, D)
                if o["tol"]:
                    chosen = rng_free_pow2(max(ts) - t_now)
                    kw["tol"] = float(Fraction(chosen, D) ** order * span * HN)
                    tolarg = True
                else:
                    val = Fraction(tol0_val) / (span * HN)
                    c = exact_root(val, order)
                    if c is None or (c * D).denominator != 1:
                        continue
                    chosen = int(c * D)
            concrete = (f"(OAtTimes [{'; '.join(zlit(t) for t in ts)}] {optz(o['dt'])} {optb(tolarg)} "
                        f"{zlit(chosen)} {zlit(order)})")
            cop = {"k": "at", "ts": list(ts), "dt": o["dt"], "tolarg": tolarg, "chosen": chosen, "order": order, "kw": dict(kw)}
            call = lambda: [None for _ in tb.at_times([u(t) for t in ts], order=order, progbar=False, **kw)]
        elif o["k"] == "step":
            concrete = f"(OStep {zlit(order)} {optz(o['dt'])} {blit(o['queue'])})"
            cop = {"k": "step", "dt": o["dt"], "order": order, "queue": o["queue"]}
            call = lambda: tb.step(order=order, dt=u(o["dt"]), queue=o["queue"])
        else:
            concrete = (f"(OSweep {dirl(o['dir'])} {qcl(o['frac'])} {optz(o['dt'])} {blit(o['queue'])})")
            cop = {"k": "sweep", "dir": o["dir"], "frac": o["frac"], "dt": o["dt"], "queue": o["queue"]}
            call = lambda: tb.sweep(o["dir"], float(o["frac"]), dt=u(o["dt"]), queue=o["queue"])
        if order == 4 or (o.get("dt") is not None and not is_pow2(o["dt"])):
            out["exact"] = False
        out["cops"].append(cop)
        try:
            call()
        except (ValueError, NotImplementedError, TypeError, ZeroDivisionError, IndexError) as e:
            out["bad"] = concrete
            out["bad_exc"] = type(e).__name__
            break
        t_after = units(tb.t)
        cur = None if tb._dt is None else units(tb._dt)
        if t_after.denominator != 1 or (cur is not None and cur.denominator != 1):
            out["note"].append("clock left the dyadic grid")
            out["offgrid"] = concrete
            break
        if cur is not None and not is_pow2(int(cur)):
            out["exact"] = False
        q = getattr(tb, "_queued_sweep", None)
        qobs = None if not q else (q[0], Fraction(float(q[1])))
        out["ops"].append(concrete)
        out["obs"].append((int(t_after), None if cur is None else int(cur), qobs, len(rec)))
    if h["dt0"] is not None and not is_pow2(h["dt0"]):
        out["exact"] = False
    gates = []
    out["orientation_bad"] = sorted({where for where, _, _, ok in rec if not ok})
    for where, w2, x, _ in rec:
        tau = None if x is None else gate_time(x, imag)
        if where != w2 or tau is None:
            out["note"].append("gate fetched for other sites than it is applied to / wrong phase")
            tau = Fraction(10**6)
        gates.append((where[0], where[1], tau * D))
    out["gates"] = gates
    out["err"] = Fraction(float(tb.err))
    return out


def rng_free_pow2(span_units):
    """a power-of-two step (in units) not larger than the span"""
    if span_units < 1:
        return None
    p = 1
    while p * 2 <= span_units and p < 8:
        p *= 2
    return p


def exact_root(val, order):
    """val ** (1/order) as a Fraction if it is exactly a rational power, else None"""
    val = Fraction(val)
    if val <= 0:
        return None

    def iroot(n):
        r = round(n ** (1.0 / order))
        for c in (r - 1, r, r + 1):
            if c >= 0 and c**order == n:
                return c
        return None

    a, b = iroot(val.numerator), iroot(val.denominator)
    if a is None or b is None:
        return None
    return Fraction(a, b)


class _Reject(Exception):
    pass


def ideal_history(h, cops):
    """The documented meaning of a history, with no queue and no model: yields after every call the list of
    (direction, time) layer applications requested so far and the clock (all in clock units, exact).
    Raises _Reject where the documentation says the call is invalid; returns early where it is silent."""
    t, dflt, tol0 = h["t0"], h["dt0"], h["tol0"]
    cur = dflt
    ev = []
    steps = []  # (order, length) of every product-formula step taken

    def formula(order, length):
        steps.append((order, length))
        return [(("right", "left")[k], Fraction(f) * length) for k, f in ref_schedule(order)]

    for c in cops:
        if c["k"] in ("upd", "at"):
            dt = c["dt"] if c["dt"] is not None else dflt
            tol = tol0 if c["tolarg"] is None else c["tolarg"]
            if (not dt and not tol) or (dt and tol) or c["order"] not in (1, 2, 4) or not c["ts"]:
                raise _Reject()
            d = dt if dt else c["chosen"]
            if d < 1:
                return
            for T in sorted(c["ts"]):
                if T < t:
                    raise _Reject()
                n = max(0, -((t - T) // d) - 1)
                for _ in range(n):
                    ev += formula(c["order"], d)
                ev += formula(c["order"], T - (t + n * d))
                t = T
            cur = d
        elif c["k"] == "step":
            if c["order"] not in (1, 2, 4):
                raise _Reject()
            d = c["dt"] if c["dt"] is not None else cur
            if d is None or cur is None:
                return
            ev += formula(c["order"], d)
            t += d
        else:
            d = c["dt"] if c["dt"] is not None else cur
            if d is None or cur is None:
                return
            ev.append((c["dir"], Fraction(c["frac"]) * d))
        yield list(ev), t, list(steps)


def search_history(ctx, h, cops):
    """searcher: replay the calls of a history whose trace disagreed with the model on a REAL state (open chain,
    real time, non-commuting terms of Frobenius norm 4) and compare, whenever nothing is queued, with the explicit
    product of the layer applications the documentation asks for"""
    import quimb.tensor as qtn
    from quimb.tensor.tn1d.tebd import TEBD, LocalHam1D

    D = 2 ** h["k"]
    L = min(h["L"], 5)
    nrng = np.random.default_rng(ctx.seed + 77)
    H2 = {}
    for i in range(L - 1):
        X = rand_herm(nrng, 4)
        H2[(i, i + 1)] = 4 * X / np.linalg.norm(X)
    ham = LocalHam1D(L, H2=H2)
    ref = DenseRef(L, False, H2, False)
    p0 = qtn.MPS_rand_state(L, 2, dtype=complex, seed=3)
    v0 = dense_vec(p0)
    u = lambda z: None if z is None else z / D
    tol0_val = 0.0078125 if h["tol0"] else None
    desc = {"history": h, "calls": [{k: (str(v) if isinstance(v, Fraction) else v) for k, v in c.items()} for c in cops],
            "clock_unit": f"1/{D}", "replayed_on": f"open chain L={L}, real time, random Hermitian terms of norm 4"}
    try:
        tb = TEBD(p0, ham, dt=u(h["dt0"]), tol=tol0_val, t0=u(h["t0"]), progbar=False, split_opts={"cutoff": 0.0})
    except ValueError:
        return False
    ideal = ideal_history(h, cops)
    for i, c in enumerate(cops):
        try:
            want = next(ideal)
        except _Reject:
            want = "reject"
        except StopIteration:
            return False
        try:
            if c["k"] == "upd":
                tb.update_to(u(c["ts"][0]), order=c["order"], **c["kw"])
            elif c["k"] == "at":
                for _ in tb.at_times([u(t) for t in c["ts"]], order=c["order"], progbar=False, **c["kw"]):
                    pass
            elif c["k"] == "step":
                tb.step(order=c["order"], dt=u(c["dt"]), queue=c["queue"])
            else:
                tb.sweep(c["dir"], float(c["frac"]), dt=u(c["dt"]), queue=c["queue"])
        except Exception as e:
            if want != "reject":
                ctx.violation("tebd:history:valid_call_raised", f"call {i} raised {type(e).__name__}: {e}", {**desc, "call": i})
                return True
            return False
        if want == "reject":
            ctx.violation("tebd:history:invalid_call_accepted", f"call {i} should have been rejected", {**desc, "call": i})
            return True
        events, t, steps = want
        err_doc = float(ham.mean_norm()) * sum(float(Fraction(ln, D)) ** (o + 1) for o, ln in steps)
        if abs(float(tb.err) - err_doc) > 1e-9 * (1 + abs(err_doc)):
            ctx.violation("tebd:history:err", f"after call {i} err = {float(tb.err)!r}, documented sum of norm * dt ** (order + 1) = {err_doc!r}",
                          {**desc, "call": i})
            return True
        if Fraction(float(tb.t)) * D != t:
            ctx.violation("tebd:history:clock", f"after call {i} the clock reads {tb.t!r}, documented {t}/{D}", {**desc, "call": i})
            return True
        if getattr(tb, "_queued_sweep", None):
            continue
        v = v0
        for direction, tau in events:
            for bond in ref.layers[0 if direction == "right" else 1]:
                v = ref.gate(bond, float(tau / D)) @ v
        dist = np.linalg.norm(dense_vec(tb.pt) - v)
        if dist > 1e-8:
            ctx.violation("tebd:history:state_differs_from_documented_product",
                          f"after call {i} the state differs from the product of the requested layer applications by {dist:.2e}",
                          {**desc, "call": i, "distance": float(dist)})
            return True
    return False


def load_corpus():
    """minimised past failures (found while seeding mutants of the anchored code): run first"""
    import glob
    import json

    out = []
    for path in sorted(glob.glob(os.path.join(os.path.dirname(os.path.dirname(os.path.abspath(__file__))), "corpus", "C11", "*.json"))):
        with open(path) as f:
            for h in json.load(f).get("histories", []):
                for o in h["ops"]:
                    if "frac" in o:
                        o["frac"] = Fraction(o["frac"])
                out.append(h)
    return out


def machine_stream(ctx, only=None):
    rng = ctx.rng
    fixed = list(only) if only is not None else load_corpus()
    N = len(fixed) + (0 if only is not None else ctx.n(300, 3000))
    cases, info, cops_by_id = [], {}, {}
    s_lit = qcl(Fraction(S_FLOAT))
    for cid in range(1, N + 1):
        h = fixed[cid - 1] if cid <= len(fixed) else gen_history(rng, ctx.quick)
        try:
            r = run_history(h)
        except Exception as e:  # an exception class the model does not know: report with the history
            ctx.violation("tebd:history:unexpected_exception", f"{type(e).__name__}: {e}", {"history": h})
            continue
        kinds = "+".join(o["k"] for o in h["ops"])
        ctx.bump("hist_" + ("cyclic" if h["cyclic"] else "open"))
        nontriv = any(
            (o["k"] == "upd" and not o["back"] and o["span"] % max(1, (o["dt"] or h["dt0"] or 1)) != 0) or o["k"] == "at"
            or (o["k"] in ("step", "sweep") and o["queue"]) for o in h["ops"])
        ctx.count(("hist", h["L"], h["cyclic"], h["k"], h["t0"], h["dt0"], h["tol0"], kinds, str(h["ops"])), nontriv)
        if r["init_rejected"]:
            ctx.bump("init_rejected")
            info[cid] = {"history": h, "impl": "constructor raised"}
            cases.append((cid, f"match init {zlit(h['t0'])} {optz(h['dt0'])} {blit(h['tol0'])} with None => true | Some _ => false end"))
            continue
        if r["bad"]:
            ctx.bump("rejected_" + r.get("bad_exc", "?"))
        if r.get("orientation_bad"):
            bonds = r["orientation_bad"]
            boundary_only = h["cyclic"] and all(b == (h["L"] - 1, 0) for b in bonds)
            ctx.violation("tebd.sweep:cyclic:boundary_gate_sites_exchanged" if boundary_only else "tebd.sweep:gate_sites_exchanged",
                          f"the gate of the term stored for the sorted pair is applied to {bonds} without exchanging its two sites",
                          {"history": h, "bonds": bonds})
        if r["note"]:
            ctx.bump("noted")
        eps = "0%Qc" if r["exact"] else qcl(Fraction(1, 2**30))
        ctx.bump("exact" if r["exact"] else "tolerance_2^-30")
        D = 2 ** h["k"]
        obs = "[" + "; ".join(
            f"({zlit(t)}, {optz(c)}, {'None' if q is None else '(Some (' + dirl(q[0]) + ', ' + qcl(q[1]) + '))'}, {zlit(ng)})"
            for t, c, q, ng in r["obs"]) + "]"
        runs = []  # consecutive gates with the same time share one rational literal
        for a, b, x in r["gates"]:
            if runs and runs[-1][0] == x:
                runs[-1][1].append((a, b))
            else:
                runs.append((x, [(a, b)]))
        gates = "[" + "; ".join(f"({qcl(x)}, [" + "; ".join(f"({zlit(a)}, {zlit(b)})" for a, b in bs) + "])" for x, bs in runs) + "]"
        epserr = qcl(Fraction(1, 10**12) * (1 + abs(r["err"])))
        expr = (f"hist_ok {cfgl(h['L'], h['cyclic'])} {s_lit} {eps} {epserr} {D}%positive {qcl(HN)} {zlit(h['t0'])} "
                f"{optz(h['dt0'])} {blit(h['tol0'])} [{'; '.join(r['ops'])}] {obs} "
                f"{'None' if not r['bad'] else '(Some ' + r['bad'] + ')'} {gates} {qcl(r['err'])}")
        if r.get("offgrid"):
            expr = "false"
        info[cid] = {"history": h, "impl_obs": [str(x) for x in r["obs"]], "impl_gates": len(r["gates"]),
                     "rejected_op": r["bad"], "notes": r["note"], "ops": r["ops"]}
        cops_by_id[cid] = r["cops"]
        cases.append((cid, expr))
        if cid <= 2:
            ctx.sample({"history": str(h), "ops": r["ops"], "obs": [str(x) for x in r["obs"]], "ngates": len(r["gates"])})
    def finish():
        failed, errors = ctx.coq_cases("machine", COQ_HEADER, cases, shard=ctx.n(150, 400))
        for path, err in errors:
            ctx.broken_obligation("correspondence:machine:" + path.split("/")[-1], err)
        for c in failed[:4]:
            ctx.broken_obligation("correspondence:tebd_machine_model_vs_impl", info[c])
        # searcher: look for a concrete wrong state / clock among the disagreeing histories (shortest first)
        found = 0
        for c in sorted(failed, key=lambda c: len(cops_by_id.get(c, [])))[:12]:
            if c in cops_by_id and ctx.stage(lambda _ctx: search_history(ctx, info[c]["history"], cops_by_id[c])):
                found += 1
                if found >= 2:
                    break

    return finish


def schedule_stream(ctx):
    """trotter_schedule(nlayers, order) for any number of layers vs the model (TEBD itself uses nlayers = 2),
    plus the layer sequence LocalHamGen.get_trotter_gates applies (fuse_adjacent = the merge rule)"""
    from quimb.tensor.tnag.tebd import LocalHamGen, trotter_schedule

    hdr = (
        "From Coq Require Import ZArith QArith Qabs Qcanon List Bool.\n"
        "From QV Require Import C11.Model.\nImport ListNotations.\nOpen Scope Z_scope.\n"
        "Definition qc (n : Z) (d : positive) : Qc := Q2Qc (n # d).\n"
        "Definition close (eps a b : Qc) : bool := Qle_bool (Qabs (this a - this b)) (this eps).\n"
        "Fixpoint sclose (eps : Qc) (a : list (nat * Qc)) (b : list (Z * Qc)) : bool := match a, b with [], [] => true\n"
        "  | (k, x) :: a', (l, y) :: b' => (Z.of_nat k =? l) && close eps x y && sclose eps a' b' | _, _ => false end.\n"
        "Definition osclose eps a b := match a, b with Some x, Some y => sclose eps x y | None, None => true | _, _ => false end.\n"
        "(* fuse_adjacent: consecutive entries of the same layer add *)\n"
        "Definition pushk (acc : list (nat * Qc)) (e : nat * Qc) := match acc with\n"
        "  | (k, f) :: r => if Nat.eqb (fst e) k then (k, (f + snd e)%Qc) :: r else e :: acc | [] => [e] end.\n"
        "Definition fused (l : list (nat * Qc)) (steps : nat) := rev (fold_left pushk (repeat_app l steps) []).\n"
        "Definition ofused (o : option (list (nat * Qc))) steps := match o with Some l => Some (fused l steps) | None => None end.\n"
    )
    s_lit = qcl(Fraction(S_FLOAT))
    cases, info = [], {}
    cid = 0
    for n in range(0, ctx.n(5, 9)):
        for order in (1, 2, 4, 3, 0):
            cid += 1
            ctx.count(("sched", n, order), n >= 2 and order in (1, 2, 4))
            ctx.bump("schedule")
            try:
                impl = trotter_schedule(n, order)
                lit = "(Some [" + "; ".join(f"({zlit(k)}, {qcl(Fraction(float(f)))})" for k, f in impl) + "])"
            except ValueError:
                impl, lit = None, "None"
            eps = "0%Qc" if order != 4 else qcl(Fraction(1, 2**40))
            info[cid] = {"nlayers": n, "order": order, "impl": str(impl)}
            cases.append((cid, f"osclose {eps} (sched {s_lit} {n}%nat {zlit(order)}) {lit}"))
    # get_trotter_gates on a 4-cycle with explicit layers
    Z = np.diag([1.0, -1.0])
    ham = LocalHamGen({(0, 1): np.kron(Z, Z), (1, 2): np.kron(Z, Z), (2, 3): np.kron(Z, Z), (0, 3): np.kron(Z, Z)})
    layerings = [[[(0, 1), (2, 3)], [(1, 2), (0, 3)]], [[(0, 1)], [(1, 2)], [(2, 3), ], [(0, 3)]], [[(0, 1), (2, 3)], [(1, 2)], [(0, 3)]]]
    for layers in layerings:
        for order in (1, 2, 4):
            for steps in (1, 2, 3):
                for fuse in (True, False):
                    cid += 1
                    ctx.count(("trotter_gates", len(layers), order, steps, fuse), True)
                    ctx.bump("get_trotter_gates")
                    gates = ham.get_trotter_gates(1.0, order=order, steps=steps, ordering=layers, fuse_adjacent=fuse)
                    # direct oracle: over the whole sequence every pair is exponentiated for exactly `steps`
                    tot = {}
                    for g in gates:
                        tot[tuple(g.where)] = tot.get(tuple(g.where), 0.0) + float(g.frac)
                    if set(tot) != set(ham.terms) or any(abs(v - steps) > 1e-12 for v in tot.values()):
                        ctx.violation("localham.get_trotter_gates:pair_fraction_sum",
                                      "the fractions a pair is exponentiated with do not add up to the number of steps",
                                      {"layers": layers, "order": order, "steps": steps, "fuse_adjacent": fuse,
                                       "totals": {str(k): v for k, v in tot.items()}})
                    seq, ok = [], True
                    for g in gates:
                        k = [i for i, lay in enumerate(layers) if tuple(g.where) in [tuple(w) for w in lay]]
                        if len(k) != 1:
                            ok = False
                            break
                        if not seq or seq[-1][2] != g.layer:
                            seq.append((k[0], Fraction(float(g.frac)), g.layer, 1))
                        else:
                            seq[-1] = (*seq[-1][:3], seq[-1][3] + 1)
                    ok = ok and all(cnt == len(layers[k]) for k, _, _, cnt in seq)
                    lit = "(Some [" + "; ".join(f"({zlit(k)}, {qcl(f)})" for k, f, _, _ in seq) + "])"
                    eps = "0%Qc" if order != 4 else qcl(Fraction(1, 2**40))
                    model = f"sched {s_lit} {len(layers)}%nat {zlit(order)}"
                    model = f"ofused ({model}) {steps}%nat" if fuse else f"option_map (fun l => repeat_app l {steps}%nat) ({model})"
                    info[cid] = {"layers": layers, "order": order, "steps": steps, "fuse_adjacent": fuse, "impl": str(seq)}
                    cases.append((cid, f"osclose {eps} ({model}) {lit}" if ok else "false"))

    def finish():
        failed, errors = ctx.coq_cases("sched", hdr, cases, shard=400)
        for path, err in errors:
            ctx.broken_obligation("correspondence:sched:" + path.split("/")[-1], err)
        for c in failed[:3]:
            ctx.broken_obligation("correspondence:trotter_schedule_model_vs_impl", info[c])

    return finish


# ----------------------------------------------------------------------------
# LocalHamGen / LocalHam1D term algebra


HAM_HEADER = (
    "From Coq Require Import ZArith QArith Qcanon List Bool.\n"
    "From QV Require Import C11.Model C11.HamModel.\nImport ListNotations.\nOpen Scope Z_scope.\n"
    "Definition mk (n : nat) (l : list Z) : mat := fun r c => zq (nth (r * n + c) l 0).\n"
    "Fixpoint ql_eqb (a : list Qc) (b : list Z) : bool := match a, b with [], [] => true\n"
    "  | x :: a', y :: b' => Qc_eq_bool x (zq y) && ql_eqb a' b' | _, _ => false end.\n"
    "Fixpoint dict_eqb (n : nat) (a : dict) (b : list (key * list Z)) : bool := match a, b with [], [] => true\n"
    "  | (k, x) :: a', (k', y) :: b' => key_eqb k k' && ql_eqb (tab n x) y && dict_eqb n a' b' | _, _ => false end.\n"
    "Definition odict_eqb (n : nat) (a : option dict) (b : option (list (key * list Z))) : bool :=\n"
    "  match a, b with Some x, Some y => dict_eqb n x y | None, None => true | _, _ => false end.\n"
)


def int_mat(rng, n, scale=1, lo=-3, hi=3):
    return np.array([[float(scale * rng.randint(lo, hi)) for _ in range(n)] for _ in range(n)])


def zl(m):
    out = []
    for x in np.asarray(m).ravel():
        f = Fraction(float(x))
        if f.denominator != 1:
            return None
        out.append(int(f))
    return "[" + "; ".join(zlit(v) for v in out) + "]"


def dense_embed(X, d, sites, where):
    """X acting on the listed sites (in that order) of the ordered site list"""
    import quimb as qu

    n = len(sites)
    return np.asarray(qu.pkron(np.asarray(X, dtype=float), [d] * n, [sites.index(w) for w in where]))


HAM_GRID = [(cyc, dflt, form) for cyc in (False, True) for dflt in (True, False)
            for form in ("none", "array", "dict", "dict+default")]


def ham_stream(ctx):
    from quimb.tensor.tn1d.tebd import LocalHam1D
    from quimb.tensor.tnag.tebd import LocalHamGen

    rng = ctx.rng
    cases, info = [], {}
    N = ctx.n(80, 800)
    for cid in range(1, N + 1):
        d = 2 if rng.random() < 0.85 else 3
        D2 = d * d
        oned = rng.random() < 0.4
        # the first cases cross every constructor option deterministically (1D: periodic x default/keyed x H1 form)
        force = HAM_GRID[cid - 1] if cid <= len(HAM_GRID) else None
        if force:
            oned = True
        pool = {}

        def newmat(n, scale=1):
            # reuse the same array object now and then: the implementation's caches are keyed by id()
            if rng.random() < 0.3 and pool.get((n, scale)):
                return rng.choice(pool[(n, scale)])
            m = int_mat(rng, n, scale)
            pool.setdefault((n, scale), []).append(m)
            return m

        if oned:
            L = rng.randint(2, 6)
            cyc = L >= 3 and rng.random() < 0.4
            if force:
                L, cyc = max(L, 3), force[0]
            H2 = {}
            dflt2 = newmat(D2) if rng.random() < 0.8 else None
            if force:
                dflt2 = newmat(D2) if force[1] else None
            for i in range(L - 1 + int(cyc)):
                a, b = i, (i + 1) % L
                if dflt2 is None or rng.random() < 0.35:
                    H2[(a, b) if rng.random() < 0.6 else (b, a)] = newmat(D2)
                    if rng.random() < 0.1:
                        H2[(b, a) if (a, b) in H2 else (a, b)] = newmat(D2)
            sites = sorted({c for k in H2 for c in k} | (set(range(L)) if dflt2 is not None and L > 1 else set()))
            if not H2 and dflt2 is None:
                continue
        else:
            nsites = rng.randint(2, 6)
            labels = rng.sample(range(-2, 8), nsites)
            H2 = {}
            for _ in range(rng.randint(1, 7)):
                a, b = rng.sample(labels, 2)
                H2[(a, b)] = newmat(D2)
            sites = sorted({c for k in H2 for c in k})
            dflt2 = None
        # one-site terms: multiples of 60 so that equal sharing among <= 6 pairs is exact
        form = rng.choice(["none", "array", "dict", "dict+default"])
        if force:
            form = force[2]
        h1, dflt1 = {}, None
        if form == "array":
            dflt1 = newmat(d, 60)
        elif form.startswith("dict"):
            cand = list(sites)
            if rng.random() < 0.12:
                cand.append(max(sites) + 3)  # not coupled to anything: must be rejected
            for sname in rng.sample(cand, rng.randint(1, len(cand))):
                h1[sname] = newmat(d, 60)
            if form == "dict+default":
                dflt1 = newmat(d, 60)
        ctx.bump("ham_1d" if oned else "ham_gen")
        ctx.count(("ham", oned, d, tuple(H2), tuple(h1), dflt1 is not None, dflt2 is not None),
                  form != "none" or any(a > b for a, b in H2))
        H1arg = None if form == "none" else (dflt1 if form == "array" else ({**h1, None: dflt1} if dflt1 is not None else dict(h1)))
        try:
            if oned:
                H2arg = dict(H2)
                if dflt2 is not None:
                    H2arg = dflt2 if (not H2 and rng.random() < 0.5) else {**H2arg, None: dflt2}
                ham = LocalHam1D(L, H2=H2arg, H1=H1arg, cyclic=cyc)
            else:
                ham = LocalHamGen(H2=dict(H2), H1=H1arg)
            impl = [(k, np.asarray(v)) for k, v in ham.terms.items()]
            rejected = False
        except ValueError:
            impl, rejected = None, True
        desc = {"oned": oned, "d": d, "H2": {str(k): v.tolist() for k, v in H2.items()},
                "H1": {str(k): v.tolist() for k, v in h1.items()},
                "default_H1": None if dflt1 is None else dflt1.tolist(),
                "default_H2": None if dflt2 is None else dflt2.tolist()}
        if oned:
            desc.update({"L": L, "cyclic": cyc})
        # ---- direct oracle (exact integers): sum of stored pair terms = sum(H2) + sum(H1) ----
        H2full = dict(H2)
        if oned and dflt2 is not None:
            for i in range(L - 1 + int(cyc)):
                a, b = i, (i + 1) % L
                if (a, b) not in H2full and (b, a) not in H2full:
                    H2full[(a, b)] = dflt2
        allsites = sorted({c for k in H2full for c in k})
        H1full = dict(h1)
        if dflt1 is not None:
            for sname in allsites:
                H1full.setdefault(sname, dflt1)
        uncovered = [sname for sname in H1full if sname not in allsites]
        if uncovered:
            ctx.bump("ham_uncovered_h1")
            if not rejected:
                ctx.violation("localham:uncovered_single_site_term_accepted",
                              "a one-site term on a site without any two-site term was silently accepted", desc)
        elif rejected:
            ctx.violation("localham:valid_input_rejected", "constructor raised ValueError on a valid hamiltonian", desc)
        elif len(allsites) <= 6:
            want = sum(dense_embed(X, d, allsites, k) for k, X in H2full.items())
            for sname, h in H1full.items():
                want = want + dense_embed(h, d, allsites, [sname])
            got = sum(dense_embed(X, d, allsites, k) for k, X in impl)
            if not np.array_equal(got, want) or any(a >= b for (a, b), _ in impl):
                ctx.violation("localham:term_sum" + (":1d" if oned else ":gen"),
                              "the stored pair terms do not sum to sum(H2) + sum(H1) (or a key is not ordered)", desc)
            # get_gate returns the stored, ordered term whatever the order of `where`
            for (a, b), X in impl:
                if not (np.array_equal(np.asarray(ham.get_gate((b, a))), X) and np.array_equal(np.asarray(ham.get_gate((a, b))), X)):
                    ctx.violation("localham:get_gate", "get_gate((b, a)) is not the stored (a, b) term", desc)
        # ---- correspondence with the model ----
        def dictlit(dct):
            return "[" + "; ".join(f"(({zlit(a)}, {zlit(b)}), mk {D2}%nat {zl(v)})" for (a, b), v in dct.items()) + "]"

        h1lit = "[" + "; ".join(f"({zlit(k)}, mk {d}%nat {zl(v)})" for k, v in h1.items()) + "]"
        d1lit = "None" if dflt1 is None else f"(Some (mk {d}%nat {zl(dflt1)}))"
        if impl is None:
            implit = "None"
        else:
            ent = [(k, zl(v)) for k, v in impl]
            if any(e is None for _, e in ent):
                ctx.violation("localham:non_integer_entry", "integer inputs with exact sharing produced a non-integer entry", desc)
                continue
            implit = "(Some [" + "; ".join(f"(({zlit(a)}, {zlit(b)}), {e})" for (a, b), e in ent) + "])"
        if oned:
            d2lit = "None" if dflt2 is None else f"(Some (mk {D2}%nat {zl(dflt2)}))"
            model = f"localham1d {d}%nat {zlit(L)} {blit(cyc)} {dictlit(H2)} {d2lit} {h1lit} {d1lit}"
        else:
            model = f"localham {d}%nat {dictlit(H2)} {h1lit} {d1lit}"
        info[cid] = desc
        cases.append((cid, f"odict_eqb {D2}%nat ({model}) {implit}"))
        if cid <= 1:
            ctx.sample({"hamiltonian": desc})
    def finish():
        failed, errors = ctx.coq_cases("ham", HAM_HEADER, cases, shard=ctx.n(40, 100))
        for path, err in errors:
            ctx.broken_obligation("correspondence:ham:" + path.split("/")[-1], err)
        for c in failed[:4]:
            ctx.broken_obligation("correspondence:localham_model_vs_impl", info[c])

    return finish


# ----------------------------------------------------------------------------
# oracle stream (tests): the running TEBD against explicit dense linear algebra

TOL = 1e-9
TOL_CYCLIC = 1e-7
BOND_CAP = 64


def rand_herm(nrng, n, real=False):
    a = nrng.normal(size=(n, n))
    if not real:
        a = a + 1j * nrng.normal(size=(n, n))
    return (a + a.conj().T) / 2


def flip2(X):
    return np.asarray(X).reshape(2, 2, 2, 2).transpose(1, 0, 3, 2).reshape(4, 4)


def embed2(X, L, a, b):
    import quimb as qu

    return np.asarray(qu.pkron(np.asarray(X, dtype=complex), [2] * L, [a, b]))


def ref_pair_terms(L, cyclic, H2, H1):
    """documented meaning: one term per bond (a, b) with the first factor on a;
    every one-site term shared equally among the bonds that touch its site"""
    bonds = [(i, i + 1) for i in range(L - 1)] + ([(L - 1, 0)] if cyclic else [])
    deg = {i: sum(1 for b in bonds if i in b) for i in range(L)}
    I = np.eye(2)
    out = {}
    for a, b in bonds:
        X = np.asarray(H2[(a, b)], dtype=complex)
        if H1 is not None:
            X = X + np.kron(H1[a], I) / deg[a] + np.kron(I, H1[b]) / deg[b]
        out[(a, b)] = X
    return out


def ref_layers(L, cyclic):
    right = [(i, i + 1) for i in range(0, L - 1, 2)]
    if cyclic and L % 2 == 1:
        right.append((L - 1, 0))
    left = ([(L - 1, 0)] if (cyclic and L % 2 == 0) else []) + [(i, i + 1) for i in reversed(range(1, L - 1, 2))]
    return right, left


def ref_schedule(order):
    if order == 1:
        return [(0, 1.0), (1, 1.0)]
    o2 = [(0, 0.5), (1, 1.0), (0, 0.5)]
    if order == 2:
        return o2
    s = 1 / (4 - 4 ** (1 / 3))
    return [(k, f * w) for w in (s, s, 1 - 4 * s, s, s) for k, f in o2]


class DenseRef:
    """explicit product formula on a dense state vector"""

    def __init__(self, L, cyclic, terms, imag):
        import scipy.linalg as sla

        self.L, self.imag, self.sla = L, imag, sla
        self.layers = ref_layers(L, cyclic)
        self.terms = {b: np.asarray(X, dtype=complex) for b, X in terms.items()}
        self.H = sum(embed2(X, L, *b) for b, X in terms.items())
        self.cache = {}

    def gate(self, bond, tau):
        key = (bond, tau)
        if key not in self.cache:
            x = -tau if self.imag else -1j * tau
            self.cache[key] = embed2(self.sla.expm(x * self.terms[bond]), self.L, *bond)
            if len(self.cache) > 400:
                self.cache.pop(next(iter(self.cache)))
        return self.cache[key]

    def step(self, v, order, length):
        for k, f in ref_schedule(order):
            for bond in self.layers[k]:
                v = self.gate(bond, f * length) @ v
        return v

    def update(self, v, t, T, dt, order):
        n = max(0, math.ceil(Fraction(T - t) / Fraction(dt)) - 1) if T > t else 0
        for _ in range(n):
            v = self.step(v, order, dt)
        v = self.step(v, order, T - (t + n * dt))
        return v

    def exact(self, v, span):
        x = -span if self.imag else -1j * span
        return self.sla.expm(x * self.H) @ v


def dense_vec(psi):
    return np.asarray(psi.to_dense()).ravel()


def unit(v):
    return v / np.linalg.norm(v)


def make_case(nrng, rng, L, cyclic, symmetric, with_h1, real=False, uniform_h1=False):
    H2 = {}
    for a, b in [(i, i + 1) for i in range(L - 1)] + ([(L - 1, 0)] if cyclic else []):
        X = rand_herm(nrng, 4, real)
        if symmetric:
            X = (X + flip2(X)) / 2
        H2[(a, b)] = X
    H1 = {i: rand_herm(nrng, 2, real) for i in range(L)} if with_h1 else None
    if with_h1 and uniform_h1:
        H1 = {i: H1[0] for i in range(L)}
    return H2, H1


def build_ham(rng, L, cyclic, H2, H1):
    """hand the documented terms to LocalHam1D in a randomly chosen accepted spelling"""
    from quimb.tensor.tn1d.tebd import LocalHam1D

    H2arg = {}
    for (a, b), X in H2.items():
        if rng.random() < 0.35 and not (cyclic and L == 2):
            H2arg[(b, a)] = flip2(X)  # same operator, given with the sites in the other order
        else:
            H2arg[(a, b)] = X
    return LocalHam1D(L, H2=H2arg, H1=None if H1 is None else dict(H1), cyclic=cyclic)


ORACLE_GRID = [(cyc, im, o) for cyc in (False, True) for im in (False, True) for o in ((1, 2) if cyc else (1, 2, 4))]


def oracle_stream(ctx):
    import quimb.tensor as qtn
    from quimb.tensor.tn1d.tebd import TEBD

    rng = ctx.rng
    nrng = np.random.default_rng(ctx.seed + 11)
    N = ctx.n(24, 240)
    for it in range(N):
        L = rng.choice([2, 3, 4, 4, 5, 5, 6, 7] if not ctx.quick else [2, 3, 4, 4, 5, 5, 6])
        cyclic = L >= 3 and rng.random() < 0.4
        symmetric = rng.random() < (0.5 if cyclic else 0.15)
        with_h1 = rng.random() < 0.6
        imag = rng.random() < 0.4
        order = rng.choice([1, 2, 4])
        if it < len(ORACLE_GRID):  # cross periodic x imaginary x order with non exchange-symmetric, site dependent terms
            cyclic, imag, order = ORACLE_GRID[it]
            L = max(L, 3) if cyclic else L
            symmetric, with_h1 = False, True
        H2, H1 = make_case(nrng, rng, L, cyclic, symmetric, with_h1, real=imag and rng.random() < 0.5,
                           uniform_h1=cyclic and symmetric and rng.random() < 0.7)
        ham = build_ham(rng, L, cyclic, H2, H1)
        terms = ref_pair_terms(L, cyclic, H2, H1)
        p0 = qtn.MPS_rand_state(L, rng.randint(1, 3), dtype=complex, cyclic=cyclic, seed=rng.randint(0, 10**6))
        v0 = dense_vec(p0)
        t0 = rng.choice([0.0, 0.0, 0.3, -0.25])
        dt = rng.choice([0.1, 0.125, 0.07, 0.25, 0.03 * (1 + rng.random())])
        mode = rng.choice(["update", "update", "two_updates", "at_times", "tol"])
        desc = {"L": L, "cyclic": cyclic, "exchange_symmetric": symmetric, "H1": with_h1, "imag": imag, "order": order,
                "t0": t0, "dt": dt, "mode": mode, "np_seed": ctx.seed + 11, "iteration": it}
        ctx.count(("oracle", L, cyclic, symmetric, with_h1, imag, order, mode, it), True)
        ctx.bump("oracle_" + ("cyclic" if cyclic else "open") + ("_imag" if imag else "_real"))
        ref = DenseRef(L, cyclic, terms, imag)
        # the same with the periodic boundary term acting with its two sites exchanged
        ref_sw = None
        if cyclic and np.abs(flip2(terms[(L - 1, 0)]) - terms[(L - 1, 0)]).max() > 1e-12:
            tsw = dict(terms)
            tsw[(L - 1, 0)] = flip2(terms[(L - 1, 0)])
            ref_sw = DenseRef(L, cyclic, tsw, imag)
        # open chains: canonical form makes a tiny cutoff lossless; periodic chains have no canonical form, a tiny
        # cutoff lets the bonds grow without bound, so the library default is used and the tolerance is looser
        split_opts = {"cutoff": 1e-10, "max_bond": BOND_CAP} if cyclic else {"cutoff": 0.0}
        tol_state = TOL_CYCLIC if cyclic else TOL
        if cyclic:
            # no canonical form => bonds double with every sweep: keep to orders 1, 2 and at most two steps
            # (order 4 and long periodic runs are covered at the gate level by the machine stream)
            order = rng.choice([1, 2])
            mode = rng.choice(["update", "two_updates", "at_times"])
            desc.update({"order": order, "mode": mode})
        tb = TEBD(p0, ham, dt=None if mode == "tol" else dt, tol=1e-3 if mode == "tol" else None, t0=t0, imag=imag,
                  progbar=False, split_opts=split_opts)
        targets = []  # (T, dt used, order)
        try:
            got_states = []
            if mode == "update":
                T = t0 + (rng.choice([dt * 2, dt * 1.5, dt * 0.5, dt]) if cyclic else rng.choice([dt * 3, dt * 2.5, 0.4, 0.33, dt * 0.5, dt]))
                tb.update_to(T, order=order)
                targets.append((T, dt, order))
                got_states.append(tb.pt)
            elif mode == "tol":
                T = t0 + rng.choice([0.2, 0.3])
                tol = 1e-3
                while (T - t0) / (tol / ((T - t0) * ham.mean_norm())) ** (1 / order) > 25:
                    tol *= 4
                tb.update_to(T, tol=tol, order=order)
                dt_used = (tol / ((T - t0) * ham.mean_norm())) ** (1 / order)
                if abs(float(tb._dt) - dt_used) > 1e-12 * dt_used:
                    ctx.violation("tebd.choose_time_step", "step chosen from tol is not (tol / (T * norm)) ** (1 / order)",
                                  {**desc, "got": float(tb._dt), "want": dt_used})
                targets.append((T, float(tb._dt), order))
                got_states.append(tb.pt)
                desc["tol"] = tol
            elif mode == "two_updates":
                T1 = t0 + (rng.choice([dt * 0.75, dt]) if cyclic else rng.choice([0.2, dt * 1.5, dt]))
                dt2 = rng.choice([dt / 2, 0.11])
                o2 = rng.choice([1, 2]) if cyclic else rng.choice([1, 2, 4])
                T2 = T1 + (rng.choice([dt2, dt2 * 0.5, 0.0]) if cyclic else rng.choice([0.15, dt2 * 2, 0.0]))
                tb.update_to(T1, order=order)
                got_states.append(tb.pt)
                tb.update_to(T2, dt=dt2, order=o2)
                got_states.append(tb.pt)
                targets += [(T1, dt, order), (T2, dt2, o2)]
                desc.update({"T1": T1, "T2": T2, "dt2": dt2, "order2": o2})
            else:
                ts = sorted(t0 + (rng.choice([dt * 0.5, dt, 1.5 * dt]) if cyclic else rng.choice([0.1, 0.17, 0.25, dt, 2 * dt, 0.31]))
                            for _ in range(rng.randint(1, 3)))
                shuffled = list(ts)
                rng.shuffle(shuffled)
                for psi in tb.at_times(shuffled, order=order, progbar=False):
                    got_states.append(psi)
                targets += [(T, dt, order) for T in ts]
                desc.update({"ts": shuffled})
        except Exception as e:
            ctx.violation("tebd:raised:" + mode + (":cyclic" if cyclic else ""), f"{type(e).__name__}: {e}", desc)
            continue
        desc["targets"] = targets
        if cyclic and tb._pt.max_bond() >= BOND_CAP:
            ctx.bump("oracle_inconclusive_bond_cap")
            continue
        if abs(tb.t - targets[-1][0]) > 0:
            ctx.violation("tebd.t:not_exactly_T", f"after evolving to T={targets[-1][0]!r} the clock reads {tb.t!r}", desc)
        if getattr(tb, "_queued_sweep", None):
            ctx.violation("tebd:queue_not_drained", "a sweep is still queued after update_to / at_times", desc)
        if cyclic and L % 2 == 1:
            # odd periodic chains: (0,1) and (L-1,0) share a site, so merging two adjacent right sweeps (which the
            # queue does from the second full step on) is a different, equally first-order, product; the explicit
            # reference below is only the same formula while no merge happens
            tt, merges = t0, False
            for T, dtu, o in targets:
                if T > tt and math.ceil(Fraction(T - tt) / Fraction(dtu)) - 1 >= 2:
                    merges = True
                tt = T
            if merges:
                ctx.bump("oracle_odd_periodic_merge_skipped")
                continue
        v, vs, t = v0, v0, t0
        for (T, dtu, o), psi in zip(targets, got_states):
            v = ref.update(v, t, T, dtu, o)
            if ref_sw is not None:
                vs = ref_sw.update(vs, t, T, dtu, o)
            t = T
            g = dense_vec(psi)
            nrm = np.linalg.norm(g)
            want = unit(v) if imag else v
            direction = np.linalg.norm(unit(g) - unit(want)) if imag else np.linalg.norm(g - want)
            ctx.extra['max_dist_cyclic' if cyclic else 'max_dist_open'] = max(ctx.extra.get('max_dist_cyclic' if cyclic else 'max_dist_open', 0.0), float(direction))
            if direction > tol_state:
                if ref_sw is not None:
                    wsw = unit(vs)
                    dsw = np.linalg.norm(unit(g) - wsw) if imag else np.linalg.norm(g - vs)
                    if dsw <= tol_state:
                        ctx.violation("tebd.sweep:cyclic:boundary_gate_sites_exchanged",
                                      "periodic chain: the (L-1, 0) gate is applied with its two sites exchanged (visible when the boundary pair "
                                      "term, including its share of the one-site terms, is not exchange symmetric)",
                                      {**desc, "distance_to_product_formula": float(direction)})
                        break
                ctx.violation("tebd:product_formula" + (":cyclic" if cyclic else ":open") + (":imag" if imag else ":real"),
                              f"state differs from the explicit order-{o} product formula by {direction:.3e}",
                              {**desc, "distance": float(direction), "at_T": T})
                break
            if abs(nrm - 1) > tol_state:
                if imag:
                    ctx.violation("tebd:imag:unnormalised" + (":cyclic" if cyclic else (":final_sweep_left(order=1)" if o == 1 else "")),
                                  f"imaginary time evolution returned a state of norm {nrm:.6f}", {**desc, "norm": float(nrm)})
                else:
                    ctx.violation("tebd:real_time:norm_not_preserved", f"norm {nrm!r} after real time evolution", desc)
                break
        if it < 2:
            ctx.sample({"oracle_case": desc})


def edge_stream(ctx):
    """TARGET_TOL, repeated targets, gate exponentials, cache freshness"""
    import scipy.linalg as sla
    import quimb.tensor as qtn
    from quimb.tensor.tn1d.tebd import TEBD, LocalHam1D

    rng = ctx.rng
    nrng = np.random.default_rng(ctx.seed + 23)
    for L, cyclic in [(3, False), (4, False), (4, True)]:
        H2, H1 = make_case(nrng, rng, L, cyclic, True, True)
        ham = build_ham(rng, L, cyclic, H2, H1)
        p0 = qtn.MPS_rand_state(L, 2, dtype=complex, cyclic=cyclic, seed=5)
        tb = TEBD(p0, ham, dt=0.25 if cyclic else 0.125, progbar=False,
                  split_opts={"cutoff": 1e-10, "max_bond": BOND_CAP} if cyclic else {"cutoff": 0.0})
        tb.update_to(0.5, order=1 if cyclic else 2)
        before = dense_vec(tb.pt)
        ctx.count(("edge", L, cyclic), True)
        # a target within TARGET_TOL below the current time is accepted and reached exactly
        T = 0.5 - 5e-14
        try:
            tb.update_to(T, order=2)
            if tb.t != T or np.linalg.norm(dense_vec(tb.pt) - before) > 1e-9:
                ctx.violation("tebd.update_to:within_TARGET_TOL", "target within TARGET_TOL of t not reached exactly / state changed",
                              {"L": L, "t": tb.t, "T": T})
        except NotImplementedError:
            ctx.violation("tebd.update_to:within_TARGET_TOL:rejected", "target within TARGET_TOL of t rejected", {"L": L, "T": T})
        try:
            tb.update_to(tb.t - 1e-9, order=2)
            ctx.violation("tebd.update_to:backwards_accepted", "a target earlier than t - TARGET_TOL was accepted", {"L": L})
        except NotImplementedError:
            pass
        # repeated target: nothing changes
        tb.update_to(tb.t, order=1 if cyclic else 4)
        if np.linalg.norm(dense_vec(tb.pt) - before) > 1e-9:
            ctx.violation("tebd.update_to:repeated_target", "evolving to the current time changed the state", {"L": L})
        # exponentiated gates are the exponentials of the documented terms, cached or not
        terms = ref_pair_terms(L, cyclic, H2, H1)
        for (a, b), X in terms.items():
            where = (min(a, b), max(a, b))
            Xo = X if a < b else flip2(X)
            for x in (0.25, -0.5j, 0.25):
                U = np.asarray(ham.get_gate_expm(where, x))
                ctx.count(("expm", L, cyclic, a, b, str(x)), True)
                if np.abs(U - sla.expm(Xo * x)).max() > 1e-10:
                    ctx.violation("localham.get_gate_expm", "gate is not the exponential of the documented pair term",
                                  {"L": L, "cyclic": cyclic, "where": where, "x": str(x)})
    # caches keyed by id(): after apply_to_arrays the old arrays die and their ids are reused
    stale = None
    for trial in range(ctx.n(60, 300)):
        L = 6
        H2 = {(i, i + 1): nrng.integers(-3, 4, size=(4, 4)).astype(float) for i in range(L - 1)}
        ham = LocalHam1D(L, H2=H2)
        del H2
        for k in list(ham.terms):
            ham.get_gate_expm(k, 0.25)
        ham.apply_to_arrays(lambda x: x * 2.0)
        for k in list(ham.terms):
            ctx.count(("stale", trial, k), True)
            U = np.asarray(ham.get_gate_expm(k, 0.25))
            if np.abs(U - sla.expm(np.asarray(ham.terms[k]) * 0.25)).max() > 1e-9:
                stale = {"trial": trial, "where": k, "term": np.asarray(ham.terms[k]).tolist()}
                break
        if stale:
            break
    if stale:
        ctx.violation("localham.get_gate_expm:stale_after_apply_to_arrays",
                      "get_gate_expm returns the exponential of a different (dead) array: caches are keyed by id() "
                      "and apply_to_arrays replaces the terms without clearing them", stale)


def nonsym_int(rng, scale=1):
    """integer 4x4 matrix that is certainly not symmetric under exchange of its two sites"""
    while True:
        m = int_mat(rng, 4, scale)
        if not np.array_equal(flip2(m), m):
            return m


def directed_bonds(shape, cyc):
    """nearest neighbour bonds (site, site + 1 in each direction) of an open / periodic hypercubic lattice, as the
    documentation describes them: the first factor of a default term acts on `site`, the second on its successor"""
    import itertools

    out = []
    for site in itertools.product(*[range(n) for n in shape]):
        for ax in reversed(range(len(shape))):  # (i, j+1) before (i+1, j); irrelevant for sums
            nxt = list(site)
            nxt[ax] += 1
            if nxt[ax] >= shape[ax]:
                if not cyc[ax]:
                    continue
                nxt[ax] %= shape[ax]
            out.append((site, tuple(nxt)))
    return out


def lattice_stream(ctx):
    """LocalHam2D / LocalHam3D on open AND periodic lattices: non exchange-symmetric integer default term,
    keyed terms in both orientations, one-site terms (dict / default): exact dense sum against the reference built
    from DIRECTED bonds, and the stored dictionary against the Coq model (localham2d / localham3d)"""
    from quimb.tensor.tn2d.tebd import LocalHam2D
    from quimb.tensor.tn3d.tebd import LocalHam3D

    rng = ctx.rng
    # periodic directions have length 3 (length 2 would make the two directed bonds of a pair coincide)
    configs = [((2, 2), (False, False)), ((3, 2), (True, False)), ((2, 3), (False, True)), ((3, 3), (True, True)),
               ((1, 3), (False, True)), ((2, 2, 2), (False, False, False)), ((3, 1, 2), (True, False, False)),
               ((1, 2, 3), (False, False, True))]
    if not ctx.quick:
        configs += [((3, 2), (False, False)), ((4, 2), (True, False)), ((3, 3), (True, False)), ((3, 3), (False, True)),
                    ((3, 1, 3), (True, False, True)), ((1, 3, 3), (False, True, True))]
    cases, info = [], {}
    cid = 0
    for shape, cyc in configs:
        for variant in ("default", "default+keyed", "keyed"):
            for h1form in ("none", "dict", "default", "dict+default"):
                if ctx.quick and (cid % 3 == 2) and variant != "default":
                    pass
                bonds = directed_bonds(shape, cyc)
                sites = sorted({c for b in bonds for c in b})
                rav = {sname: n for n, sname in enumerate(sites)}  # lexicographic = row-major ravel
                X0 = nonsym_int(rng)
                H2 = {}
                if variant != "default":
                    for a, b in bonds:
                        if variant == "keyed" or rng.random() < 0.4:
                            H2[(a, b) if rng.random() < 0.5 else (b, a)] = nonsym_int(rng)
                want = {}  # documented: keyed terms as given, default under the directed bond
                for a, b in bonds:
                    if (a, b) in H2:
                        want[(a, b)] = H2[(a, b)]
                    elif (b, a) in H2:
                        want[(b, a)] = H2[(b, a)]
                    elif variant != "keyed":
                        want[(a, b)] = X0
                covered = sorted({c for k in want for c in k})
                h1 = {}
                if h1form.startswith("dict"):
                    for sname in rng.sample(covered, rng.randint(1, len(covered))):
                        h1[sname] = int_mat(rng, 2, 60)
                d1 = int_mat(rng, 2, 60) if h1form.endswith("default") else None
                H2arg = dict(H2)
                if variant != "keyed":
                    H2arg = X0 if (variant == "default" and rng.random() < 0.5) else {**H2arg, None: X0}
                H1arg = None if h1form == "none" else (d1 if h1form == "default" and rng.random() < 0.5 else ({**h1, None: d1} if d1 is not None else dict(h1)))
                cyc_arg = cyc[0] if len(set(cyc)) == 1 and rng.random() < 0.5 else tuple(cyc)
                ctx.count(("lattice", shape, cyc, variant, h1form), True)
                ctx.bump("lattice_" + ("periodic" if any(cyc) else "open"))
                desc = {"shape": shape, "cyclic": cyc, "variant": variant, "H1": h1form, "default_H2": X0.tolist(),
                        "H2": {str(k): v.tolist() for k, v in H2.items()}, "H1_sites": [str(k) for k in h1]}
                try:
                    ham = (LocalHam2D(*shape, H2=H2arg, H1=H1arg, cyclic=cyc_arg) if len(shape) == 2
                           else LocalHam3D(*shape, H2=H2arg, H1=H1arg, cyclic=cyc_arg))
                except Exception as e:
                    ctx.violation("localham:lattice:raised", f"{type(e).__name__}: {e}", desc)
                    continue
                impl = [(k, np.asarray(v)) for k, v in ham.terms.items()]
                # ---- direct oracle ----
                if len(covered) <= 9:
                    h1full = dict(h1)
                    if d1 is not None:
                        for sname in covered:
                            h1full.setdefault(sname, d1)
                    ref = sum(dense_embed(X, 2, covered, k) for k, X in want.items())
                    for sname, h in h1full.items():
                        ref = ref + dense_embed(h, 2, covered, [sname])
                    got = sum(dense_embed(X, 2, covered, k) for k, X in impl)
                    if not np.array_equal(got, ref) or any(a >= b for (a, b), _ in impl):
                        ctx.violation("localham:term_sum:lattice" + (":periodic" if any(cyc) else ":open") + (":default_H2" if variant != "keyed" else ""),
                                      "LocalHam2D/3D pair terms do not sum to sum over DIRECTED bonds of H2 + sum(H1)", desc)
                # ---- correspondence with the model ----
                ent = [(k, zl(v)) for k, v in impl]
                if any(e is None for _, e in ent):
                    ctx.violation("localham:non_integer_entry", "integer inputs with exact sharing produced a non-integer entry", desc)
                    continue
                dl = lambda dct: "[" + "; ".join(f"(({zlit(rav[a])}, {zlit(rav[b])}), mk 4%nat {zl(v)})" for (a, b), v in dct.items()) + "]"
                h1lit = "[" + "; ".join(f"({zlit(rav[k])}, mk 2%nat {zl(v)})" for k, v in h1.items()) + "]"
                d1lit = "None" if d1 is None else f"(Some (mk 2%nat {zl(d1)}))"
                d2lit = "None" if variant == "keyed" else f"(Some (mk 4%nat {zl(X0)}))"
                implit = "(Some [" + "; ".join(f"(({zlit(rav[a])}, {zlit(rav[b])}), {e})" for (a, b), e in ent) + "])"
                dims = " ".join(zlit(n) for n in shape) + " " + " ".join(blit(c) for c in cyc)
                model = f"localham{len(shape)}d 2%nat {dims} {dl(H2)} {d2lit} {h1lit} {d1lit}"
                cid += 1
                info[cid] = desc
                cases.append((cid, f"odict_eqb 4%nat ({model}) {implit}"))

    def finish():
        failed, errors = ctx.coq_cases("lattice", HAM_HEADER, cases, shard=ctx.n(50, 100))
        for path, err in errors:
            ctx.broken_obligation("correspondence:lattice:" + path.split("/")[-1], err)
        for c in failed[:4]:
            ctx.broken_obligation("correspondence:localham2d3d_model_vs_impl", info[c])

    return finish


GS_HEADER = (
    "From Coq Require Import ZArith QArith Qcanon List Bool.\n"
    "From QV Require Import C11.Model C11.HamModel.\nImport ListNotations.\nOpen Scope Z_scope.\n"
    "Definition qc (n : Z) (d : positive) : Qc := Q2Qc (n # d).\n"
    "Fixpoint gl_eqb (a b : list (key * Qc)) : bool := match a, b with [], [] => true\n"
    "  | (k, x) :: a', (l, y) :: b' => key_eqb k l && Qc_eq_bool x y && gl_eqb a' b' | _, _ => false end.\n"
)


def gensweep_stream(ctx):
    """TEBDSweepMixin.sweep / evolve for every class that uses it (TEBDGen, SimpleUpdateGen, TEBD2D, SimpleUpdate),
    every kind of ordering (explicit, 'sort', None = dynamic random, 'random', a colouring strategy, callable) and
    second_order_reflect in {False, True}, non exchange-symmetric terms: the gate log (which term, which exponent)
    against the Coq model, exactly; and the resulting state against the explicit dense product"""
    import scipy.linalg as sla
    import quimb.tensor as qtn
    from quimb.tensor.tn2d.tebd import TEBD2D, LocalHam2D, SimpleUpdate
    from quimb.tensor.tnag.tebd import LocalHamGen, SimpleUpdateGen, TEBDGen

    rng = ctx.rng
    nrng = np.random.default_rng(ctx.seed + 61)
    cases, info = [], {}
    cid = 0
    kinds = ["explicit", "sort", "none", "random", "smallest_last", "callable"]
    for cls in (TEBDGen, SimpleUpdateGen, TEBD2D, SimpleUpdate):
        for kind in kinds:
            for reflect in (False, True):
                for rep in range(ctx.n(1, 3)):
                    two_d = cls in (TEBD2D, SimpleUpdate)
                    if two_d:
                        shape = rng.choice([(2, 2), (2, 3)] if ctx.quick else [(2, 2), (2, 3), (3, 2)])
                        bonds = directed_bonds(shape, (False, False))
                        X0 = rand_herm(nrng, 4, real=True)
                        H2 = {(a, b) if rng.random() < 0.5 else (b, a): rand_herm(nrng, 4, real=True)
                              for a, b in bonds if rng.random() < 0.4}
                        sites = sorted({c for b in bonds for c in b})
                        H1 = {sname: rand_herm(nrng, 2, real=True) for sname in rng.sample(sites, rng.randint(0, len(sites)))}
                        ham = LocalHam2D(*shape, H2={**H2, None: X0}, H1=H1 or None)
                        want = {}
                        for a, b in bonds:
                            want[(a, b) if (b, a) not in H2 else (b, a)] = H2.get((a, b), H2.get((b, a), X0))
                        psi = qtn.PEPS.rand(*shape, bond_dim=2, seed=rng.randint(0, 10**6))
                    else:
                        n = rng.randint(3, 5)
                        edges = [(i, i + 1) for i in range(n - 1)] + ([(0, n - 1)] if rng.random() < 0.7 else [])
                        if n >= 4 and rng.random() < 0.5:
                            edges.append((0, 2))
                        want = {((a, b) if rng.random() < 0.5 else (b, a)): rand_herm(nrng, 4, real=True) for a, b in edges}
                        sites = list(range(n))
                        H1 = {sname: rand_herm(nrng, 2, real=True) for sname in rng.sample(sites, rng.randint(0, n))}
                        ham = LocalHamGen(dict(want), H1 or None)
                        psi = qtn.TN_from_edges_rand(edges, D=2, phys_dim=2, seed=rng.randint(0, 10**6))
                    rav = {sname: k for k, sname in enumerate(sites)}
                    # documented pair terms, independent of the implementation's dictionaries
                    full = {}
                    for k, X in want.items():
                        key = tuple(sorted(k))
                        full[key] = full.get(key, 0) + dense_embed(X, 2, sites, k)
                    for sname, h in H1.items():
                        ks = [k for k in full if sname in k]
                        for k in ks:
                            full[k] = full[k] + dense_embed(h, 2, sites, [sname]) / len(ks)
                    pairs = sorted(full)
                    used = []  # the ordering every sweep consulted
                    if kind == "explicit":
                        o = list(pairs)
                        rng.shuffle(o)
                        ordering = o
                    elif kind == "callable":
                        def ordering(_p=pairs):
                            o = list(_p)
                            rng.shuffle(o)
                            used.append(o)
                            return o
                    else:
                        ordering = {"sort": "sort", "none": None, "random": "random", "smallest_last": "smallest_last"}[kind]
                    mode = rng.choice(["sweep", "evolve_scalar", "evolve_list", "sweep_tau_fn"])
                    tau0 = rng.choice([0.125, 0.0625, 0.25])
                    steps = 1 if mode.startswith("sweep") else rng.choice([1, 2])
                    tau_fn = lambda where: tau0 if (rav[where[0]] + rav[where[1]]) % 2 else tau0 / 2
                    taus_arg = [tau0, tau0 / 2] if mode == "evolve_list" else tau0
                    desc = {"class": cls.__name__, "ordering": kind, "second_order_reflect": reflect, "mode": mode, "tau": taus_arg,
                            "steps": steps, "sites": [str(x) for x in sites], "pairs": [str(p) for p in want], "H1_sites": [str(x) for x in H1]}
                    ctx.count(("gensweep", cls.__name__, kind, reflect, mode, rep), True)
                    ctx.bump("gensweep_" + cls.__name__)
                    kw = {"gauge_smudge": 0.0} if cls is SimpleUpdate else {}
                    try:
                        tb = cls(psi, ham, tau=tau0, D=64, cutoff=0.0, ordering=ordering, second_order_reflect=reflect,
                                 compute_energy_final=False, progbar=False, **kw)
                    except Exception as e:
                        ctx.violation("tebdgen:constructor_raised", f"{type(e).__name__}: {e}", desc)
                        continue
                    if kind == "none":  # dynamic random ordering: observe what each sweep gets
                        orig = tb._ordering
                        tb._ordering = lambda _o=orig: (used.append(list(_o())), used[-1])[1]
                    fetched, applied = [], []
                    real_expm, real_gate = tb.ham.get_gate_expm, tb.gate
                    tb.ham.get_gate_expm = lambda where, x: (fetched.append((tuple(where), x, real_expm(where, x))), fetched[-1][2])[1]
                    tb.gate = lambda G, where: (applied.append((tuple(where), G)), real_gate(G, where))[1]
                    try:
                        if mode == "sweep":
                            tb.sweep(tau0)
                        elif mode == "sweep_tau_fn":
                            tb.sweep(tau_fn)
                        else:
                            tb.evolve(steps, tau=taus_arg, progbar=False)
                    except Exception as e:
                        ctx.violation("tebdgen:raised", f"{type(e).__name__}: {e}", desc)
                        continue
                    finally:
                        tb.ham.get_gate_expm = real_expm
                    if kind not in ("callable", "none"):
                        used = [list(tb.ordering)] * steps
                    taus = ([tau0, tau0 / 2] + [tau0 / 2] * steps)[:steps] if mode == "evolve_list" else [tau0] * steps
                    desc["orderings"] = [[str(w) for w in o] for o in used]
                    # every ordering must name every term exactly once
                    if len(used) != steps or any(sorted(tuple(sorted(w)) for w in o) != pairs for o in used):
                        ctx.violation("tebdgen:ordering_not_a_permutation_of_terms", "an ordering does not name every pair exactly once", desc)
                        continue
                    if len(fetched) != len(applied) or any(f[0] != a[0] or f[2] is not a[1] for f, a in zip(fetched, applied)):
                        ctx.violation("tebdgen:gate_fetched_for_other_pair", "the gate applied at a pair is not the one fetched for it", desc)
                        continue
                    # ---- direct oracle on the gate log: total exponent of every term per sweep is tau ----
                    tot = {}
                    for where, x, _ in fetched:
                        tot[tuple(sorted(where))] = tot.get(tuple(sorted(where)), 0.0) - float(x)
                    tau_of = (lambda p: tau_fn(p)) if mode == "sweep_tau_fn" else (lambda p: sum(taus))
                    if any(abs(tot.get(p, 0.0) - tau_of(p)) > 1e-12 for p in pairs):
                        ctx.violation("tebdgen.sweep:term_exponent" + (":second_order_reflect" if reflect else ""),
                                      "a term is not exponentiated for tau per sweep in total",
                                      {**desc, "totals": {str(k): v for k, v in tot.items()}, "want": sum(taus)})
                    # ---- dense oracle ----
                    inds = [psi.site_ind(sname) for sname in sites]
                    v = np.asarray(psi.to_dense(inds)).ravel()
                    for o, tau in zip(used, taus):
                        for w in list(o) + (list(reversed(o)) if reflect else []):
                            tw = tau_fn(tuple(sorted(w))) if mode == "sweep_tau_fn" else tau
                            v = sla.expm(-tw / (2 if reflect else 1) * full[tuple(sorted(w))]) @ v
                    st = tb.state
                    if st.max_bond() < 64:
                        g = np.asarray(st.to_dense(inds)).ravel()
                        exact_norm = cls in (TEBDGen, TEBD2D)
                        dist = np.linalg.norm(g - v) / max(1.0, np.linalg.norm(v)) if exact_norm else np.linalg.norm(unit(g) - unit(v))
                        # simple update re-gauges / equilibrates with regularised inverses: its state is only compared
                        # loosely (its gate log is still compared exactly, above and in Coq)
                        if dist > (1e-8 if exact_norm else 1e-3):
                            ctx.violation("tebdgen.sweep:product_of_gates" + (":second_order_reflect" if reflect else ""),
                                          f"{cls.__name__}: the state after {mode} is not the ordered product of exp(-tau h) (distance {dist:.2e})",
                                          {**desc, "distance": float(dist)})
                    else:
                        ctx.bump("gensweep_dense_inconclusive_bond_cap")
                    # ---- correspondence with the model ----
                    kl = lambda w: f"({zlit(rav[w[0]])}, {zlit(rav[w[1]])})"
                    olit = "[" + "; ".join("[" + "; ".join(kl(w) for w in o) + "]" for o in used) + "]"
                    tlit = "[" + "; ".join(qcl(Fraction(t)) for t in taus) + "]"
                    glit = "[" + "; ".join(f"({kl(w)}, {qcl(Fraction(-float(x)))})" for w, x, _ in fetched) + "]"
                    if mode == "sweep_tau_fn":
                        continue  # per-pair tau: decided by the two oracles above, the model takes one tau per sweep
                    cid += 1
                    info[cid] = desc
                    cases.append((cid, f"gl_eqb (evolve_gates {olit} {blit(reflect)} {tlit}) {glit}"))
                    if cid <= 1:
                        ctx.sample({"gensweep": desc})

    # real time is documented as not supported by these classes: it must be refused, not silently run as imaginary time
    ham_rt = LocalHamGen({(0, 1): rand_herm(nrng, 4, real=True), (2, 1): rand_herm(nrng, 4, real=True)})
    psi_rt = qtn.TN_from_edges_rand([(0, 1), (1, 2)], D=2, phys_dim=2, seed=1)
    for cls in (TEBDGen, SimpleUpdateGen):
        ctx.count(("real_time_refused", cls.__name__), True)
        try:
            cls(psi_rt, ham_rt, imag=False, progbar=False)
            ctx.violation("tebdgen:real_time_accepted", f"{cls.__name__}(imag=False) did not raise NotImplementedError", {"class": cls.__name__})
        except NotImplementedError:
            pass
        except Exception as e:
            ctx.violation("tebdgen:real_time_other_error", f"{type(e).__name__}: {e}", {"class": cls.__name__})

    def finish():
        failed, errors = ctx.coq_cases("gensweep", GS_HEADER, cases, shard=400)
        for path, err in errors:
            ctx.broken_obligation("correspondence:gensweep:" + path.split("/")[-1], err)
        for c in failed[:4]:
            ctx.broken_obligation("correspondence:generic_sweep_model_vs_impl", info[c])

    return finish


def normsite_stream(ctx):
    """which tensor an imaginary-time sweep divides by its norm, and where the
    orthogonality centre is afterwards - compared with the model's cfg / functions"""
    import quimb.tensor as qtn
    from quimb.tensor.tn1d.tebd import TEBD

    nrng = np.random.default_rng(ctx.seed + 31)
    cases, info = [], {}
    cid = 0
    lns_seen = set()
    for L in ctx.n([2, 3, 4, 5], [2, 3, 4, 5, 6, 7, 8]):
        H2, H1 = make_case(nrng, ctx.rng, L, False, False, True)
        ham = build_ham(ctx.rng, L, False, H2, H1)
        for imag in (True, False):
            p0 = qtn.MPS_rand_state(L, 4, dtype=complex, seed=L)
            tb = TEBD(p0, ham, dt=0.125, imag=imag, progbar=False, split_opts={"cutoff": 0.0})
            keys = []
            base = type(tb._pt)
            spy = type("SpyMPS", (base,), {"__setitem__": lambda self, k, v, _b=base, _k=keys: (_k.append(k), _b.__setitem__(self, k, v))[1]})
            tb._pt.__class__ = spy
            for direction in ("right", "left", "left", "right"):
                keys.clear()
                tb.sweep(direction, 0.5)
                ctx.count(("normsite", L, imag, direction), True)
                nrm = abs(tb._pt.H @ tb._pt) ** 0.5
                if imag:
                    if len(keys) != 1:
                        ctx.broken_obligation("normsite:observation", f"expected one tensor assignment per sweep, saw {keys}")
                        continue
                    cid += 1
                    if direction == "left":
                        lns_seen.add(keys[0])
                    info[cid] = {"L": L, "direction": direction, "normalised_site": keys[0]}
                    cases.append((cid, f"sweep_normsite {cfgl(L, False, lns=keys[0])} {dirl(direction)} =? {zlit(keys[0])}"))
                    if abs(nrm - 1) > 1e-9:
                        ctx.violation("tebd.sweep:imag:left:normalises_non_centre_site" if direction == "left" else "tebd.sweep:imag:right:unnormalised",
                                      f"imag sweep('{direction}') divides site {keys[0]} by its norm but the state norm is {nrm:.6f}",
                                      {"L": L, "direction": direction, "site": keys[0], "norm": float(nrm)})
                else:
                    lo, hi = tb._pt.calc_current_orthog_center()
                    cid += 1
                    info[cid] = {"L": L, "direction": direction, "centre": (lo, hi)}
                    cases.append((cid, f"(sweep_centre {cfgl(L, False)} {dirl(direction)} =? {zlit(lo)}) && ({zlit(lo)} =? {zlit(hi)})"))
    ctx.extra["left_sweep_normalises_site"] = sorted(lns_seen)
    hdr = "From Coq Require Import ZArith QArith Qcanon List Bool.\nFrom QV Require Import C11.Model.\nImport ListNotations.\nOpen Scope Z_scope.\n"
    def finish():
        failed, errors = ctx.coq_cases("normsite", hdr, cases, shard=400)
        for path, err in errors:
            ctx.broken_obligation("correspondence:normsite:" + path.split("/")[-1], err)
        for c in failed[:3]:
            ctx.broken_obligation("correspondence:sweep_centre_normsite_model_vs_impl", info[c])

    return finish


def convergence_stream(ctx):
    """(thorough, test) error against exact evolution shrinks like dt ** order.  Periodic chains: an MPS without
    canonical form doubles its bonds with every sweep, so only orders 1, 2 with one / two / four steps are fitted."""
    import quimb.tensor as qtn
    from quimb.tensor.tn1d.tebd import TEBD

    nrng = np.random.default_rng(ctx.seed + 41)
    for L, cyclic in [(4, False), (5, False), (6, False), (7, False), (4, True), (6, True), (3, True), (5, True)]:
        H2, H1 = make_case(nrng, ctx.rng, L, cyclic, True, True, uniform_h1=cyclic)
        for k in H2:
            H2[k] = H2[k] * (0.2 if cyclic else 0.5)
        if H1 is not None:
            H1 = {k: v * (0.2 if cyclic else 0.5) for k, v in H1.items()}
        ham = build_ham(ctx.rng, L, cyclic, H2, H1)
        terms = ref_pair_terms(L, cyclic, H2, H1)
        ref = DenseRef(L, cyclic, terms, False)
        p0 = qtn.MPS_rand_state(L, 1 if cyclic else 2, dtype=complex, cyclic=cyclic, seed=L)
        T = 0.4 if cyclic else 0.5
        exact = ref.exact(dense_vec(p0), T)
        for order in ((1, 2) if cyclic else (1, 2, 4)):
            dts = [0.4, 0.2, 0.1] if cyclic else ([0.1, 0.05, 0.025] if order < 4 else [0.25, 0.125, 0.0625])
            errs, capped = [], False
            for dt in dts:
                tb = TEBD(p0, ham, dt=dt, progbar=False,
                          split_opts={"cutoff": 1e-12, "max_bond": 2 * BOND_CAP} if cyclic else {"cutoff": 0.0})
                tb.update_to(T, order=order)
                capped = capped or (cyclic and tb._pt.max_bond() >= 2 * BOND_CAP)
                errs.append(np.linalg.norm(dense_vec(tb.pt) - exact))
            if capped:
                ctx.bump("slope_inconclusive_bond_cap")
                continue
            slope = np.polyfit(np.log(dts), np.log(np.maximum(errs, 1e-300)), 1)[0]
            # odd periodic chains: the colouring is not a symmetric splitting, only first order is required
            need = 1 if (cyclic and L % 2 == 1) else order
            ctx.count(("slope", L, cyclic, order), True)
            ctx.bump("slope_fits")
            ctx.extra.setdefault("slopes", []).append({"L": L, "cyclic": cyclic, "order": order, "slope": round(float(slope), 2),
                                                       "errors": [float(f"{e:.3e}") for e in errs]})
            slack = 0.5 if (cyclic and L % 2 == 1) else 0.4  # odd periodic: few coarse steps only, error must still shrink
            if slope < need - slack and errs[-1] > 1e-9:
                ctx.violation(f"tebd:convergence_order:order={order}" + (":cyclic" if cyclic else ""),
                              f"error vs exact evolution scales like dt^{slope:.2f}, expected dt^{need}",
                              {"L": L, "cyclic": cyclic, "order": order, "dts": dts, "errors": [float(e) for e in errs]})


def run(ctx):
    ctx.extra["rule"] = RULE
    ctx.trusted_base += [
        "hand-written models coq/C11/Model.v (trotter_schedule, TEBD clock / queue machine, sweep bond colouring) and "
        "coq/C11/HamModel.v (LocalHamGen / LocalHam1D term bookkeeping); tie = correspondence evaluated in Coq against "
        "traces of the running classes (gate application observed by rebinding get_gate_expm / gate_split_ on the "
        "instances; t, _dt, _queued_sweep, err read after every call) and against the stored terms on integer matrices",
        "the Python harness (generators, trace recorder, exact float -> rational conversion, dense references)",
        "C11_suzuki_cubic uses the standard-library axioms of Coq's real numbers",
    ]
    ctx.assumptions += [
        "modelled, not verified: the clock is modelled in integer multiples of a fixed unit (exact for the dyadic "
        "floats the correspondence uses; TARGET_TOL = 1e-13 is below one unit, cTolU = 0); fractions are exact rationals, "
        "the order-4 coefficient is the rational value of the float 1 / (4 - 4 ** (1 / 3)) and order-4 / non power-of-two "
        "step histories are compared at 2^-30 units",
        "choose_time_step is an oracle input of the model (the harness supplies the value of the documented formula "
        "(tol / (T * norm)) ** (1 / order) and the implementation must reproduce it)",
        "not modelled: scipy.linalg.expm, the SVD split of gate_split_ (truncation), MPS canonicalisation - exercised "
        "only by the dense oracle stream (tolerance 1e-9 open chains with cutoff 0, 1e-7 periodic chains with the default "
        "cutoff and at most two steps, since periodic MPS bonds double with every sweep)",
        "not covered by a theorem: the convergence RATE O(dt^order); measured as a slope against exact evolution in the "
        "thorough tier (test)",
    ]
    if os.environ.get("C11_SKIP_PROPS") and STAGES:  # development aid (mutation runs): correspondence / oracle only
        ctx.trusted_base.append("DEVELOPMENT RUN: theorems not re-checked")
    else:
      ctx.check_props(["C11/Model.vo", "C11/Proofs.vo", "C11/Sched.vo", "C11/Suzuki.vo", "C11/Bonds.vo", "C11/HamModel.vo",
                       "C11/HamProofs.vo", "C11/GenProofs.vo", "C11/Props.v"])
    import threading
    import time

    wall = ctx.extra.setdefault("stage_wall_s", {})
    threads = []

    def timed(name, fn, always=True):
        """run one stage; a stage may return a closure that evaluates its cases in Coq - those run in
        background threads (they only wait for coqc) while the numerical streams run here"""
        if (STAGES and name not in STAGES) or (not STAGES and not always):
            return
        t = time.time()
        fin = ctx.stage(fn)
        wall[name] = round(time.time() - t, 1)
        if callable(fin):
            def job():
                t1 = time.time()
                ctx.stage(lambda _ctx: fin())
                wall[name + "_coq"] = round(time.time() - t1, 1)
            th = threading.Thread(target=job)
            th.start()
            threads.append(th)

    timed("machine", machine_stream)
    timed("ham", ham_stream)
    timed("sched", schedule_stream)
    timed("normsite", normsite_stream)
    timed("oracle", oracle_stream)
    timed("edge", edge_stream)
    timed("lattice", lattice_stream)
    timed("gensweep", gensweep_stream)
    timed("convergence", convergence_stream, always=not ctx.quick)
    for th in threads:
        th.join()


def replay(ctx, path):
    """a replay file that carries a history is re-run through the trace / model comparison and the searcher;
    everything else is reproduced by the (seeded, deterministic) full run"""
    import json

    with open(path) as f:
        d = json.load(f)
    rp = d.get("replay", {})
    hist = rp.get("history") if isinstance(rp, dict) else None
    if isinstance(hist, dict) and "ops" in hist:
        ctx.extra["rule"] = RULE
        for o in hist["ops"]:
            if "frac" in o:
                o["frac"] = Fraction(o["frac"])
        fin = machine_stream(ctx, only=[hist])
        if callable(fin):
            fin()
        r = run_history(hist)
        if not r["init_rejected"]:
            search_history(ctx, hist, r["cops"])
        return
    if d.get("seed") is not None:
        ctx.seed = int(d["seed"])
    run(ctx)

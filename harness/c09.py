"""C09 - MPS/MPO arithmetic and 1D compression match dense linear algebra.

Proof part (coq/C09): over any commutative ring, for every length and all bond /
physical dimensions: the block-diagonal direct sum behind MPS/MPO addition denotes
the sum (open and periodic), per-tensor scalars multiply the amplitude by their
product (TensorNetwork.multiply), operator application contracts exactly the chosen
physical label (lower / upper; the four operator-operator cases); the sweep machine
of compress(form): bond cap for every history, bonds never grow, canonical form.
Tie (H, exact, evaluated in Coq): integer / Gaussian-integer MPS and MPO go through
the implementation; the dense form of the RESULT network (computed by the model's
`dense` from the dumped result tensors) must equal the expectation computed in Coq
from the dense forms of the INPUT networks with the list helpers of C09/Model.v.
Oracle (tolerance, tests): every 1D compression method x sweep direction x input
kind; from_dense round trips; float data through the same operations; operands with
stored exponents through every arithmetic entry point.
Record histories (coq/C09/RecordModel.v, Record.v): calls sharing one caller-supplied
`info` dict - the record info["cur_orthog"] equals the proved model's after every call
(exact), values / truncation errors against numpy (tolerance, tests).
"""

import inspect
import itertools
import math

import numpy as np

from harness import tnmodel as tm
from harness.common import blit, natlist, natlit

RULE = (
    "exact stream: MPS/MPO with L in 1..5, site-dependent physical dims in {1,2,3} and bond dims in {1,2,3}, "
    "open boundaries (periodic for L in {3,4} where the operation supports it), entries integers or Gaussian "
    "integers in [-2,2]; operations: + - (4 spellings), scalar multiples (5 spellings x spread_over), "
    "operator-on-vector (lower/upper, contracted or lazy), operator-on-operator (4 label choices), overlap, "
    "expec, norm, trace, partial trace (all keep subsets), partial transpose, .H, permute_arrays, constructor "
    "layouts, named generators, sub-MPOs on site subsets, compress(form) bond arithmetic. Non-trivial: L >= 2 "
    "and some bond > 1. oracle stream: every method of tensor_network_1d_compress x sweep direction x "
    "{MPS, MPO.MPS lazy, MPO.MPO lazy, sub-MPO on a site subset, sum of two MPS} x {no truncation, truncation}; "
    "every method x all six boolean options (normalize, sweep_reverse, canonize, permute_arrays, equalize_norms, inplace; "
    "quick: the 4 normalize x sweep_reverse settings x 2 complementary settings of the rest, thorough: all 64) with the "
    "promise of each option checked; bond cap of every method (and gate_with_mpo) for caps off the doubling schedule "
    "(9..23 and 3,5,6,7) on rank-32 targets; MatrixProductState.compress_site against the sequential SVD optimum. "
    "record histories: 2-6 calls sharing ONE caller-supplied info dict on a generic non-canonical MPS (L 5..8, bond 3..5, "
    "non-flat spectra; initial info missing / 'calc' / None / a true pair / a wider true pair): canonicalize (int, 1-tuple, "
    "pair, reversed pair; in place or not), gate_with_submpo / gate_nonlocal / gate(contract='nonlocal') on site subsets x "
    "sweep_reverse x {direct, dm, zipup (thorough: src, fit)} x in place or not x transpose x {untruncated, max_bond 1..3}, "
    "compute_local_expectation (canonical on a copy / in place, envs), local_expectation_canonical, "
    "partial_trace_to_dense_canonical on 1-3 terms (bare site, adjacent, distant, reversed pairs), normalized or not; families: "
    "random, an untruncated application followed by a truncating 'direct' one placed left of / inside / overlapping / right "
    "of it, queries at both ends of the chain followed by a call that consumes the record. stored exponents: every arithmetic "
    "entry point on operands whose .exponent is drawn independently from {0,+-1,+-2,3}."
)

HEADER = tm.HEADER + "From QV Require Import C09.Model.\n"

COST_CAP = 60000  # label-assignments x tensors per `dense` evaluation inside Coq


# ----------------------------------------------------------------------------
# small helpers


def gl(x):
    return tm.glit(x)


def rarr(rng, shape, cplx, lo=-2, hi=2):
    n = int(np.prod(shape)) if len(shape) else 1
    if cplx:
        v = np.array([complex(rng.randint(lo, hi), rng.randint(lo, hi)) for _ in range(n)])
    else:
        v = np.array([float(rng.randint(lo, hi)) for _ in range(n)])
    return v.reshape(shape)


def rand_dims(rng, L, cyclic, maxb, maxp, nphys=1):
    choices = [1, 2, 2, 2] if maxp <= 2 else [1, 2, 2, 2, 3]
    phys = [tuple(rng.choice(choices) for _ in range(nphys)) for _ in range(L)]
    nb = L if cyclic else L - 1
    bonds = [rng.randint(1, maxb) for _ in range(nb)]
    return phys, bonds


def site_shape(i, L, cyclic, bonds, phys):
    shp = []
    if cyclic or i > 0:
        shp.append(bonds[(i - 1) % len(bonds)] if cyclic else bonds[i - 1])
    if cyclic or i < L - 1:
        shp.append(bonds[i])
    shp.extend(phys[i])
    return tuple(shp)


def build_mps(rng, L, cplx, cyclic=False, maxb=2, maxp=3, phys=None, bonds=None, fill=None):
    import quimb.tensor as qtn

    if phys is None or bonds is None:
        p2, b2 = rand_dims(rng, L, cyclic, maxb, maxp, 1)
        phys = phys or p2
        bonds = bonds or b2
    phys = [tuple(p) if isinstance(p, (tuple, list)) else (p,) for p in phys]
    arrays = [(fill or rarr)(rng, site_shape(i, L, cyclic, bonds, phys), cplx) for i in range(L)]
    return qtn.MatrixProductState(arrays, shape="lrp")


def build_mpo(rng, L, cplx, cyclic=False, maxb=2, phys=None, bonds=None, sites=None, Ltot=None, fill=None):
    import quimb.tensor as qtn

    if phys is None or bonds is None:
        p2, b2 = rand_dims(rng, L, cyclic, maxb, 2, 2)
        phys = phys or p2
        bonds = bonds or b2
    arrays = [(fill or rarr)(rng, site_shape(i, L, cyclic, bonds, phys), cplx) for i in range(L)]
    kw = {}
    if sites is not None:
        kw = {"sites": sites, "L": Ltot}
    return qtn.MatrixProductOperator(arrays, shape="lrud", **kw)


def outs_of(tn):
    """output labels in the order of to_dense(): site order; operators: uppers then lowers."""
    sites = list(tn.gen_sites_present())
    if hasattr(tn, "upper_ind_id"):
        return [tn.upper_ind(i) for i in sites] + [tn.lower_ind(i) for i in sites]
    return [tn.site_ind(i) for i in sites]


def dims_of(tn, labels):
    return [int(tn.ind_size(ix)) for ix in labels]


def cost_of(tensors, outs):
    dims = {}
    for inds, arr in tensors:
        for ix, d in zip(inds, np.shape(arr)):
            dims[ix] = int(d)
    c = 1
    for d in dims.values():
        c *= d
    return c * max(1, len(tensors))


COST = {"units": 0, "max": 0}


def dense_expr(tensors, outs):
    c = cost_of(tensors, outs)
    COST["units"] += c
    COST["max"] = max(COST["max"], c)
    namer = tm.Namer()
    ids = [namer(o) for o in outs]
    dl, tl, _ = tm.net_literal(tensors, namer)
    return f"(dense {dl} {tl} {tm.nlist(ids)})"


def D_in(tn, outs=None):
    """Coq dense form of an INPUT network (always evaluated by the model)."""
    return dense_expr(tm.qtn_tensors(tn), outs_of(tn) if outs is None else outs)


def np_in(tn, outs=None):
    outs = outs_of(tn) if outs is None else outs
    return np.asarray(tm.np_dense(tm.qtn_tensors(tn), outs)).reshape(-1)


class NotComparable(Exception):
    pass


def D_res(ctx, tn, outs):
    """Coq dense form of a RESULT network: the model's `dense` of the dumped tensors when
    affordable, otherwise the implementation's own dense array as a literal."""
    tensors = tm.qtn_tensors(tn)
    have = set()
    for inds, _ in tensors:
        have.update(inds)
    if not set(outs) <= have:
        raise NotComparable(f"result lacks output labels {sorted(set(outs) - have)}")
    e = float(getattr(tn, "exponent", 0.0))
    if e != 0.0:
        raise NotComparable(f"result carries exponent {e}")
    if cost_of(tensors, outs) <= (COST_CAP if not ctx.quick else COST_CAP // 3):
        ctx.bump("result_dense:model")
        return dense_expr(tensors, outs)
    ctx.bump("result_dense:impl_literal")
    return tm.glist(tm.np_dense(tensors, outs).reshape(-1))


def np_res(tn, outs):
    return np.asarray(tm.np_dense(tm.qtn_tensors(tn), outs, float(getattr(tn, "exponent", 0.0)))).reshape(-1)


def close(a, b, tol=1e-9):
    a, b = np.asarray(a).reshape(-1), np.asarray(b).reshape(-1)
    if a.shape != b.shape:
        return False
    if not (np.all(np.isfinite(a)) and np.all(np.isfinite(b))):
        return False
    return bool(np.allclose(a, b, rtol=tol, atol=tol * max(1.0, float(np.abs(b).max()) if b.size else 1.0)))


def describe(tn):
    return {
        "class": type(tn).__name__,
        "L": int(tn.L),
        "cyclic": bool(getattr(tn, "cyclic", False)),
        "arrays": [{"inds": list(t.inds), "shape": list(t.shape),
                    "data": [[float(np.real(v)), float(np.imag(v))] for v in np.asarray(t.data).reshape(-1)]}
                   for t in tn.tensors],
    }


class Collector:
    """exact cases: (Coq bool expression, numpy oracle deciding whether a mismatch is a
    genuine failing input of the implementation)."""

    def __init__(self, ctx):
        self.ctx = ctx
        self.cases = []
        self.info = {}

    def add(self, desc, expr, oracle):
        cid = len(self.cases) + 1
        self.cases.append((cid, expr))
        self.info[cid] = (desc, oracle)

    def run(self, name, shard=40, header=None):
        ctx = self.ctx
        failed, errors = ctx.coq_cases(name, header or HEADER, self.cases, shard=shard)
        for path, err in errors:
            ctx.broken_obligation(f"correspondence:{name}:" + path.split("/")[-1], err)
        for c in failed:
            desc, oracle = self.info[c]
            verdict = None
            try:
                verdict = oracle()
            except Exception as e:  # the oracle itself failed: report the case as it is
                verdict = (desc.get("op", name), f"oracle raised {type(e).__name__}: {e}", desc)
            if verdict is None:
                ctx.broken_obligation(f"correspondence:{name}:model_vs_numpy_disagree", desc)
            else:
                key, what, replay = verdict
                ctx.violation(key, what + " (exact mismatch against the Coq-evaluated expectation)", replay)
        ctx.extra[f"coq_cases_{name}"] = len(self.cases)
        ctx.extra["coq_dense_cost_units"] = dict(COST)


def guarded(ctx, key, desc, fn):
    """run an implementation call that must succeed on a valid input"""
    try:
        return fn()
    except NotComparable:
        raise
    except Exception as e:
        ctx.violation(f"{key}:raised", f"{desc.get('op', key)} raised {type(e).__name__}: {str(e)[:160]}", desc)
        return None


def expect_vec(ctx, col, key, desc, res, outs, coq_expected, np_expected):
    """register: dense(res over outs) == coq_expected ; oracle compares with np_expected"""
    if res is None:
        return
    try:
        lhs = D_res(ctx, res, outs)
    except (NotComparable, tm.NotExact, ValueError) as e:
        # not exactly representable: decide with the numpy oracle right away
        try:
            got = np_res(res, outs)
            ok = close(got, np_expected)
        except Exception:
            ok = False
        if not ok:
            ctx.violation(key, f"{desc['op']} differs from the dense reference ({e})", desc)
        else:
            ctx.bump("inexact_but_close")
        return

    def oracle():
        got = np_res(res, outs)
        if close(got, np_expected):
            return None
        return (key, f"{desc['op']} differs from the dense reference", desc)

    col.add(desc, f"glist_eqb {lhs} {coq_expected}", oracle)


def expect_scalar(ctx, col, key, desc, val, coq_expected, np_expected):
    if val is None:
        return
    try:
        lit = gl(val)
    except tm.NotExact:
        if not close([val], [np_expected]):
            ctx.violation(key, f"{desc['op']} = {val} differs from the dense reference {np_expected}", desc)
        else:
            ctx.bump("inexact_but_close")
        return

    def oracle():
        if close([val], [np_expected]):
            return None
        return (key, f"{desc['op']} = {val} differs from the dense reference {np_expected}", desc)

    col.add(desc, f"geqb {coq_expected} {lit}", oracle)


# ----------------------------------------------------------------------------
# exact stream 1: sums, differences, scalar multiples


def site_arr3(tn, i):
    """site tensor as (left bond | 1, right bond | 1, fused physical) + pad flags"""
    L = tn.L
    cyc = bool(tn.cyclic)
    t = tn[tn.site_tag(i)]
    lb = tn.bond((i - 1) % L, i) if (L > 1 and (cyc or i > 0)) else None
    rb = tn.bond(i, (i + 1) % L) if (L > 1 and (cyc or i < L - 1)) else None
    if hasattr(tn, "upper_ind_id"):
        phys = [tn.upper_ind(i), tn.lower_ind(i)]
    else:
        phys = [tn.site_ind(i)]
    order = [x for x in (lb, rb) if x is not None] + phys
    arr = np.asarray(t.transpose(*order).data)
    dl = t.ind_size(lb) if lb is not None else 1
    dr = t.ind_size(rb) if rb is not None else 1
    return arr.reshape(dl, dr, -1), lb is not None, rb is not None


def add_stream(ctx, col):
    rng = ctx.rng
    for n in range(ctx.n(26, 400)):
        L = rng.choice([1, 2, 2, 3, 3, 3, 4, 4, 5])
        cyclic = L in (3, 4) and rng.random() < 0.3
        cplx = rng.random() < 0.4
        kind = rng.choice(["mps", "mps", "mpo"])
        maxb = 2 if L >= 4 else 3
        if kind == "mps":
            phys, _ = rand_dims(rng, L, cyclic, maxb, 3 if L <= 3 else 2, 1)
            a = build_mps(rng, L, cplx, cyclic, maxb, phys=phys)
            b = build_mps(rng, L, cplx and rng.random() < 0.8, cyclic, maxb, phys=phys)
        else:
            if L == 5:
                L = 4
            phys, _ = rand_dims(rng, L, cyclic, maxb, 2, 2)
            a = build_mpo(rng, L, cplx, cyclic, maxb, phys=phys)
            b = build_mpo(rng, L, cplx and rng.random() < 0.8, cyclic, maxb, phys=phys)
        outs = outs_of(a)
        base = {"L": L, "cyclic": cyclic, "kind": kind, "complex": cplx,
                "bonds_a": a.bond_sizes() if L > 1 else [], "bonds_b": b.bond_sizes() if L > 1 else []}
        nontriv = L >= 2 and max(base["bonds_a"] + base["bonds_b"] + [1]) > 1
        da, db = np_in(a), np_in(b)
        for op in rng.sample(["add", "sub", "method", "inplace", "radd_neg"], 3):
            desc = {**base, "op": f"{kind}:{op}", "a": describe(a), "b": describe(b)}
            ctx.count((n, op), nontriv)
            ctx.bump(f"sum:{kind}:{'pbc' if cyclic else 'obc'}")
            if n < 2 and op == "add":
                ctx.sample({k: v for k, v in desc.items() if k not in ("a", "b")})
            sign = 1
            if op == "add":
                fn = lambda: a + b
            elif op == "sub":
                fn, sign = (lambda: a - b), -1
            elif op == "method":
                fn = (lambda: a.add_MPS(b)) if kind == "mps" else (lambda: a.add_MPO(b))
            elif op == "inplace":
                def fn():
                    c = a.copy()
                    (c.add_MPS_(b) if kind == "mps" else c.add_MPO_(b))
                    return c
            else:
                fn, sign = (lambda: a + (-b)), -1
            key = f"sum:{kind}:{op}"
            res = guarded(ctx, key, desc, fn)
            if res is None:
                continue
            if type(res) is not type(a) or outs_of(res) != outs:
                ctx.violation(key + ":structure", f"{op} returns {type(res).__name__} with labels {outs_of(res)[:3]}...", desc)
                continue
            coq = f"({'vadd' if sign > 0 else 'vsub'} {D_in(a)} {D_in(b)})"
            expect_vec(ctx, col, key, desc, res, outs, coq, da + sign * db)
            # site level: the result arrays ARE the direct sums of the model (ties dsum / vcat to array_direct_product)
            if op in ("add", "method", "inplace"):
                try:
                    parts = []
                    for i in range(L):
                        A3, pl, pr = site_arr3(a, i)
                        B3, _, _ = site_arr3(b, i)
                        S3, _, _ = site_arr3(res, i)
                        parts.append(
                            f"site_sum_check {blit(pl)} {blit(pr)} {natlist(A3.shape)} {tm.glist(A3)} "
                            f"{natlist(B3.shape)} {tm.glist(B3)} {natlist(S3.shape)} {tm.glist(S3)}")
                    d2 = {**desc, "op": desc["op"] + ":site_arrays"}

                    def oracle(res=res, d2=d2, key=key):
                        if close(np_res(res, outs), da + db):
                            # value right but array layout differs from the modelled direct sum: model question
                            return None
                        return (key, "sum differs from the dense reference", d2)

                    col.add(d2, " && ".join(f"({p})" for p in parts), oracle)
                    ctx.count((n, op, "sites"), nontriv)
                except (tm.NotExact, ValueError):
                    ctx.bump("site_check_skipped")


def int_pow(g, k):
    """exact Gaussian-integer power as python complex built from ints"""
    re, im = 1, 0
    gr, gi = int(round(g.real)), int(round(g.imag))
    for _ in range(k):
        re, im = re * gr - im * gi, re * gi + im * gr
    return re, im


def scale_stream(ctx, col):
    rng = ctx.rng
    schedule = [(sp, xc) for sp in ("mul", "rmul", "multiply", "multiply_inplace", "imul") for xc in ("pos", "neg", "complex")]
    schedule += [("div", "pos"), ("neg", "neg"), ("each", "pos"), ("each", "complex")]
    schedule = schedule * ctx.n(2, 20)
    for n, (spell, xclass) in enumerate(schedule):
        L = rng.choice([2, 3, 3, 4, 4, 5]) if n < 19 else rng.choice([1, 2, 3, 3, 4, 4, 5])
        kind = rng.choice(["mps", "mps", "mpo"])
        cyclic = L in (3, 4) and rng.random() < 0.2
        cplx_data = rng.random() < 0.3
        if kind == "mps":
            a = build_mps(rng, L, cplx_data, cyclic, 2, 3 if L <= 3 else 2)
        else:
            L = min(L, 4)
            a = build_mpo(rng, L, cplx_data, cyclic, 2)
        outs = outs_of(a)
        nt = a.num_tensors
        spread = rng.choice([8, 2, 3, "all", 1]) if spell in ("multiply", "multiply_inplace") else 8
        k = nt if spread == "all" else min(nt, spread)
        cplx_x = xclass == "complex"
        if spell == "neg":
            xr, xi, k_eff = -1, 0, 1
        elif spell == "each":
            g = complex(rng.choice([2, -1, 3]), rng.choice([0, 1]) if cplx_x else 0)
            xr, xi = int_pow(g, nt)
            k_eff = nt
        elif spell == "div":
            xr, xi, k_eff = 2 ** k, 0, k
        elif cplx_x:
            g = complex(2, 1) if k <= 6 else complex(2, 0)
            xr, xi = int_pow(g, k)
            k_eff = k
        else:
            r = rng.choice([2, 3]) if k <= 5 else 2
            xr, xi = (-1 if xclass == "neg" else 1) * r ** k, 0
            k_eff = k
        x = complex(xr, xi) if (cplx_x or xi != 0) else float(xr)
        base = {"L": L, "kind": kind, "cyclic": cyclic, "spelling": spell, "spread_over": spread, "x": [xr, xi],
                "x_is_complex": isinstance(x, complex), "num_tensors": nt}
        desc = {**base, "op": f"scale:{spell}", "a": describe(a)}
        ctx.count((n, spell), L >= 2)
        ctx.bump(f"scale:{spell}")
        if n < 1:
            ctx.sample(base)
        if spell == "mul":
            fn = lambda: a * x
        elif spell == "rmul":
            fn = lambda: x * a
        elif spell == "multiply":
            fn = lambda: a.multiply(x, spread_over=spread)
        elif spell == "multiply_inplace":
            def fn():
                c = a.copy()
                c.multiply_(x, spread_over=spread)
                return c
        elif spell == "imul":
            def fn():
                c = a.copy()
                c *= x
                return c
        elif spell == "div":
            fn = lambda: a / (2.0 ** -k)
        elif spell == "neg":
            fn = lambda: -a
        else:
            each = complex(g) if (cplx_x or g.imag != 0) else float(g.real)
            fn = lambda: a.multiply_each(each)
        key = f"scale:{spell}"
        res = guarded(ctx, key, desc, fn)
        if res is None:
            continue
        coq = f"(vscale (({xr})%Z, ({xi})%Z) {D_in(a)})"
        expect_vec(ctx, col, key, desc, res, outs, coq, complex(xr, xi) * np_in(a))
        # the plan: how many tensors were touched
        if spell in ("mul", "rmul", "multiply", "multiply_inplace", "imul") and (xr, xi) != (1, 0):
            touched = sum(1 for t0, t1 in zip(a.tensors, res.tensors)
                          if not np.array_equal(np.asarray(t0.data), np.asarray(t1.data)))
            zero_tensors = sum(1 for t0 in a.tensors if not np.any(np.asarray(t0.data)))
            if zero_tensors == 0:
                sp = nt if spread == "all" else spread
                d2 = {**base, "op": "scale:plan", "touched": touched}
                col.add(d2, f"mres_touched (multiply_plan {natlit(nt)} {natlit(sp)} {blit(isinstance(x, complex))} false) {natlit(touched)}",
                        lambda d2=d2: None if d2["touched"] == (nt if spread == "all" else min(nt, spread)) else
                        ("scale:plan", "multiply touched an unexpected number of tensors", d2))
    # zero scalars (DESIGN F18)
    zero_scalar_stream(ctx)


def zero_scalar_stream(ctx):
    import warnings

    rng = ctx.rng
    for L in ([1, 2, 3, 5] if ctx.quick else [1, 2, 3, 4, 5, 9]):
        for zname, z in [("float", 0.0), ("int", 0), ("np.float64", np.float64(0.0)), ("complex", 0j)]:
            for spell in ("mul", "multiply_spread1", "rmul"):
                a = build_mps(rng, L, False, False, 2, 2)
                ref = np.zeros_like(np_in(a))
                desc = {"op": f"scale_zero:{spell}", "L": L, "zero_type": zname, "a": describe(a),
                        "repro": f"MPS (L={L}) {'*' if spell != 'multiply_spread1' else '.multiply(spread_over=1)'} {zname} zero"}
                ctx.count(("zero", L, zname, spell), L >= 2)
                ctx.bump("scale:zero")
                try:
                    with warnings.catch_warnings():
                        warnings.simplefilter("ignore")
                        with np.errstate(all="ignore"):
                            if spell == "mul":
                                r = a * z
                            elif spell == "rmul":
                                r = z * a
                            else:
                                r = a.multiply(z, spread_over=1)
                    got = np_res(r, outs_of(a))
                    ok = close(got, ref)
                    how = "returns a network that is not zero (NaN)" if not ok else ""
                except ZeroDivisionError as e:
                    ok, how = False, f"raises ZeroDivisionError ({e})"
                except Exception as e:
                    ok, how = False, f"raises {type(e).__name__} ({e})"
                if not ok:
                    real = zname != "complex"
                    key = "multiply:real_zero:spread_over>1" if (real and L > 1 and spell != "multiply_spread1") else f"multiply:zero:{zname}:{spell}"
                    ctx.violation(key, f"0 * psi {how}; expected the zero vector", desc)


# ----------------------------------------------------------------------------
# exact stream 2: operator application, overlaps, expectations, traces, transposes


def prod(xs):
    r = 1
    for x in xs:
        r *= int(x)
    return r


def apply_vec_stream(ctx, col):
    from quimb.tensor.tnag.core import tensor_network_apply_op_vec

    rng = ctx.rng
    for n in range(ctx.n(40, 480)):
        L = rng.choice([1, 2, 2, 3, 3, 4])
        cyclic = L == 3 and rng.random() < 0.2
        cplx = rng.random() < 0.4
        big = [1, 2, 2, 3] if L <= 2 else [1, 2, 2]
        ups = [rng.choice(big) for _ in range(L)]
        lows = [rng.choice(big) for _ in range(L)]
        A = build_mpo(rng, L, cplx, cyclic, 2, phys=list(zip(ups, lows)))
        which = ["lower", "upper", "lower"][n % 3]
        pin = lows if which == "lower" else ups
        pout = ups if which == "lower" else lows
        psi = build_mps(rng, L, cplx and rng.random() < 0.7, cyclic, 2, phys=pin)
        if which == "lower":
            variant = rng.choice(["apply", "apply_nocontract", "apply_inplaceA", "op_vec", "gate_lazy", "gate_lazy_inplace", "dot"])
        else:
            variant = rng.choice(["op_vec", "gate_lazy_T"])
        contract = rng.random() < 0.5
        fuse = rng.random() < 0.7
        base = {"L": L, "cyclic": cyclic, "complex": cplx, "upper_dims": ups, "lower_dims": lows, "which_A": which,
                "variant": variant, "contract": contract, "fuse_multibonds": fuse}
        desc = {**base, "op": f"apply_op_vec:{which}:{variant}", "A": describe(A), "x": describe(psi)}
        ctx.count((n, "opvec"), L >= 2)
        ctx.bump(f"apply_vec:{which}")
        if n < 1:
            ctx.sample(base)
        if variant == "apply":
            fn = lambda: A.apply(psi)
        elif variant == "dot":
            fn = lambda: A.dot(psi)
        elif variant == "apply_nocontract":
            fn = lambda: A.apply(psi, contract=False)
        elif variant == "apply_inplaceA":
            fn = lambda: A.copy().apply_(psi)
        elif variant == "op_vec":
            fn = lambda: tensor_network_apply_op_vec(A, psi, which_A=which, contract=contract, fuse_multibonds=fuse)
        elif variant == "gate_lazy":
            fn = lambda: psi.gate_with_op_lazy(A)
        elif variant == "gate_lazy_inplace":
            def fn():
                c = psi.copy()
                c.gate_with_op_lazy_(A)
                return c
        else:
            fn = lambda: psi.gate_with_op_lazy(A, transpose=True)
        key = f"apply_op_vec:{which}"
        A0, psi0 = describe(A), describe(psi)
        res = guarded(ctx, key, desc, fn)
        if res is None:
            continue
        if variant != "apply_inplaceA" and (describe(A) != A0 or describe(psi) != psi0):
            ctx.violation(key + ":mutated_input", f"{variant} modified its inputs", desc)
        nu, nl = prod(ups), prod(lows)
        MA = np_in(A).reshape(nu, nl)
        v = np_in(psi)
        outs = [psi.site_ind(i) for i in range(L)]
        if which == "lower":
            coq = f"(matvec {natlit(nu)} {natlit(nl)} {D_in(A)} {D_in(psi)})"
            ref = MA @ v
        else:
            coq = f"(matvec {natlit(nl)} {natlit(nu)} (mtranspose {natlit(nu)} {natlit(nl)} {D_in(A)}) {D_in(psi)})"
            ref = MA.T @ v
        if [int(res.ind_size(o)) for o in outs if o in res.ind_map] != pout:
            ctx.violation(key + ":structure", "result physical dimensions are not those of the operator's free label", desc)
            continue
        expect_vec(ctx, col, key, desc, res, outs, coq, ref)


def apply_op_stream(ctx, col):
    from quimb.tensor.tnag.core import tensor_network_apply_op_op

    rng = ctx.rng
    for n in range(ctx.n(32, 400)):
        L = rng.choice([1, 2, 2, 3, 3])
        cyclic = L == 3 and rng.random() < 0.15
        cplx = rng.random() < 0.4
        ch = [1, 2, 2, 3] if L <= 2 else [1, 2, 2]
        cs = [rng.choice(ch) for _ in range(L)]
        as_ = [rng.choice(ch) for _ in range(L)]
        bs = [rng.choice(ch) for _ in range(L)]
        wA, wB = [("lower", "upper"), ("lower", "lower"), ("upper", "upper"), ("upper", "lower"), ("lower", "upper")][n % 5]
        physA = [(a, c) if wA == "lower" else (c, a) for a, c in zip(as_, cs)]
        physB = [(c, b) if wB == "upper" else (b, c) for b, c in zip(bs, cs)]
        A = build_mpo(rng, L, cplx, cyclic, 2, phys=physA)
        B = build_mpo(rng, L, cplx and rng.random() < 0.7, cyclic, 2, phys=physB)
        variant = rng.choice(["apply", "op_op", "op_op", "apply_inplaceA"]) if (wA, wB) == ("lower", "upper") else "op_op"
        contract = rng.random() < 0.6
        base = {"L": L, "cyclic": cyclic, "complex": cplx, "which_A": wA, "which_B": wB, "variant": variant,
                "contract": contract, "A_dims": physA, "B_dims": physB}
        desc = {**base, "op": f"apply_op_op:{wA}:{wB}:{variant}", "A": describe(A), "B": describe(B)}
        ctx.count((n, "opop"), L >= 2)
        ctx.bump(f"apply_op:{wA}/{wB}")
        if n < 1:
            ctx.sample(base)
        if variant == "apply":
            fn = lambda: A.apply(B)
        elif variant == "apply_inplaceA":
            fn = lambda: A.copy().apply_(B)
        else:
            fn = lambda: tensor_network_apply_op_op(A, B, which_A=wA, which_B=wB, contract=contract)
        key = f"apply_op_op:{wA}:{wB}"
        res = guarded(ctx, key, desc, fn)
        if res is None:
            continue
        na, nc, nb = prod(as_), prod(cs), prod(bs)
        MA = np_in(A).reshape((na, nc) if wA == "lower" else (nc, na))
        MB = np_in(B).reshape((nc, nb) if wB == "upper" else (nb, nc))
        DA, DB = D_in(A), D_in(B)
        N = natlit
        if (wA, wB) == ("lower", "upper"):
            coq, ref = f"(matmul {N(na)} {N(nc)} {N(nb)} {DA} {DB})", MA @ MB
        elif (wA, wB) == ("lower", "lower"):
            coq, ref = f"(matmul {N(nb)} {N(nc)} {N(na)} {DB} (mtranspose {N(na)} {N(nc)} {DA}))", MB @ MA.T
        elif (wA, wB) == ("upper", "upper"):
            coq, ref = f"(matmul {N(na)} {N(nc)} {N(nb)} (mtranspose {N(nc)} {N(na)} {DA}) {DB})", MA.T @ MB
        else:
            coq, ref = f"(matmul {N(nb)} {N(nc)} {N(na)} {DB} {DA})", MB @ MA
        outs = outs_of(B)
        if not hasattr(res, "upper_ind_id") or outs_of(res) != outs:
            ctx.violation(key + ":structure", "result does not carry B's outer labels", desc)
            continue
        expect_vec(ctx, col, key, desc, res, outs, coq, ref.reshape(-1))


def scalar_stream(ctx, col):
    import quimb.tensor as qtn

    rng = ctx.rng
    for n in range(ctx.n(30, 360)):
        L = rng.choice([1, 2, 3, 3, 4, 5])
        cyclic = L == 3 and rng.random() < 0.3
        cplx = rng.random() < 0.5
        ch = [1, 2, 2, 3] if L <= 3 else [2]
        phys = [rng.choice(ch) for _ in range(L)]
        p1 = build_mps(rng, L, cplx, cyclic, 2, phys=phys)
        p2 = build_mps(rng, L, cplx, cyclic, 2, phys=phys)
        Lo = min(L, 4)
        physo = phys[:Lo]
        A = build_mpo(rng, Lo, cplx, cyclic and Lo == L, 2, phys=[(p, p) for p in physo])
        B = build_mpo(rng, Lo, cplx, cyclic and Lo == L, 2, phys=[(p, p) for p in physo])
        d1, d2 = np_in(p1), np_in(p2)
        N = natlit
        ops = ["H@", "overlap", "norm2", "trace", "mpo@"]
        if L == Lo:
            ops += ["expec", "expec", "expec_method", "expec2"]
        for op in rng.sample(ops, 3):
            base = {"L": L, "cyclic": cyclic, "complex": cplx, "phys": phys}
            desc = {**base, "op": f"scalar:{op}", "p1": describe(p1), "p2": describe(p2)}
            if op in ("expec", "expec_method", "expec2", "trace", "mpo@"):
                desc["A"] = describe(A)
                desc["B"] = describe(B)
            ctx.count((n, op), L >= 2)
            ctx.bump(f"scalar:{op}")
            key = f"scalar:{op}"
            no = prod(physo)
            if op == "H@":
                val = guarded(ctx, key, desc, lambda: p1.H @ p2)
                coq, ref = f"(vdot {D_in(p1)} {D_in(p2)})", np.vdot(d1, d2)
            elif op == "overlap":
                val = guarded(ctx, key, desc, lambda: p1.overlap(p2))
                coq, ref = f"(vdot {D_in(p2)} {D_in(p1)})", np.vdot(d2, d1)
            elif op == "norm2":
                val = guarded(ctx, key, desc, lambda: p1.norm(squared=True))
                coq, ref = f"(vdot {D_in(p1)} {D_in(p1)})", np.vdot(d1, d1)
            elif op == "trace":
                val = guarded(ctx, key, desc, lambda: A.trace())
                coq, ref = f"(mtrace {N(no)} {D_in(A)})", np.trace(np_in(A).reshape(no, no))
            elif op == "mpo@":
                val = guarded(ctx, key, desc, lambda: A @ B)
                coq, ref = f"(gdot {D_in(A)} {D_in(B)})", np.sum(np_in(A) * np_in(B))
            elif op in ("expec", "expec_method"):
                if op == "expec":
                    val = guarded(ctx, key, desc, lambda: qtn.expec_TN_1D(p1.H, A, p2))
                else:
                    val = guarded(ctx, key, desc, lambda: p1.H.expec(A, p2))
                coq = f"(vdot {D_in(p1)} (matvec {N(no)} {N(no)} {D_in(A)} {D_in(p2)}))"
                ref = np.vdot(d1, np_in(A).reshape(no, no) @ d2)
            else:
                val = guarded(ctx, key, desc, lambda: qtn.expec_TN_1D(p1.H, A, B, p2))
                coq = f"(vdot {D_in(p1)} (matvec {N(no)} {N(no)} {D_in(A)} (matvec {N(no)} {N(no)} {D_in(B)} {D_in(p2)})))"
                ref = np.vdot(d1, np_in(A).reshape(no, no) @ (np_in(B).reshape(no, no) @ d2))
            expect_scalar(ctx, col, key, desc, val, coq, ref)


def ref_ptrace(d, dims, keep):
    n = len(dims)
    T = d.reshape(dims)
    row = list(range(n))
    col_ = [i + n if i in keep else i for i in range(n)]
    ks = sorted(keep)
    R = np.einsum(T, row, np.conj(T), col_, [row[i] for i in ks] + [col_[i] for i in ks])
    k = prod(dims[i] for i in ks)
    return R.reshape(k, k)


def ptrace_stream(ctx, col):
    rng = ctx.rng
    for n in range(ctx.n(16, 200)):
        L = rng.choice([1, 2, 3, 3, 4])
        cplx = rng.random() < 0.4
        phys = [rng.choice([1, 2, 2, 3] if L <= 3 else [2]) for _ in range(L)]
        psi = build_mps(rng, L, cplx, False, 2, phys=phys)
        d = np_in(psi)
        subsets = [list(c) for r in range(1, L + 1) for c in itertools.combinations(range(L), r)]
        for keep in rng.sample(subsets, min(len(subsets), 2 if ctx.quick else 4)):
            rescale = rng.random() < 0.7
            order = keep[:] if rng.random() < 0.7 else list(reversed(keep))
            base = {"L": L, "complex": cplx, "phys": phys, "keep": order, "rescale_sites": rescale}
            desc = {**base, "op": "partial_trace_to_mpo", "psi": describe(psi)}
            cls = "complex" if cplx else "real"
            key = f"partial_trace_to_mpo:{cls}_state"
            ctx.count((n, tuple(order), rescale), L >= 2 and len(keep) < L)
            ctx.bump(f"ptrace:{cls}")
            rho = guarded(ctx, key, desc, lambda: psi.partial_trace_to_mpo(order, rescale_sites=rescale))
            if rho is None:
                continue
            if not hasattr(rho, "upper_ind_id"):
                ctx.violation(key + ":structure", f"returns {type(rho).__name__}", desc)
                continue
            outs = outs_of(rho)
            mask = "[" + "; ".join(blit(i in keep) for i in range(L)) + "]"
            coq = f"(ptrace_keep {natlist(phys)} {mask} {D_in(psi)})"
            ref = ref_ptrace(d, phys, keep)
            try:
                lhs = D_res(ctx, rho, outs)
            except (NotComparable, tm.NotExact, ValueError) as e:
                if not close(np_res(rho, outs), ref.reshape(-1)):
                    ctx.violation(key, f"partial trace differs from the dense reference ({e})", desc)
                continue

            def oracle(rho=rho, outs=outs, ref=ref, desc=desc, key=key, cplx=cplx):
                got = np_res(rho, outs)
                if close(got, ref.reshape(-1)):
                    return None
                if cplx and close(got, ref.T.reshape(-1)):
                    return (key + ":transposed", "partial_trace_to_mpo(keep).to_dense() is the TRANSPOSE (complex conjugate) "
                            "of the reduced density matrix of a complex state", desc)
                return (key, "partial trace differs from the dense reference", desc)

            col.add(desc, f"glist_eqb {lhs} {coq}", oracle)


def transpose_stream(ctx, col):
    rng = ctx.rng
    for n in range(ctx.n(16, 200)):
        L = rng.choice([1, 2, 3, 3, 4])
        cyclic = L == 3 and rng.random() < 0.25
        cplx = rng.random() < 0.5
        phys = [rng.choice([1, 2, 2, 3] if L <= 2 else [1, 2, 2]) for _ in range(L)]
        A = build_mpo(rng, L, cplx, cyclic, 2, phys=[(p, p) for p in phys])
        psi = build_mps(rng, L, cplx, cyclic, 2, phys=phys)
        no = prod(phys)
        MA = np_in(A).reshape(no, no)
        N = natlit
        for op in rng.sample(["partial_transpose", "full_transpose", "H_mpo", "conj_mpo", "H_mps", "partial_transpose_inplace"], 3):
            base = {"L": L, "cyclic": cyclic, "complex": cplx, "phys": phys}
            desc = {**base, "op": f"transpose:{op}", "A": describe(A)}
            key = f"transpose:{op}"
            ctx.count((n, op), L >= 2)
            ctx.bump(f"transpose:{op}")
            if op in ("partial_transpose", "partial_transpose_inplace", "full_transpose"):
                sysa = list(range(L)) if op == "full_transpose" else rng.sample(range(L), rng.randint(1, L))
                desc["sysa"] = sysa
                arg = sysa[0] if (len(sysa) == 1 and rng.random() < 0.5) else sysa
                if op == "partial_transpose_inplace":
                    def fn():
                        c = A.copy()
                        c.partial_transpose_(arg)
                        return c
                else:
                    fn = lambda: A.partial_transpose(arg)
                res = guarded(ctx, key, desc, fn)
                mask = "[" + "; ".join(blit(i in sysa) for i in range(L)) + "]"
                coq = f"(ptranspose {natlist(phys)} {mask} {D_in(A)})"
                T = MA.reshape(phys + phys)
                perm = list(range(2 * L))
                for i in sysa:
                    perm[i], perm[i + L] = perm[i + L], perm[i]
                ref = np.transpose(T, perm).reshape(-1)
                if res is not None:
                    expect_vec(ctx, col, key, desc, res, outs_of(A), coq, ref)
                    if op == "full_transpose":
                        d3 = {**desc, "op": "transpose:full_is_matrix_transpose"}
                        expect_vec(ctx, col, key, d3, res, outs_of(A), f"(mtranspose {N(no)} {N(no)} {D_in(A)})", MA.T.reshape(-1))
            elif op == "H_mpo":
                res = guarded(ctx, key, desc, lambda: A.H)
                if res is not None:
                    expect_vec(ctx, col, key, desc, res, outs_of(A), f"(vconj {D_in(A)})", np.conj(MA).reshape(-1))
            elif op == "conj_mpo":
                res = guarded(ctx, key, desc, lambda: A.conj())
                if res is not None:
                    expect_vec(ctx, col, key, desc, res, outs_of(A), f"(vconj {D_in(A)})", np.conj(MA).reshape(-1))
            else:
                desc["psi"] = describe(psi)
                res = guarded(ctx, key, desc, lambda: psi.H)
                if res is not None:
                    expect_vec(ctx, col, key, desc, res, outs_of(psi), f"(vconj {D_in(psi)})", np.conj(np_in(psi)))


# ----------------------------------------------------------------------------
# exact stream 3: named generators, constructor layouts, sub-operators, compress(form) bonds


def lit_vec(v):
    return tm.glist(np.asarray(v).reshape(-1))


def named_stream(ctx, col):
    import quimb.tensor as qtn

    rng = ctx.rng
    N = natlit

    def reg(name, desc, fn, coq, ref, scale=1.0, outs_fn=outs_of, want_L=None):
        desc = {**desc, "op": f"named:{name}"}
        key = f"named:{name}"
        ctx.count((name, str(sorted((k, str(v)) for k, v in desc.items()))), desc.get("L", 1) >= 2)
        ctx.bump(f"named:{name}")
        tn = guarded(ctx, key, desc, fn)
        if tn is None:
            return
        if want_L is not None and (tn.L != want_L or tn.num_tensors != want_L):
            ctx.violation(f"{key}:L={want_L}" if want_L == 1 else key + ":length",
                          f"{name} asked for {want_L} sites returns a network with L={tn.L}, {tn.num_tensors} tensors", desc)
            return
        outs = outs_fn(tn)
        if scale == 1.0:
            expect_vec(ctx, col, key, desc, tn, outs, coq, ref)
        else:
            # normalised states: compare scale * dense(impl) with the integer vector
            got = np_res(tn, outs) * scale
            try:
                lhs = tm.glist(got)
            except tm.NotExact:
                ctx.violation(key, f"{name}: scaled dense form is not the expected integer vector", desc)
                return
            col.add(desc, f"glist_eqb {lhs} {coq}",
                    lambda got=got, ref=ref, key=key, desc=desc: None if close(got, ref) else (key, f"{name} differs from the explicit dense vector", desc))

    Ls = [1, 2, 3, 4, 5]
    for L in Ls:
        # computational / Neel / zero / GHZ / W
        for rep in range(1 if ctx.quick else 3):
            digits = [rng.randint(0, 1) for _ in range(L)]
            cyc = L >= 3 and rng.random() < 0.3
            idx = int("".join(map(str, digits)), 2)
            e = np.zeros(2 ** L)
            e[idx] = 1
            form = rng.choice(["str", "list"])
            arg = "".join(map(str, digits)) if form == "str" else digits
            reg("MPS_computational_state", {"L": L, "binary": digits, "cyclic": cyc, "arg": form},
                lambda: qtn.MPS_computational_state(arg, cyclic=cyc), f"(comp_dense {natlist(digits)})", e, want_L=L)
        for df in (False, True):
            dg = [(1 if df else 0) if i % 2 == 0 else (0 if df else 1) for i in range(L)]
            e = np.zeros(2 ** L)
            e[int("".join(map(str, dg)), 2)] = 1
            reg("MPS_neel_state", {"L": L, "down_first": df}, lambda: qtn.MPS_neel_state(L, down_first=df),
                f"(comp_dense (neel_digits {N(L)} {blit(df)}))", e, want_L=L)
        g = np.zeros(2 ** L)
        g[0] += 1
        g[-1] += 1
        reg("MPS_ghz_state", {"L": L}, lambda: qtn.MPS_ghz_state(L), f"(ghz_dense {N(L)})", g, scale=math.sqrt(2.0), want_L=L)
        w = np.zeros(2 ** L)
        for i in range(L):
            w[2 ** (L - 1 - i)] = 1
        reg("MPS_w_state", {"L": L}, lambda: qtn.MPS_w_state(L), f"(w_dense {N(L)})", w, scale=math.sqrt(L), want_L=L)
        pd = rng.choice([1, 2, 3]) if L <= 3 else 2
        bd = rng.choice([1, 2, 3])
        cyc = L >= 2 and rng.random() < 0.4
        reg("MPS_zero_state", {"L": L, "bond_dim": bd, "phys_dim": pd, "cyclic": cyc},
            lambda: qtn.MPS_zero_state(L, bond_dim=bd, phys_dim=pd, cyclic=cyc),
            f"(repeat g0 {N(pd ** L)})", np.zeros(pd ** L), want_L=L)
        # product state / product operator with integer site data
        cplx = rng.random() < 0.5
        pds = [rng.choice([1, 2, 3] if L <= 3 else [2]) for _ in range(L)]
        vs = [rarr(rng, (d,), cplx) for d in pds]
        ref = vs[0]
        for v in vs[1:]:
            ref = np.kron(ref, v)
        cyc = L >= 2 and rng.random() < 0.3
        reg("MPS_product_state", {"L": L, "dims": pds, "cyclic": cyc, "vectors": [np.asarray(v).tolist() for v in vs]},
            lambda: qtn.MPS_product_state(vs, cyclic=cyc),
            "(kron_all [" + "; ".join(lit_vec(v) for v in vs) + "])", ref, want_L=L)
        if L <= 4:
            ods = [rng.choice([1, 2, 2, 3] if L <= 2 else [1, 2]) for _ in range(L)]
            ms = [rarr(rng, (d, d), cplx) for d in ods]
            refm = ms[0]
            for m_ in ms[1:]:
                refm = np.kron(refm, m_)
            cyc = L >= 2 and rng.random() < 0.3
            reg("MPO_product_operator", {"L": L, "dims": ods, "cyclic": cyc, "matrices": [np.asarray(m_).tolist() for m_ in ms]},
                lambda: qtn.MPO_product_operator(ms, cyclic=cyc),
                "(snd (kronm_all [" + "; ".join(f"({N(d)}, {lit_vec(m_)})" for d, m_ in zip(ods, ms)) + "]))",
                refm.reshape(-1), want_L=L)
        if 2 <= L <= 4:
            pd = rng.choice([1, 2, 3]) if L <= 2 else 2
            cyc = rng.random() < 0.4
            reg("MPO_identity", {"L": L, "phys_dim": pd, "cyclic": cyc}, lambda: qtn.MPO_identity(L, phys_dim=pd, cyclic=cyc),
                f"(identm {N(pd ** L)})", np.eye(pd ** L).reshape(-1), want_L=L)
            reg("MPO_zeros", {"L": L, "phys_dim": pd, "cyclic": cyc}, lambda: qtn.MPO_zeros(L, phys_dim=pd, cyclic=cyc),
                f"(repeat g0 {N(pd ** (2 * L))})", np.zeros(pd ** (2 * L)), want_L=L)
            A = build_mpo(rng, L, False, cyc, 2, phys=[(pd, pd)] * L)
            reg("MPO_identity_like", {"L": L, "phys_dim": pd, "cyclic": cyc}, lambda: A.identity(),
                f"(identm {N(pd ** L)})", np.eye(pd ** L).reshape(-1), want_L=L)


def ref_chain(arrays, layout, cyclic, phys_labels):
    """reference network built by the harness from raw arrays given in `layout`
    (a permutation of 'lrp' / 'lrud'; boundary tensors drop the missing letter)."""
    L = len(arrays)
    ts = []
    for i, a in enumerate(arrays):
        names = {}
        if cyclic or i > 0:
            names["l"] = f"@b{(i - 1) % L}"
        if (cyclic or i < L - 1) and L > 1 or (cyclic and L == 1):
            names["r"] = f"@b{i}"
        labs = phys_labels(i)
        if len(labs) == 1:
            names["p"] = labs[0]
        else:
            names["u"], names["d"] = labs
        inds = tuple(names[c] for c in layout if c in names)
        ts.append((inds, np.asarray(a)))
    return ts


def layout_stream(ctx, col):
    import quimb.tensor as qtn

    rng = ctx.rng
    for n in range(ctx.n(20, 240)):
        L = rng.choice([1, 2, 3, 3, 4])
        cyclic = L >= 3 and rng.random() < 0.3
        cplx = rng.random() < 0.3
        kind = rng.choice(["mps", "mpo"])
        letters = "lrp" if kind == "mps" else "lrud"
        layout = "".join(rng.sample(letters, len(letters)))
        nphys = 1 if kind == "mps" else 2
        phys, bonds = rand_dims(rng, L, cyclic, 3 if L <= 3 else 2, 3 if L <= 3 and kind == "mps" else 2, nphys)
        # arrays in the requested layout
        arrays = []
        for i in range(L):
            dims = {}
            if cyclic or i > 0:
                dims["l"] = bonds[(i - 1) % len(bonds)] if cyclic else bonds[i - 1]
            if cyclic or i < L - 1:
                dims["r"] = bonds[i]
            for c, d in zip(letters[2:], phys[i]):
                dims[c] = d
            arrays.append(rarr(rng, tuple(dims[c] for c in layout if c in dims), cplx))
        if kind == "mps":
            labels = lambda i: (f"k{i}",)
            outs = [f"k{i}" for i in range(L)]
        else:
            labels = lambda i: (f"k{i}", f"b{i}")
            outs = [f"k{i}" for i in range(L)] + [f"b{i}" for i in range(L)]
        ref_ts = ref_chain(arrays, layout, cyclic, labels)
        ref = np.asarray(tm.np_dense(ref_ts, outs)).reshape(-1)
        coq_ref = dense_expr(ref_ts, outs)
        route = rng.choice(["init", "from_fill_fn", "permute_arrays"])
        base = {"L": L, "cyclic": cyclic, "kind": kind, "layout": layout, "route": route, "phys": phys, "bonds": bonds,
                "arrays": [np.asarray(a).tolist() if not cplx else [[float(v.real), float(v.imag)] for v in np.asarray(a).reshape(-1)] for a in arrays]}
        desc = {**base, "op": f"layout:{kind}:{route}"}
        key = f"layout:{kind}:{route}"
        ctx.count((n, route), L >= 2 and layout != letters)
        ctx.bump(f"layout:{kind}:{route}")
        cls = qtn.MatrixProductState if kind == "mps" else qtn.MatrixProductOperator
        if route == "init":
            tn = guarded(ctx, key, desc, lambda: cls(arrays, shape=layout))
        elif route == "from_fill_fn":
            bd = bonds[0] if bonds else 1
            if any(b != bd for b in bonds) or L == 1:
                continue
            it = iter(arrays)
            seen = []

            def fill(shape):
                a = next(it)
                seen.append((tuple(shape), a.shape))
                return a

            pdarg = [p[0] for p in phys]
            if kind == "mpo" and any(p[0] != p[1] for p in phys):
                continue
            tn = guarded(ctx, key, desc, lambda: cls.from_fill_fn(fill, L, bd, phys_dim=pdarg, cyclic=cyclic, shape=layout))
            if tn is not None and any(a != b for a, b in seen):
                ctx.violation(key + ":shape", f"from_fill_fn asked for shapes {[a for a, _ in seen]} for layout {layout}", desc)
                continue
        else:
            std = cls(arrays, shape=layout)
            target = "".join(rng.sample(letters, len(letters)))
            desc["target"] = target

            def fn():
                std.permute_arrays(target)
                return std

            tn = guarded(ctx, key, desc, fn)
            if tn is not None:
                for i in range(L):
                    t = tn[tn.site_tag(i)]
                    want = {}
                    if cyclic or i > 0:
                        want["l"] = tn.bond((i - 1) % L, i) if L > 1 else None
                    if cyclic or i < L - 1:
                        want["r"] = tn.bond(i, (i + 1) % L) if L > 1 else None
                    if kind == "mps":
                        want["p"] = tn.site_ind(i)
                    else:
                        want["u"], want["d"] = tn.upper_ind(i), tn.lower_ind(i)
                    if tuple(t.inds) != tuple(want[c] for c in target if c in want):
                        ctx.violation(key + ":order", f"permute_arrays({target!r}) left site {i} with axes {t.inds}", desc)
                        break
        if tn is None:
            continue
        expect_vec(ctx, col, key, desc, tn, outs, coq_ref, ref)


def submpo_stream(ctx, col):
    rng = ctx.rng
    for n in range(ctx.n(16, 200)):
        Lt = rng.choice([3, 4, 4, 5])
        k = rng.randint(2, min(3, Lt))
        S = sorted(rng.sample(range(Lt), k))
        cplx = rng.random() < 0.4
        pd = [rng.choice([1, 2, 2, 3]) if Lt <= 3 else 2 for _ in range(Lt)]
        op = rng.choice(["gate_lazy", "gate_lazy_T", "fill_full", "fill_minimal", "apply", "fill_phys_dim"])
        fill_dim = None
        if op == "fill_phys_dim":
            # explicit dimension for the identities (all missing sites share it, it may differ from the present sites')
            fill_dim = rng.choice([1, 2, 3]) if Lt <= 3 else 2
            pd = [p if j in S else fill_dim for j, p in enumerate(pd)]
        elif op in ("fill_full", "fill_minimal"):
            # documented default: the identities get the (upper) dimension of the first present site
            fill_dim = pd[S[0]]
            pd = [p if j in S else fill_dim for j, p in enumerate(pd)]
        A = build_mpo(rng, k, cplx, False, 2, phys=[(pd[s], pd[s]) for s in S], sites=S, Ltot=Lt)
        psi = build_mps(rng, Lt, cplx, False, 2, phys=pd)
        base = {"L": Lt, "sites": S, "complex": cplx, "phys": pd}
        desc = {**base, "op": f"submpo:{op}", "A": describe(A), "psi": describe(psi)}
        key = f"submpo:{op}"
        ctx.count((n, op), True)
        ctx.bump(f"submpo:{op}")
        if n < 1:
            ctx.sample(base)

        def embed(sites):
            return tm.qtn_tensors(A) + [((f"k{j}", f"b{j}"), np.eye(pd[j])) for j in sites if j not in S]

        full = list(range(Lt))
        ofull = [f"k{j}" for j in full] + [f"b{j}" for j in full]
        nfull = prod(pd)
        if op in ("gate_lazy", "gate_lazy_T", "apply"):
            if op == "gate_lazy":
                res = guarded(ctx, key, desc, lambda: psi.gate_with_op_lazy(A))
            elif op == "gate_lazy_T":
                res = guarded(ctx, key, desc, lambda: psi.gate_with_op_lazy(A, transpose=True))
            else:
                res = guarded(ctx, key, desc, lambda: A.apply(psi))
            M = np.asarray(tm.np_dense(embed(full), ofull)).reshape(nfull, nfull)
            DM = dense_expr(embed(full), ofull)
            if op == "gate_lazy_T":
                coq = f"(matvec {natlit(nfull)} {natlit(nfull)} (mtranspose {natlit(nfull)} {natlit(nfull)} {DM}) {D_in(psi)})"
                ref = M.T @ np_in(psi)
            else:
                coq = f"(matvec {natlit(nfull)} {natlit(nfull)} {DM} {D_in(psi)})"
                ref = M @ np_in(psi)
            if res is not None:
                expect_vec(ctx, col, key, desc, res, outs_of(psi), coq, ref)
        else:
            if op == "fill_phys_dim":
                mode = rng.choice(["full", "minimal"])
                desc["mode"], desc["phys_dim"] = mode, fill_dim
                res = guarded(ctx, key, desc, lambda: A.fill_empty_sites(mode, phys_dim=fill_dim))
            else:
                mode = "full" if op == "fill_full" else "minimal"
                res = guarded(ctx, key, desc, lambda: A.fill_empty_sites(mode))
            if res is None:
                continue
            want = full if mode == "full" else list(range(S[0], S[-1] + 1))
            if list(res.gen_sites_present()) != want:
                ctx.violation(key + ":sites", f"fill_empty_sites({mode!r}) has sites {list(res.gen_sites_present())}", desc)
                continue
            o2 = [f"k{j}" for j in want] + [f"b{j}" for j in want]
            expect_vec(ctx, col, key, desc, res, o2, dense_expr(embed(want), o2), np.asarray(tm.np_dense(embed(want), o2)).reshape(-1))


def compress_bonds_stream(ctx, col):
    """mps.compress(form, max_bond=D, cutoff=0): the bond sizes are pure arithmetic (model part C)"""
    rng = ctx.rng
    nrng = np.random.default_rng(ctx.seed + 901)
    import quimb.tensor as qtn

    for n in range(ctx.n(40, 500)):
        L = rng.choice([2, 3, 4, 5, 6, 7])
        kind = rng.choice(["mps", "mps", "mpo"])
        phys = [rng.choice([1, 2, 2, 3]) for _ in range(L)]
        bonds = [rng.choice([1, 2, 3, 4, 5, 7]) for _ in range(L - 1)]
        D = rng.choice([0, 1, 2, 3, 4, 6, 50])
        form = rng.choice(["right", "left", "flat", "center", None])
        c = rng.randrange(L)
        pl = [((q,) if kind == "mps" else (q, q)) for q in phys]
        arrays = [nrng.normal(size=site_shape(i, L, False, bonds, pl)) for i in range(L)]
        tn = (qtn.MatrixProductState if kind == "mps" else qtn.MatrixProductOperator)(arrays)
        pmodel = [p if kind == "mps" else p * p for p in phys]
        fcoq = {"right": "FRight", "left": "FLeft", "flat": "FFlat", None: "FRight", "center": f"(FCenter {natlit(c)})"}[form]
        farg = c if form == "center" else form
        base = {"L": L, "kind": kind, "phys": phys, "bonds": bonds, "max_bond": D, "form": str(farg)}
        desc = {**base, "op": "compress_bonds"}
        key = "compress:bond_sizes"
        ctx.count((n, "bonds"), max(bonds) > 1)
        ctx.bump(f"compress_bonds:{form}")
        if n < 1:
            ctx.sample(base)
        ref = np.asarray(tn.to_dense()).reshape(-1)

        def fn():
            t = tn.copy()
            t.compress(form=farg, max_bond=(D if D > 0 else None), cutoff=0.0)
            return t

        res = guarded(ctx, key, desc, fn)
        if res is None:
            continue
        got = [int(b) for b in res.bond_sizes()]
        desc["impl_bonds"] = got
        if D > 0 and max(got) > D:
            ctx.violation("compress:bond_cap", f"compress(form={farg}, max_bond={D}) left bonds {got}", desc)
        centre = {"right": 0, None: 0, "left": L - 1, "center": c}.get(form)
        if centre is not None:
            dfc = iso_defect(res, centre)
            if dfc > 1e-8:
                ctx.violation("compress:form:canonical", f"compress(form={farg}) is not canonical around site {centre} (defect {dfc:.2e})", desc)
        if (D == 0 or D >= 50) and not close(np.asarray(res.to_dense()).reshape(-1), ref, 1e-8):
            ctx.violation("compress:no_truncation_changes_state", f"compress(form={farg}, max_bond={D}, cutoff=0) changed the state", desc)

        def oracle(desc=desc, got=got, D=D):
            # independent python replay of the arithmetic is the model itself; a disagreement that is not a
            # cap violation is reported as a model/implementation divergence with the concrete input
            return ("compress:bond_sizes", f"bond sizes {got} after compress differ from the sweep arithmetic", desc)

        col.add(desc, f"compress_bonds_check {fcoq} {natlist(pmodel)} {natlist(bonds)} {natlit(D)} {natlist(got)}", oracle)


# ----------------------------------------------------------------------------
# oracle stream (tolerance; tests, not theorems)

ITERATIVE = ("fit", "src", "srcmps", "sdc")


def iso_defect(tn, c):
    """largest deviation from: sites < c left isometries, sites > c right isometries"""
    L = tn.L
    worst = 0.0
    for i in range(L):
        t = tn[tn.site_tag(i)]
        if i < c:
            rb = tn.bond(i, i + 1)
            M = np.asarray(t.to_dense([ix for ix in t.inds if ix != rb], [rb]))
            worst = max(worst, float(np.abs(M.conj().T @ M - np.eye(M.shape[1])).max()))
        elif i > c:
            lb = tn.bond(i - 1, i)
            M = np.asarray(t.to_dense([lb], [ix for ix in t.inds if ix != lb]))
            worst = max(worst, float(np.abs(M @ M.conj().T - np.eye(M.shape[0])).max()))
    return worst


def schmidt_tails(vec, site_dims, D):
    """for every cut: sum of squared singular values beyond the D largest (of the given dense tensor)"""
    tails = []
    v = np.asarray(vec).reshape(-1)
    for k in range(1, len(site_dims)):
        m = prod(site_dims[:k])
        s = np.linalg.svd(v.reshape(m, -1), compute_uv=False)
        tails.append(float(np.sum(s[D:] ** 2)))
    return tails


def rand_float_mps(nrng, L, chi, phys, cplx, cyclic=False):
    import quimb.tensor as qtn

    bonds = [chi] * (L if cyclic else L - 1)
    arrays = []
    for i in range(L):
        shp = site_shape(i, L, cyclic, bonds, [(p,) for p in phys])
        a = nrng.normal(size=shp)
        if cplx:
            a = a + 1j * nrng.normal(size=shp)
        arrays.append(a / math.sqrt(max(1, chi)))
    return qtn.MatrixProductState(arrays)


def rand_float_mpo(nrng, L, chi, phys, cplx, sites=None, Ltot=None):
    import quimb.tensor as qtn

    bonds = [chi] * (L - 1)
    arrays = []
    for i in range(L):
        shp = site_shape(i, L, False, bonds, [(p, p) for p in phys])
        a = nrng.normal(size=shp)
        if cplx:
            a = a + 1j * nrng.normal(size=shp)
        arrays.append(a / math.sqrt(max(1, chi)))
    kw = {} if sites is None else {"sites": sites, "L": Ltot}
    return qtn.MatrixProductOperator(arrays, **kw)


def compression_inputs(ctx, nrng, kind, L, cplx):
    """returns (network to compress, site dims per site for the dense unfolding, dense reference,
    outs, exact bond needed)"""
    phys = [2] * L
    if kind == "mps":
        tn = rand_float_mps(nrng, L, 4, phys, cplx)
        need = 4
        site_dims = phys
    elif kind == "mps_sum":
        tn = rand_float_mps(nrng, L, 2, phys, cplx) + rand_float_mps(nrng, L, 2, phys, cplx)
        tn = tn + tn  # redundant: exact rank 4, stored bond 8
        need = 8
        site_dims = phys
    elif kind == "mpo_mps":
        psi = rand_float_mps(nrng, L, 3, phys, cplx)
        A = rand_float_mpo(nrng, L, 2, phys, cplx)
        tn = psi.gate_with_op_lazy(A)
        need = 6
        site_dims = phys
    elif kind == "mpo_mpo":
        A = rand_float_mpo(nrng, L, 2, phys, cplx)
        B = rand_float_mpo(nrng, L, 2, phys, cplx)
        tn = A.apply(B, contract=False)
        need = 4
        site_dims = [4] * L
    elif kind == "sub_mpo":
        psi = rand_float_mps(nrng, L, 3, phys, cplx)
        S = sorted(ctx.rng.sample(range(L), 2))
        A = rand_float_mpo(nrng, 2, 2, [2, 2], cplx, sites=S, Ltot=L)
        tn = psi.gate_with_op_lazy(A)
        need = 6
        site_dims = phys
    else:
        raise ValueError(kind)
    outs = outs_of(tn)
    if hasattr(tn, "upper_ind_id"):
        # unfold site by site: (k_i, b_i) pairs
        order = [x for i in range(L) for x in (tn.upper_ind(i), tn.lower_ind(i))]
    else:
        order = outs
    ref = np.asarray(tm.np_dense(tm.qtn_tensors(tn), order)).reshape(-1)
    return tn, site_dims, ref, order, need


def compression_stream(ctx):
    import warnings

    from quimb.tensor.tn1d.compress import _TN1D_COMPRESS_METHODS, tensor_network_1d_compress

    rng = ctx.rng
    nrng = np.random.default_rng(ctx.seed + 917)
    methods = list(_TN1D_COMPRESS_METHODS)
    ctx.extra["compress_methods"] = methods
    kinds = ["mps", "mps_sum", "mpo_mps", "mpo_mpo", "sub_mpo"]
    combos = [(m, rev, k) for m in methods for rev in (False, True) for k in kinds]
    if ctx.quick:
        # every method x direction on a rotating input kind ; all kinds for the direct method
        sel = []
        for mi, m in enumerate(methods):
            for ri, rev in enumerate((False, True)):
                # (options_stream crosses every method with MPS and lazy MPO.MPS inputs as well)
                ks = kinds if m == "direct" else [kinds[(2 * mi + ri) % len(kinds)]]
                sel += [(m, rev, k) for k in ks]
        combos = sel
    for m, rev, kind in combos:
        L = rng.choice([4, 5]) if ctx.quick else rng.choice([4, 5, 6])
        cplx = rng.random() < 0.4
        tn, site_dims, ref, order, need = compression_inputs(ctx, nrng, kind, L, cplx)
        nref = float(np.linalg.norm(ref))
        params = inspect.signature(_TN1D_COMPRESS_METHODS[m]).parameters
        seed_kw = {"seed": rng.randrange(10 ** 6)} if "seed" in params else {}
        for mode in ("exact", "truncate", "cutoff"):
            if mode == "cutoff" and m != "direct":
                continue
            if mode == "exact":
                D, cutoff = need + rng.choice([0, 0, 3]), 0.0
            elif mode == "truncate":
                D, cutoff = rng.choice([1, 2, 3]), 0.0
            else:
                D, cutoff = None, 10.0 ** rng.choice([-3, -5, -8])
            desc = {"op": "tensor_network_1d_compress", "method": m, "sweep_reverse": rev, "input": kind, "L": L,
                    "complex": cplx, "max_bond": D, "cutoff": cutoff, "mode": mode, **seed_kw}
            ctx.count((m, rev, kind, mode), True)
            ctx.bump(f"compress:{m}")
            ctx.bump(f"compress_input:{kind}")
            try:
                with warnings.catch_warnings():
                    warnings.simplefilter("ignore")
                    kw = dict(seed_kw)
                    if "max_iterations" in params and mode == "exact":
                        kw["max_iterations"] = 20
                    out = tensor_network_1d_compress(tn, max_bond=D, cutoff=cutoff, method=m, sweep_reverse=rev, **kw)
            except Exception as e:
                ctx.violation(f"compress:{m}:raised", f"method {m} raised {type(e).__name__}: {str(e)[:150]}", desc)
                continue
            try:
                got = np.asarray(tm.np_dense(tm.qtn_tensors(out), order, float(out.exponent))).reshape(-1)
                bonds = [int(b) for b in out.bond_sizes()]
            except Exception as e:
                ctx.violation(f"compress:{m}:structure", f"result of {m} is not a chain over the same labels: {type(e).__name__} {e}", desc)
                continue
            desc["result_bonds"] = bonds
            err = float(np.linalg.norm(got - ref))
            desc["rel_error"] = err / nref
            if D is not None and max(bonds) > D:
                ctx.violation(f"compress:{m}:bond_cap", f"{m}: bonds {bonds} exceed max_bond={D}", desc)
            c = (tn.L - 1) if rev else 0
            defect = iso_defect(out, c)
            desc["isometry_defect"] = defect
            if defect > 1e-8:
                ctx.violation(f"compress:{m}:canonical_form",
                              f"{m} (sweep_reverse={rev}) does not leave the promised {'left' if rev else 'right'} canonical form (defect {defect:.2e})", desc)
            if mode == "exact":
                tol = 1e-6 if any(m.startswith(x) for x in ITERATIVE) else 1e-9
                if not err <= tol * nref:
                    ctx.violation(f"compress:{m}:exact", f"{m} with max_bond >= exact bond and cutoff=0 does not reproduce its input (rel. error {err / nref:.2e})", desc)
            elif mode == "truncate":
                tails = schmidt_tails(ref, site_dims, D)
                lower = math.sqrt(max(tails)) if tails else 0.0
                upper = math.sqrt(sum(tails))
                desc["bound_lower"], desc["bound_upper"] = lower / nref, upper / nref
                if err < lower * (1 - 1e-7) - 1e-12 * nref:
                    ctx.violation(f"compress:{m}:below_eckart_young", f"{m}: error {err:.3e} below the best possible {lower:.3e} for bond {D}", desc)
                if m == "direct" and err > upper * (1 + 1e-7) + 1e-12 * nref:
                    ctx.violation("compress:direct:error_bound", f"direct: error {err:.3e} exceeds sqrt(sum of discarded singular values^2) = {upper:.3e}", desc)
            else:
                bound = math.sqrt((tn.L - 1) * cutoff) * nref
                if err > bound * (1 + 1e-6) + 1e-12 * nref:
                    ctx.violation("compress:direct:cutoff_bound", f"direct with cutoff={cutoff}: rel. error {err / nref:.3e} above sqrt((L-1) cutoff)", desc)
    # wrappers: gate_with_mpo / gate_with_submpo / MPS.compress on periodic chains
    for it in range(ctx.n(10, 80)):
        L = rng.choice([4, 5, 6])
        cplx = rng.random() < 0.4
        psi = rand_float_mps(nrng, L, 3, [2] * L, cplx)
        m = rng.choice(["direct", "dm", "zipup", "zipup-first", "fit", "src", "srcmps", "sdc", "fit-zipup", "fit-projector", "fit-oversample", "src-first"])
        rev = rng.random() < 0.5
        if it < 2:
            m = ["zipup-first", "fit-zipup"][it]  # always exercise the oversampling / guess wrappers on a sub-MPO
        if rng.random() < 0.5 and it >= 2:
            A = rand_float_mpo(nrng, L, 2, [2] * L, cplx)
            tr = rng.random() < 0.3
            desc = {"op": "gate_with_mpo", "method": m, "L": L, "transpose": tr, "sweep_reverse": rev}
            M = np.asarray(A.to_dense())
            ref = (M.T if tr else M) @ np.asarray(psi.to_dense()).reshape(-1)
            fn = lambda: psi.gate_with_mpo(A, method=m, transpose=tr, max_bond=6, cutoff=0.0, sweep_reverse=rev)
            c = L - 1 if rev else 0
        else:
            S = sorted(rng.sample(range(L), rng.choice([2, 2, 3])))
            A = rand_float_mpo(nrng, len(S), 2, [2] * len(S), cplx, sites=S, Ltot=L)
            desc = {"op": "gate_with_submpo", "method": m, "L": L, "sites": S, "sweep_reverse": rev}
            ops = tm.qtn_tensors(A) + [((f"k{j}", f"b{j}"), np.eye(2)) for j in range(L) if j not in S]
            oo = [f"k{j}" for j in range(L)] + [f"b{j}" for j in range(L)]
            M = np.asarray(tm.np_dense(ops, oo)).reshape(2 ** L, 2 ** L)
            ref = M @ np.asarray(psi.to_dense()).reshape(-1)
            fn = lambda: psi.gate_with_submpo(A, method=m, max_bond=6, cutoff=0.0, sweep_reverse=rev, info={})
            c = S[-1] if rev else S[0]
        ctx.count((desc["op"], m, it), True)
        ctx.bump("compress_wrapper:" + desc["op"])
        try:
            with warnings.catch_warnings():
                warnings.simplefilter("ignore")
                out = fn()
        except Exception as e:
            key = f"{desc['op']}:{m}:raised"
            if desc["op"] == "gate_with_submpo" and isinstance(e, KeyError) and m in ("zipup-first", "zipup-oversample", "fit-zipup", "fit-projector"):
                # the inner guess / oversampling compression is called with permute_arrays=True on a network that lacks sites
                key = "gate_with_submpo:inner_compress_permutes_arrays:KeyError"
            ctx.violation(key, f"{desc['op']}({m}) raised {type(e).__name__}: {str(e)[:150]}", desc)
            continue
        got = np.asarray(out.to_dense()).reshape(-1)
        tol = 1e-6 if any(m.startswith(x) for x in ITERATIVE) else 1e-9
        if not np.linalg.norm(got - ref) <= tol * np.linalg.norm(ref):
            ctx.violation(f"{desc['op']}:{m}:exact", f"{desc['op']}({m}) without truncation differs from the dense product "
                          f"(rel. error {np.linalg.norm(got - ref) / np.linalg.norm(ref):.2e})", desc)
        if max(out.bond_sizes()) > 6:
            ctx.violation(f"{desc['op']}:{m}:bond_cap", f"bonds {out.bond_sizes()} exceed 6", desc)
        d = iso_defect(out, c)
        if d > 1e-8:
            ctx.violation(f"{desc['op']}:{m}:canonical_form", f"result is not canonical around site {c} (defect {d:.2e})", desc)
    for it in range(ctx.n(6, 40)):
        L = rng.choice([3, 4, 5, 6])
        psi = rand_float_mps(nrng, L, 3, [2] * L, rng.random() < 0.4, cyclic=True)
        form = rng.choice([None, "left", "right", "flat", rng.randrange(L)])
        desc = {"op": "compress:periodic", "L": L, "form": str(form)}
        ctx.count(("pbc_compress", it), True)
        ctx.bump("compress:periodic")
        ref = np.asarray(psi.to_dense()).reshape(-1)
        try:
            q = psi.copy()
            q.compress(form=form, max_bond=5, cutoff=0.0)
        except Exception as e:
            ctx.violation("compress:periodic:raised", f"periodic MPS.compress(form={form}) raised {type(e).__name__}: {str(e)[:120]}", desc)
            continue
        if max(q.bond_sizes()) > 5 or not close(np.asarray(q.to_dense()).reshape(-1), ref, 1e-8):
            ctx.violation("compress:periodic", f"periodic MPS.compress(form={form}, max_bond >= bond, cutoff=0) changed the state or exceeded the cap", desc)


def iso_defect_scaled(tn, c):
    """as iso_defect, but every tensor may carry a positive scalar (equalize_norms spreads one)"""
    L = tn.L
    worst = 0.0
    for i in range(L):
        t = tn[tn.site_tag(i)]
        if i < c:
            rb = tn.bond(i, i + 1)
            M = np.asarray(t.to_dense([ix for ix in t.inds if ix != rb], [rb]))
            G = M.conj().T @ M
        elif i > c:
            lb = tn.bond(i - 1, i)
            M = np.asarray(t.to_dense([lb], [ix for ix in t.inds if ix != lb]))
            G = M @ M.conj().T
        else:
            continue
        sc = float(np.trace(G).real) / len(G)
        if not sc > 0:
            return float("inf")
        worst = max(worst, float(np.abs(G / sc - np.eye(len(G))).max()))
    return worst


def options_stream(ctx):
    """every method x ALL its boolean options (normalize, sweep_reverse, canonize, permute_arrays,
    equalize_norms, inplace): the promise of each option is checked on every call"""
    import warnings

    from quimb.tensor.tn1d.compress import _TN1D_COMPRESS_METHODS, tensor_network_1d_compress

    rng = ctx.rng
    nrng = np.random.default_rng(ctx.seed + 947)
    flags = ("normalize", "sweep_reverse", "canonize", "permute_arrays", "equalize_norms", "inplace")
    for mi, m in enumerate(_TN1D_COMPRESS_METHODS):
        params = inspect.signature(_TN1D_COMPRESS_METHODS[m]).parameters
        if ctx.quick:
            combos = []
            for a, b in itertools.product([False, True], repeat=2):
                rest = [rng.random() < 0.5 for _ in range(4)]
                combos.append((a, b, *rest))
                combos.append((a, b, *[not r for r in rest]))
        else:
            combos = list(itertools.product([False, True], repeat=6))
        for ci, combo in enumerate(combos):
            opts = dict(zip(flags, combo))
            if opts["equalize_norms"] and not ctx.quick and rng.random() < 0.3:
                opts["equalize_norms"] = 1.0
            L = rng.choice([4, 5])
            cplx = rng.random() < 0.4
            kind = ["mps", "mpo_mps"][(mi + ci) % 2]
            psi = rand_float_mps(nrng, L, 3, [2] * L, cplx) * rng.choice([0.3, 1.7, 5.0])
            if kind == "mps":
                tn0, need = psi, 3
            else:
                tn0, need = psi.gate_with_op_lazy(rand_float_mpo(nrng, L, 2, [2] * L, cplx)), 6
            order = outs_of(tn0)
            ref = np.asarray(tm.np_dense(tm.qtn_tensors(tn0), order)).reshape(-1)
            nref = float(np.linalg.norm(ref))
            before = describe(tn0)
            trunc = rng.random() < 0.35
            D = rng.choice([1, 2]) if trunc else need + rng.choice([0, 2])
            seed_kw = {"seed": rng.randrange(10 ** 6)} if "seed" in params or m.startswith("fit") else {}
            desc = {"op": "tensor_network_1d_compress:options", "method": m, "input": kind, "L": L, "complex": cplx,
                    "max_bond": D, "cutoff": 0.0, "truncating": trunc, **opts, **seed_kw}
            ctx.count(("options", m, combo, kind), True)
            ctx.bump("compress_options:" + m)
            for f in flags:
                if opts[f]:
                    ctx.bump("compress_option_true:" + f)

            def call(tn, **over):
                with warnings.catch_warnings():
                    warnings.simplefilter("ignore")
                    return tensor_network_1d_compress(tn, max_bond=D, cutoff=0.0, method=m, **{**opts, **over}, **seed_kw)

            t_in = tn0.copy()
            try:
                out = call(t_in)
            except Exception as e:
                ctx.violation(f"compress_options:{m}:raised", f"{m} with {opts} raised {type(e).__name__}: {str(e)[:150]}", desc)
                continue
            try:
                got = np.asarray(tm.np_dense(tm.qtn_tensors(out), order, float(out.exponent))).reshape(-1)
                bonds = [int(b) for b in out.bond_sizes()]
            except Exception as e:
                ctx.violation(f"compress_options:{m}:structure", f"result is not a chain over the input's labels: {type(e).__name__} {e}", desc)
                continue
            desc["result_bonds"] = bonds
            gn = float(np.linalg.norm(got))
            desc["result_norm"] = gn
            desc["input_norm"] = nref
            tol = 1e-6 if any(m.startswith(x) for x in ITERATIVE) else 1e-8
            # inplace: identity of the returned object / input untouched
            if opts["inplace"] and out is not t_in:
                ctx.violation("compress_options:inplace:identity", f"{m}(inplace=True) returns a new object", desc)
            if not opts["inplace"] and (out is t_in or describe(t_in) != before):
                ctx.violation("compress_options:inplace:mutates_input", f"{m}(inplace=False) modified its input", desc)
            if max(bonds) > D:
                ctx.violation(f"compress_options:{m}:bond_cap", f"{m} with {opts}: bonds {bonds} exceed max_bond={D}", desc)
            # normalize
            if opts["normalize"]:
                if not abs(gn - 1.0) <= tol:
                    ctx.violation("compress_options:normalize:norm",
                                  f"{m}(normalize=True, sweep_reverse={opts['sweep_reverse']}) returns a state of norm {gn:.6f}, not 1", desc)
                if not trunc and not np.linalg.norm(got - ref / nref) <= tol:
                    ctx.violation("compress_options:normalize:value",
                                  f"{m}(normalize=True) without truncation is not the normalised input (error {np.linalg.norm(got - ref / nref):.2e})", desc)
            elif not trunc:
                if not np.linalg.norm(got - ref) <= tol * nref:
                    ctx.violation(f"compress_options:{m}:exact",
                                  f"{m} with {opts} does not reproduce its input (rel. error {np.linalg.norm(got - ref) / nref:.2e})", desc)
            if trunc and opts["normalize"]:
                # proportional to the un-normalised compression with the same options
                try:
                    ref_out = call(tn0.copy(), normalize=False, inplace=False)
                    r2 = np.asarray(tm.np_dense(tm.qtn_tensors(ref_out), order, float(ref_out.exponent))).reshape(-1)
                    n2 = float(np.linalg.norm(r2))
                    if n2 > 0 and not np.linalg.norm(got - r2 / n2) <= 10 * tol:
                        ctx.violation("compress_options:normalize:proportional",
                                      f"{m}(normalize=True) is not the normalised (normalize=False) compression "
                                      f"(difference {np.linalg.norm(got - r2 / n2):.2e})", desc)
                except Exception as e:
                    ctx.violation(f"compress_options:{m}:raised", f"{m} reference call raised {type(e).__name__}: {str(e)[:120]}", desc)
            # canonical form where the sweep direction says (up to a scalar per tensor when norms are equalised)
            c = (L - 1) if opts["sweep_reverse"] else 0
            dfc = iso_defect_scaled(out, c) if opts["equalize_norms"] else iso_defect(out, c)
            desc["isometry_defect"] = dfc
            if dfc > 1e-8:
                ctx.violation("compress_options:canonical_form",
                              f"{m} with {opts} is not {'left' if opts['sweep_reverse'] else 'right'} canonical (defect {dfc:.2e})", desc)
            # permute_arrays: (left, right, physical) axis order
            if opts["permute_arrays"]:
                for i in range(L):
                    t = out[out.site_tag(i)]
                    want = [x for x in ((out.bond(i - 1, i) if i > 0 else None), (out.bond(i, i + 1) if i < L - 1 else None)) if x]
                    want.append(out.site_ind(i))
                    if list(t.inds) != want:
                        ctx.violation("compress_options:permute_arrays", f"{m}(permute_arrays=True): site {i} has axes {t.inds}", desc)
                        break


def bond_cap_stream(ctx):
    """'never exceeds the requested bond dimension': every method, caps OFF any power-of-two / doubling schedule,
    on targets whose rank really exceeds the cap (so every internal growth schedule has to be clamped)"""
    import warnings

    from quimb.tensor.tn1d.compress import _TN1D_COMPRESS_METHODS, tensor_network_1d_compress

    rng = ctx.rng
    nrng = np.random.default_rng(ctx.seed + 967)
    caps_big = [9, 10, 11, 12, 13, 14, 15, 17, 18, 19, 20, 21, 22, 23]
    caps_small = [3, 5, 6, 7]
    L = 10
    for mi, m in enumerate(_TN1D_COMPRESS_METHODS):
        params = inspect.signature(_TN1D_COMPRESS_METHODS[m]).parameters
        fit_like = m.startswith("fit")
        ncaps = ctx.n(3, 10)
        caps = rng.sample(caps_big, ncaps - 1) + [rng.choice(caps_small)]
        for ci, cap in enumerate(caps):
            cplx = rng.random() < 0.3
            kind = ["mps", "mpo_mps", "wrapper"][(mi + ci) % 3]
            rev = rng.random() < 0.5
            seed_kw = {"seed": rng.randrange(10 ** 6)} if ("seed" in params or fit_like) else {}
            extra = {}
            if fit_like and m != "fit-oversample" and rng.random() < 0.35:
                extra = {"bsz": 2}
            cutoff = 1e-12 if extra else 0.0
            if kind == "mps":
                tn = rand_float_mps(nrng, L, 32, [2] * L, cplx)
            else:
                tn = rand_float_mps(nrng, L, 6, [2] * L, cplx)
                A = rand_float_mpo(nrng, L, 4, [2] * L, cplx)
            desc = {"op": "bond_cap", "method": m, "input": kind, "L": L, "complex": cplx, "max_bond": cap, "cutoff": cutoff,
                    "sweep_reverse": rev, **extra, **seed_kw,
                    "repro": f"MPS L={L} of rank 32 (or MPO(4).MPS(6)), method={m!r}, max_bond={cap}"}
            ctx.count(("bond_cap", m, cap, kind), True)
            ctx.bump("bond_cap:" + m)
            try:
                with warnings.catch_warnings():
                    warnings.simplefilter("ignore")
                    if kind == "wrapper":
                        out = tn.gate_with_mpo(A, method=m, max_bond=cap, cutoff=cutoff, sweep_reverse=rev, **extra, **seed_kw)
                        ref = np.asarray(A.to_dense()) @ np.asarray(tn.to_dense()).reshape(-1)
                    else:
                        src = tn if kind == "mps" else tn.gate_with_op_lazy(A)
                        out = tensor_network_1d_compress(src, max_bond=cap, cutoff=cutoff, method=m, sweep_reverse=rev, **extra, **seed_kw)
                        ref = np.asarray(src.to_dense()).reshape(-1)
            except Exception as e:
                ctx.violation(f"bond_cap:{m}:raised", f"{m}(max_bond={cap}) raised {type(e).__name__}: {str(e)[:150]}", desc)
                continue
            bonds = [int(b) for b in out.bond_sizes()]
            desc["result_bonds"] = bonds
            if max(bonds) > cap:
                ctx.violation(f"bond_cap:{m}", f"{m} ({kind}, max_bond={cap}) returns bonds {bonds}: the requested cap is exceeded", desc)
                continue
            # sanity: nothing with bond <= cap can beat the best rank-cap approximation of any cut
            ref = np.asarray(ref).reshape(-1)
            got = np.asarray(out.to_dense()).reshape(-1)
            err = float(np.linalg.norm(got - ref))
            lower = math.sqrt(max(schmidt_tails(ref, [2] * L, cap)))
            if err < lower * (1 - 1e-7) - 1e-12 * float(np.linalg.norm(ref)):
                ctx.violation(f"bond_cap:{m}:below_eckart_young", f"{m}: error {err:.3e} below the best possible {lower:.3e} for bond {cap}", desc)


def compress_site_stream(ctx):
    """MatrixProductState.compress_site(i, max_bond=k, cutoff=0): the two bonds next to the centre are truncated
    one after the other, each optimally (the error is the sequential optimum), the caps hold, the centre is i"""
    rng = ctx.rng
    nrng = np.random.default_rng(ctx.seed + 953)
    for it in range(ctx.n(24, 240)):
        L = rng.choice([2, 3, 4, 5, 6])
        chi = rng.choice([2, 3, 4, 6])
        cplx = rng.random() < 0.4
        pd = rng.choice([2, 2, 3]) if L <= 4 else 2
        psi = rand_float_mps(nrng, L, chi, [pd] * L, cplx)
        i = rng.randrange(L)
        k = rng.choice([1, 2, 3])
        v = np.asarray(psi.to_dense()).reshape(-1)
        desc = {"op": "compress_site", "L": L, "bond": chi, "phys": pd, "complex": cplx, "site": i, "max_bond": k, "psi": describe(psi)}
        ctx.count(("compress_site", it), True)
        ctx.bump("compress_site")
        # reference: truncate cut (i-1|i) of psi, then cut (i|i+1) of the result, each by SVD
        cur = v.copy()
        e2 = 0.0
        for cut in ([i] if i > 0 else []) + ([i + 1] if i < L - 1 else []):
            M = cur.reshape(pd ** cut, -1)
            U, s, Vh = np.linalg.svd(M, full_matrices=False)
            e2 += float(np.sum(s[k:] ** 2))
            cur = ((U[:, :k] * s[:k]) @ Vh[:k]).reshape(-1)
        try:
            q = psi.copy()
            q.compress_site(i, max_bond=k, cutoff=0.0)
            got = np.asarray(q.to_dense()).reshape(-1)
        except Exception as e:
            ctx.violation("compress_site:raised", f"compress_site({i}, max_bond={k}) raised {type(e).__name__}: {str(e)[:120]}", desc)
            continue
        err = float(np.linalg.norm(got - v))
        want = math.sqrt(e2)
        nv = float(np.linalg.norm(v))
        desc["error"], desc["sequential_optimum"] = err, want
        bs = q.bond_sizes()
        near = [bs[j] for j in (i - 1, i) if 0 <= j < L - 1]
        if any(b > k for b in near):
            ctx.violation("compress_site:bond_cap", f"bonds next to site {i} are {near} > {k}", desc)
        if abs(err - want) > 1e-8 * nv:
            ctx.violation("compress_site:error", f"compress_site({i}, max_bond={k}): error {err:.4e}, sequential optimum {want:.4e}", desc)
        elif not close(got, cur, 1e-8):
            ctx.violation("compress_site:value", "compress_site result differs from the sequentially truncated state", desc)
        d = iso_defect(q, i)
        if d > 1e-8:
            ctx.violation("compress_site:canonical_form", f"state is not canonical around site {i} afterwards (defect {d:.2e})", desc)


def dense_roundtrip_stream(ctx):
    import quimb.tensor as qtn

    rng = ctx.rng
    for it in range(ctx.n(40, 400)):
        L = rng.choice([1, 2, 3, 4, 5])
        dims = [rng.choice([1, 2, 2, 3]) for _ in range(L)]
        cplx = rng.random() < 0.4
        kind = rng.choice(["mps", "mps", "mpo"])
        n = prod(dims)
        ctx.count(("roundtrip", it), L >= 2)
        ctx.bump(f"from_dense:{kind}")
        if kind == "mps":
            v = rarr(rng, (n,), cplx, -3, 3)
            uniform = len(set(dims)) == 1 and dims[0] > 1 and rng.random() < 0.5
            desc = {"op": "MPS.from_dense", "dims": dims, "vector": np.asarray(v).tolist() if not cplx else str(v.tolist()), "dims_as_int": uniform}
            try:
                p = qtn.MatrixProductState.from_dense(v, dims[0] if uniform else dims)
                got = np.asarray(p.to_dense()).reshape(-1)
            except Exception as e:
                ctx.violation("from_dense:mps:raised", f"MPS.from_dense raised {type(e).__name__}: {str(e)[:120]}", desc)
                continue
            if p.L != L or not close(got, v, 1e-10):
                ctx.violation("from_dense:mps", "from_dense(v).to_dense() != v", desc)
            if L >= 2:
                bs = p.bond_sizes()
                if any(b > min(prod(dims[: i + 1]), prod(dims[i + 1:])) for i, b in enumerate(bs)):
                    ctx.violation("from_dense:mps:bonds", f"bond sizes {bs} exceed the unfolding ranks", desc)
                if iso_defect(p, L - 1) > 1e-9:
                    ctx.violation("from_dense:mps:canonical", "from_dense (absorb='right') is not left canonical", desc)
                D = rng.choice([1, 2])
                q = qtn.MatrixProductState.from_dense(v, dims, max_bond=D, cutoff=0.0)
                if max(q.bond_sizes()) > D:
                    ctx.violation("from_dense:mps:bond_cap", f"from_dense(max_bond={D}) has bonds {q.bond_sizes()}", desc)
        else:
            if n > 36:
                continue
            M = rarr(rng, (n, n), cplx, -3, 3)
            sub = L >= 2 and rng.random() < 0.4
            Lt = L + rng.randint(1, 2) if sub else L
            sites = sorted(rng.sample(range(Lt), L)) if sub else None
            desc = {"op": "MPO.from_dense", "dims": dims, "sites": sites, "L": Lt, "matrix": str(np.asarray(M).tolist())}
            try:
                A = qtn.MatrixProductOperator.from_dense(M, dims, sites=sites, L=Lt) if sub else qtn.MatrixProductOperator.from_dense(M, dims)
                got = np.asarray(A.to_dense())
            except Exception as e:
                ctx.violation("from_dense:mpo:raised", f"MPO.from_dense raised {type(e).__name__}: {str(e)[:120]}", desc)
                continue
            if got.shape != M.shape or not close(got, M, 1e-10) or (sub and list(A.gen_sites_present()) != sites):
                ctx.violation("from_dense:mpo", "MPO.from_dense(M).to_dense() != M", desc)


def float_ops_stream(ctx):
    """the arithmetic on float / complex data of several precisions, vs numpy (tolerance)"""
    import warnings

    import quimb.tensor as qtn

    rng = ctx.rng
    nrng = np.random.default_rng(ctx.seed + 931)
    for it in range(ctx.n(24, 240)):
        L = rng.choice([2, 3, 5, 6, 9])
        dt = rng.choice(["float64", "complex128", "float32", "complex64"])
        cplx = dt.startswith("complex")
        tol = 2e-4 if dt.endswith(("32", "64")) and dt in ("float32", "complex64") else 1e-9
        cyc = L >= 3 and rng.random() < 0.25
        p1 = rand_float_mps(nrng, L, 3, [2] * L, cplx, cyc).astype(dt)
        p2 = rand_float_mps(nrng, L, 2, [2] * L, cplx, cyc).astype(dt)
        A = qtn.MPO_rand(L, 2, dtype=dt, cyclic=cyc, seed=rng.randrange(10 ** 6))
        d1, d2 = (np.asarray(x.to_dense()).reshape(-1).astype(complex) for x in (p1, p2))
        MA = np.asarray(A.to_dense()).astype(complex)
        x = rng.choice([0.37, -1.9, 2.5, -1e-3, 1e4]) if not (cplx and rng.random() < 0.5) else complex(rng.uniform(-2, 2), rng.uniform(-2, 2))
        desc = {"op": "float_ops", "L": L, "dtype": dt, "cyclic": cyc, "x": str(x)}
        ctx.count(("float", it), True)
        ctx.bump(f"float_ops:{dt}")
        checks = []
        try:
            with warnings.catch_warnings():
                warnings.simplefilter("ignore")
                checks.append(("add", (p1 + p2).to_dense(), d1 + d2))
                checks.append(("sub", (p1 - p2).to_dense(), d1 - d2))
                checks.append(("mul", (p1 * x).to_dense(), x * d1))
                checks.append(("div", (p1 / x).to_dense(), d1 / x))
                checks.append(("apply", A.apply(p1).to_dense(), MA @ d1))
                checks.append(("overlap", [p1.H @ p2], [np.vdot(d1, d2)]))
                checks.append(("expec", [qtn.expec_TN_1D(p1.H, A, p2)], [np.vdot(d1, MA @ d2)]))
                checks.append(("trace", [A.trace()], [np.trace(MA)]))
                if not cyc:
                    q = p1.copy()
                    old = q.normalize()
                    checks.append(("normalize_returns_old_norm", [old], [np.vdot(d1, d1)]))
                    checks.append(("normalize", [q.H @ q], [1.0]))
        except Exception as e:
            ctx.violation("float_ops:raised", f"{type(e).__name__}: {str(e)[:150]} after {[c[0] for c in checks]}", desc)
            continue
        for name, got, ref in checks:
            if not close(np.asarray(got).astype(complex), np.asarray(ref).astype(complex), tol):
                ctx.violation(f"float_ops:{name}", f"{name} on {dt} data differs from numpy", {**desc, "check": name})
    for it in range(ctx.n(10, 60)):
        L = rng.choice([1, 2, 3, 6, 10])
        chi = rng.choice([1, 2, 5])
        cyc = L >= 3 and rng.random() < 0.3
        dt = rng.choice(["float64", "complex128"])
        pd = rng.choice([2, 3])
        ctx.count(("rand_state", it), True)
        ctx.bump("named:MPS_rand_state")
        desc = {"op": "MPS_rand_state", "L": L, "bond_dim": chi, "phys_dim": pd, "cyclic": cyc, "dtype": dt}
        try:
            p = qtn.MPS_rand_state(L, chi, phys_dim=pd, cyclic=cyc, dtype=dt, seed=it)
            nrm = p.H @ p
            ok = abs(nrm - 1) < 1e-9 and p.L == L and (L == 1 or max(p.bond_sizes()) <= chi) and all(p.phys_dim(i) == pd for i in range(L))
        except Exception as e:
            ok, nrm = False, f"{type(e).__name__}: {e}"
        if not ok:
            ctx.violation("named:MPS_rand_state", f"MPS_rand_state not normalised / wrong dimensions ({nrm})", desc)
        b = qtn.MPS_rand_computational_state(L, seed=it)
        v = np.asarray(b.to_dense()).reshape(-1)
        if not (np.sum(v == 1) == 1 and np.sum(v == 0) == v.size - 1):
            ctx.violation("named:MPS_rand_computational_state", "not a computational basis state", {"L": L, "seed": it})
        s = "".join(rng.choice("01+-") for _ in range(min(L, 6)))
        v = np.asarray(qtn.MPS_computational_state(s).to_dense()).reshape(-1)
        one = {"0": [1, 0], "1": [0, 1], "+": [2 ** -0.5, 2 ** -0.5], "-": [2 ** -0.5, -(2 ** -0.5)]}
        ref = np.array([1.0])
        for ch in s:
            ref = np.kron(ref, one[ch])
        if not close(v, ref, 1e-12):
            ctx.violation("named:MPS_computational_state:plus_minus", f"computational state {s!r} differs from the Kronecker product", {"binary": s})


# ----------------------------------------------------------------------------
# operands that carry a STORED EXPONENT (tn.exponent = e: the network denotes 10**e times the product of its
# tensors).  The exponent is part of the value of an operand, so every arithmetic entry point has to honour it
# (tensor_network_ag_sum used to direct-sum the tensors only).  Numerical oracle, a test and not a theorem:
# integer site data, exponents drawn independently per operand from {0, +-1, +-2, 3}; the dense value of the
# result INCLUDING its stored exponent (computed by harness/tnmodel.py from the result's tensors, not by quimb's
# to_dense) must equal the numpy expression over the dense operands to 1e-10 relative (1e-9 where an exact
# recompression is part of the call).

EXPONENTS = [0, 1, -1, 2, -2, 3]


def exponent_stream(ctx):
    import warnings

    import quimb.tensor as qtn
    from quimb.tensor.tn1d.compress import tensor_network_1d_compress

    import random

    rng = random.Random(ctx.seed * 1000003 + 9091)  # private stream: the draws of the older streams stay what they were
    for n in range(ctx.n(80, 600)):
        L = rng.choice([1, 2, 3, 3, 4, 4, 5])
        kind = rng.choice(["mps", "mps", "mpo"])
        if kind == "mpo":
            L = min(L, 4)
        cyclic = L in (3, 4) and rng.random() < 0.25
        cplx = rng.random() < 0.4
        pd = [rng.choice([1, 2, 2, 3] if L <= 3 else [2]) for _ in range(L)]
        if kind == "mps":
            a = build_mps(rng, L, cplx, cyclic, 2, phys=pd)
            b = build_mps(rng, L, cplx, cyclic, 2, phys=pd)
        else:
            a = build_mpo(rng, L, cplx, cyclic, 2, phys=[(q, q) for q in pd])
            b = build_mpo(rng, L, cplx, cyclic, 2, phys=[(q, q) for q in pd])
        Lo = min(L, 4)
        A = build_mpo(rng, Lo, cplx, cyclic and Lo == L, 2, phys=[(q, q) for q in pd[:Lo]])
        es = [rng.choice(EXPONENTS) for _ in range(3)]
        if not any(es):
            es[rng.randrange(2)] = rng.choice(EXPONENTS[1:])
        ea, eb, eA = es
        a.exponent, b.exponent, A.exponent = float(ea), float(eb), float(eA)
        outs = outs_of(a)
        da, db = np_in(a) * 10.0 ** ea, np_in(b) * 10.0 ** eb
        no = prod(pd[:Lo])
        MA = (np_in(A) * 10.0 ** eA).reshape(no, no)
        if not (np.linalg.norm(da) > 0 and np.linalg.norm(db) > 0 and np.linalg.norm(da + db) > 1e-6 * np.linalg.norm(da)
                and np.linalg.norm(da - db) > 1e-6 * np.linalg.norm(da)):
            continue
        x = rng.choice([2.0, -0.5, 3.0, 0.25]) if not (cplx and rng.random() < 0.5) else complex(rng.choice([1, 2]), rng.choice([1, -2]))
        base = {"L": L, "kind": kind, "cyclic": cyclic, "complex": cplx, "phys": pd, "exponent_a": ea, "exponent_b": eb,
                "exponent_A": eA, "x": str(x), "a": describe(a), "b": describe(b)}
        addm = "add_MPS" if kind == "mps" else "add_MPO"
        nsite = prod(pd)

        def inplace(fn):
            def run():
                c = a.copy()
                r_ = fn(c)
                return c if r_ is None else r_
            return run

        V = {}  # op -> (callable returning a network over `outs` or a scalar, numpy reference, tolerance)
        V["add"] = (lambda: a + b, da + db, 1e-10)
        V["sub"] = (lambda: a - b, da - db, 1e-10)
        V["radd_neg"] = (lambda: a + (-b), da - db, 1e-10)
        V["iadd"] = (inplace(lambda c: c.__iadd__(b)), da + db, 1e-10)
        V["isub"] = (inplace(lambda c: c.__isub__(b)), da - db, 1e-10)
        V[addm] = (lambda: getattr(a, addm)(b), da + db, 1e-10)
        V[addm + "_"] = (inplace(lambda c: getattr(c, addm + "_")(b)), da + db, 1e-10)
        V["mul"] = (lambda: a * x, x * da, 1e-10)
        V["rmul"] = (lambda: x * a, x * da, 1e-10)
        V["div"] = (lambda: a / x, da / x, 1e-10)
        V["neg"] = (lambda: -a, -da, 1e-10)
        V["imul"] = (inplace(lambda c: c.__imul__(x)), x * da, 1e-10)
        V["idiv"] = (inplace(lambda c: c.__itruediv__(x)), da / x, 1e-10)
        sp = rng.choice([1, 2, 8, "all"])
        V["multiply"] = (lambda: a.multiply(x, spread_over=sp), x * da, 1e-10)
        V["multiply_"] = (inplace(lambda c: c.multiply_(x, spread_over=sp)), x * da, 1e-10)
        V["multiply_each"] = (lambda: a.multiply_each(x), x ** a.num_tensors * da, 1e-10)
        V["copy"] = (lambda: a.copy(), da, 1e-12)
        V["H"] = (lambda: a.H, np.conj(da), 1e-12)
        V["conj"] = (lambda: a.conj(), np.conj(da), 1e-12)
        V["to_dense"] = (lambda: np.asarray(a.to_dense()).reshape(-1), da, 1e-12)
        if kind == "mps":
            V["overlap"] = (lambda: a.overlap(b), np.vdot(db, da), 1e-10)
            V["H@"] = (lambda: a.H @ b, np.vdot(da, db), 1e-10)
            V["norm"] = (lambda: a.norm(), np.linalg.norm(da), 1e-10)
            if Lo == L:
                V["expec"] = (lambda: qtn.expec_TN_1D(a.H, A, b), np.vdot(da, MA @ db), 1e-10)
                V["apply"] = (lambda: A.apply(a), MA @ da, 1e-10)
                V["dot"] = (lambda: A.dot(a), MA @ da, 1e-10)
                V["gate_with_op_lazy"] = (lambda: a.gate_with_op_lazy(A), MA @ da, 1e-10)
            if not cyclic:
                V[addm + ":compress"] = (lambda: a.add_MPS(b, compress=True, cutoff=0.0), da + db, 1e-9)
                V["compress"] = (inplace(lambda c: c.compress(cutoff=0.0)), da, 1e-9)
                V["normalize"] = (lambda: (lambda c: (c.normalize(), c.H @ c)[1])(a.copy()), 1.0, 1e-10)
                if L >= 2:
                    V["canonicalize"] = (lambda: a.canonicalize(rng.randrange(L)), da, 1e-9)
                    m1 = rng.choice(["direct", "dm", "zipup"])
                    V["1d_compress:" + m1] = (lambda: tensor_network_1d_compress(a, max_bond=64, cutoff=0.0, method=m1), da, 1e-8)
                    keep = sorted(rng.sample(range(L), rng.randint(1, L)))
                    V["partial_trace_to_mpo"] = (lambda: np.asarray(a.partial_trace_to_mpo(keep).to_dense()).reshape(-1),
                                                 ref_ptrace(da, pd, keep).reshape(-1), 1e-10)
                    w = rng.randrange(L)
                    G1 = rarr(rng, (pd[w], pd[w]), cplx)
                    if np.any(G1):
                        refx = np.vdot(da, dense_gate_dims(da, G1, w, pd))
                        V["local_expectation:canonical"] = (lambda: a.compute_local_expectation({(w,): G1}, normalized=False), refx, 1e-9)
                        V["local_expectation:envs"] = (lambda: a.compute_local_expectation({(w,): G1}, normalized=False, method="envs"), refx, 1e-9)
                if Lo == L:
                    V["apply:compress"] = (lambda: A.apply(a, compress=True, cutoff=0.0), MA @ da, 1e-9)
                    V["gate_with_mpo"] = (lambda: a.gate_with_mpo(A, cutoff=0.0), MA @ da, 1e-9)
        else:
            Ma, Mb = da.reshape(nsite, nsite), db.reshape(nsite, nsite)
            V["trace"] = (lambda: a.trace(), np.trace(Ma), 1e-10)
            V["mpo@"] = (lambda: a @ b, np.sum(da * db), 1e-10)
            V["apply_mpo"] = (lambda: a.apply(b), (Ma @ Mb).reshape(-1), 1e-10)
            sysa = sorted(rng.sample(range(L), rng.randint(1, L)))
            T = Ma.reshape(pd + pd)
            perm = list(range(2 * L))
            for i in sysa:
                perm[i], perm[i + L] = perm[i + L], perm[i]
            V["partial_transpose"] = (lambda: a.partial_transpose(sysa), np.transpose(T, perm).reshape(-1), 1e-12)
            if not cyclic:
                V[addm + ":compress"] = (lambda: a.add_MPO(b, compress=True, cutoff=0.0), da + db, 1e-9)
                V["apply_mpo:compress"] = (lambda: a.apply(b, compress=True, cutoff=0.0), (Ma @ Mb).reshape(-1), 1e-9)
        names = sorted(V)
        # the sums are the entry points the stored exponents used to be lost in: always drawn
        chosen = [o for o in names if o in ("add", "sub", "iadd", "isub", addm, addm + ":compress") and rng.random() < 0.7]
        chosen += rng.sample([o for o in names if o not in chosen], min(ctx.n(8, 14), len(names) - len(chosen)))
        a0, b0, A0 = (describe(t_) for t_ in (a, b, A))
        for op in chosen:
            fn, ref, tol = V[op]
            key = f"arith:exponent:{op}"
            desc = {**base, "op": key}
            ctx.count((n, op), any(es) and L >= 2)
            ctx.bump(f"exponent:{kind}:{op.split(':')[0]}")
            if n < 1 and op == "add":
                ctx.sample({k_: v_ for k_, v_ in desc.items() if k_ not in ("a", "b")})
            try:
                with warnings.catch_warnings():
                    warnings.simplefilter("ignore")
                    res = fn()
            except Exception as e:
                ctx.violation(key + ":raised", f"{op} on operands with stored exponents raised {type(e).__name__}: {str(e)[:150]}", desc)
                continue
            try:
                if hasattr(res, "tensors"):
                    got = np_res(res, outs)
                    desc["result_exponent"] = float(res.exponent)
                else:
                    got = np.asarray(res).reshape(-1)
            except Exception as e:
                ctx.violation(key + ":structure", f"result of {op} cannot be densified over the operands' labels: {type(e).__name__}: {str(e)[:120]}", desc)
                continue
            refv = np.asarray(ref).reshape(-1)
            scale = float(np.linalg.norm(refv))
            if np.ndim(ref) == 0 and op in ("overlap", "H@", "expec", "mpo@", "trace", "local_expectation:canonical", "local_expectation:envs"):
                # a contraction can cancel: measure against the size of the terms that were summed
                # (round-off of a contraction is relative to the product of the norms of everything contracted, the operator
                # included - measuring <a|A|b> against |a||b| alone raised a false alarm at 1.6e-10)
                terms = float(np.linalg.norm(da) * (np.linalg.norm(db) if op in ("overlap", "H@", "expec", "mpo@") else np.linalg.norm(da)))
                if op == "expec":
                    terms *= float(np.linalg.norm(MA))
                scale = max(scale, terms)
                tol = max(tol, 1e-9)
            if got.shape != refv.shape or not np.all(np.isfinite(got)) or not np.linalg.norm(got - refv) <= tol * max(scale, 1e-300):
                err = float(np.linalg.norm(got - refv) / max(scale, 1e-300)) if got.shape == refv.shape else float("nan")
                ctx.violation(key, f"{op} with operand exponents (a: {ea}, b: {eb}, A: {eA}): the result (stored exponent "
                              f"{desc.get('result_exponent', '-')}) differs from the dense reference by {err:.2e} relative", desc)
            if (describe(a), describe(b), describe(A)) != (a0, b0, A0) or (a.exponent, b.exponent, A.exponent) != (ea, eb, eA):
                ctx.violation(key + ":mutated_input", f"{op} modified an operand (or its stored exponent)", desc)
                a.exponent, b.exponent, A.exponent = float(ea), float(eb), float(eA)
                break


def dense_gate_dims(vec, G, site, dims):
    """one-site operator G applied on `site` of a dense vector over sites of dimensions `dims`"""
    x = np.asarray(vec).reshape(dims)
    x = np.moveaxis(np.tensordot(np.asarray(G), x, axes=([1], [site])), 0, site)
    return x.reshape(-1)


# ----------------------------------------------------------------------------
# record histories: sub-operator applications and expectation queries that SHARE one caller-supplied
# `info` dict (the documented way to keep track of the canonical centre).  Exact part: after every
# call the implementation's info["cur_orthog"] equals the record of coq/C09/RecordModel.v and every
# isometry the model guarantees is measured on the state (C09_record_truthful_every_history is the
# theorem about that model).  Numerical part (a test, not a theorem; tolerance): after every call
# the state equals the dense reference, expectation values equal <v|G|v>/<v|v>, the record is true
# of the state it describes, a truncating application respects its cap and (method 'direct') its
# error is at most the root-sum-square of the discarded singular values of the exact result over
# the cuts of the region (equal to the optimum when one bond is truncated).

RHEADER = ("From Coq Require Import ZArith Arith List Bool.\nImport ListNotations.\n"
           "From QV Require Import C09.Model C09.RecordModel.\n")
MISSING = "<missing>"


def rcd_of(info):
    r = info.get("cur_orthog", MISSING)
    if r is None or r == MISSING or r == "calc":
        return r
    if isinstance(r, tuple) and len(r) == 2:
        return (int(r[0]), int(r[1]))
    return ("?", repr(r))


def rcd_lit(r):
    if r == MISSING:
        return "RUnset"
    if r is None:
        return "RNone"
    if r == "calc":
        return "RCalc"
    return f"(RPair {natlit(r[0])} {natlit(r[1])})"


def npair(c):
    return f"({natlit(c[0])}, {natlit(c[1])})"


def boollist(xs):
    return "[" + "; ".join(blit(x) for x in xs) + "]"


def iso_flags(psi, tol=1e-8):
    """per site: is it (measured) a left isometry w.r.t. its right bond / a right isometry w.r.t. its left bond"""
    L = psi.L
    li, ri = [False] * L, [False] * L
    for i in range(L):
        t = psi[psi.site_tag(i)]
        if i < L - 1:
            rb = psi.bond(i, i + 1)
            M = np.asarray(t.to_dense([ix for ix in t.inds if ix != rb], [rb]))
            li[i] = bool(np.abs(M.conj().T @ M - np.eye(M.shape[1])).max() < tol)
        if i > 0:
            lb = psi.bond(i - 1, i)
            M = np.asarray(t.to_dense([lb], [ix for ix in t.inds if ix != lb]))
            ri[i] = bool(np.abs(M @ M.conj().T - np.eye(M.shape[0])).max() < tol)
    return li, ri


def record_defect(L, rec, li, ri):
    """None if the record (a pair) is true of the measured state, else the first false claim"""
    lo, hi = min(rec), max(rec)
    if not (0 <= lo and hi < L):
        return f"recorded range {rec} is outside the chain"
    for i in range(L):
        if i < lo and not li[i]:
            return f"site {i} is not a left isometry although cur_orthog={rec}"
        if i > hi and not ri[i]:
            return f"site {i} is not a right isometry although cur_orthog={rec}"
    return None


def dense_gate(vec, G, where, L, d=2):
    """G (acting on the sites `where`, in that order) applied to the dense vector"""
    k = len(where)
    x = np.asarray(vec).reshape([d] * L)
    Gt = np.asarray(G).reshape([d] * (2 * k))
    x = np.tensordot(Gt, x, axes=(list(range(k, 2 * k)), list(where)))
    x = np.moveaxis(x, list(range(k)), list(where))
    return x.reshape(-1)


def rh_matrix(nrng, n, cplx, herm):
    M = nrng.normal(size=(n, n))
    if cplx:
        M = M + 1j * nrng.normal(size=(n, n))
    if herm:
        M = (M + M.conj().T) / 2
    return M


def rh_where(r, L, allow_far=True):
    """a `where` of an expectation term: bare int, 1-tuple, adjacent pair, distant pair, reversed pair"""
    kind = r.choice(["int", "one", "adj", "adj", "far", "rev"] if allow_far else ["int", "one", "adj"])
    i = r.randrange(L)
    if kind == "int":
        return i
    if kind == "one":
        return (i,)
    i = r.randrange(L - 1)
    if kind == "adj":
        return (i, i + 1)
    j = min(L - 1, i + r.randint(1, 3))
    return (i, j) if kind == "far" else (j, i)


def rh_terms(r, L, zone=None):
    """1-3 terms; zone = (lo, hi) restricts the sites (directed plans put queries at the two ends)"""
    ws = []
    for _ in range(r.randint(1, 3)):
        for _try in range(20):
            w = rh_where(r, L)
            ss = (w,) if isinstance(w, int) else w
            if zone is None or all(zone[0] <= x <= zone[1] for x in ss):
                break
        else:
            w = (zone[0],)
        if w not in ws:
            ws.append(w)
    return ws


def rh_sub(r, L, quick, region=None, trunc=None, rev=None):
    if region is None:
        si = r.randrange(L - 1)
        sf = min(L - 1, si + r.randint(1, 4))
        if (si, sf) == (0, L - 1):
            sf -= 1
    else:
        si, sf = region
    route = r.choice(["gate_with_submpo", "gate_with_submpo", "gate_nonlocal", "gate_nonlocal", "gate:nonlocal"])
    if route == "gate_with_submpo":
        inner = [x for x in range(si + 1, sf) if r.random() < 0.4][:1]
        sites = [si] + inner + [sf]
    else:
        sites = [si, sf] if r.random() < 0.8 else [sf, si]
    if trunc is None:
        trunc = r.random() < 0.35
    if trunc:
        method = "direct" if r.random() < 0.8 else r.choice(["dm", "zipup"])
        D = r.choice([1, 2, 2, 3])
    else:
        method = r.choice(["direct", "direct", "dm", "zipup"] if quick else ["direct", "direct", "dm", "zipup", "src", "fit"])
        D = None
    return {"kind": "sub", "route": route, "sites": sites, "rev": (r.random() < 0.5) if rev is None else rev, "method": method,
            "inplace": r.random() < 0.4, "max_bond": D, "transpose": route == "gate_with_submpo" and r.random() < 0.25}


def rh_exp(r, L, mode=None, zone=None):
    mode = mode or r.choice(["copy", "copy", "envs", "inplace", "local", "ptr"])
    terms = rh_terms(r, L, zone)
    if mode in ("local", "ptr"):
        terms = terms[:1]
    return {"kind": "exp", "mode": mode, "terms": terms, "normalized": r.random() < 0.7, "return_all": r.random() < 0.5}


def rh_canon(r, L):
    w = rh_where(r, L)
    return {"kind": "canon", "where": w, "inplace": r.random() < 0.5}


def rh_plan(r, L, quick, family):
    """family 'random': any 2-5 calls; 'two_applications': an untruncated sub-operator application (either sweep
    direction) followed - possibly after a query - by a truncating 'direct' application on a region placed left of /
    inside / overlapping / right of the first one; 'queries': 2-4 expectation queries at the two ends of the chain in
    any mode, then a call that consumes the record"""
    if family == "random":
        plan = []
        for _ in range(r.randint(2, 5)):
            k = r.choice("ssxxc")
            plan.append(rh_sub(r, L, quick) if k == "s" else rh_exp(r, L) if k == "x" else rh_canon(r, L))
        return plan
    if family == "two_applications":
        a = r.randrange(0, L - 2)
        b = min(L - 1, a + r.randint(1, 4))
        if (a, b) == (0, L - 1):
            b -= 1
        rel = r.choice(["inside_left", "inside_left", "inside", "inside", "left_overlap", "left_overlap", "right_overlap", "left", "right", "same"])
        if rel == "inside_left":
            c, d = a, max(a + 1, b - 1)
        elif rel == "inside":
            c = r.randint(a, b - 1)
            d = r.randint(c + 1, b)
        elif rel == "left_overlap":
            c = max(0, a - r.randint(1, 2))
            d = r.randint(max(c + 1, a), max(c + 1, b - 1))
        elif rel == "right_overlap":
            c = r.randint(a, b)
            d = min(L - 1, b + r.randint(1, 2))
            c = min(c, d - 1)
        elif rel == "left":
            d = max(1, a - 1) if a > 1 else 1
            c = max(0, d - r.randint(1, 2))
        elif rel == "right":
            c = min(L - 2, b + 1)
            d = min(L - 1, c + r.randint(1, 2))
        else:
            c, d = a, b
        plan = [rh_sub(r, L, quick, region=(a, b), trunc=False, rev=r.random() < 0.6)]
        if r.random() < 0.3:
            plan.append(rh_exp(r, L))
        second = rh_sub(r, L, quick, region=(c, d), trunc=True)
        second["method"] = "direct"
        plan.append(second)
        if r.random() < 0.5:
            plan.append(rh_exp(r, L))
        return plan
    # queries
    ends = [(L - 3, L - 1), (0, 2)]
    if r.random() < 0.5:
        ends.reverse()
    zones = ends + [None, ends[0]]
    plan = [rh_exp(r, L, mode=r.choice(["copy", "copy", "copy", "inplace", "envs", "local"]), zone=z) for z in zones[: r.randint(2, 4)]]
    last = r.choice(["sub", "exp", "canon"])
    plan.append(rh_sub(r, L, quick, trunc=r.random() < 0.6) if last == "sub" else rh_exp(r, L, mode="inplace") if last == "exp" else rh_canon(r, L))
    if last == "sub" and plan[-1]["max_bond"] is not None:
        plan[-1]["method"] = "direct"
    return plan


def region_tails(vec, L, si, sf, D):
    """squared discarded weight of the exact vector at every cut of the region si..sf"""
    v = np.asarray(vec).reshape(-1)
    out = []
    for c in range(si + 1, sf + 1):
        s_ = np.linalg.svd(v.reshape(2 ** c, -1), compute_uv=False)
        out.append(float(np.sum(s_[D:] ** 2)))
    return out


def run_record_history(ctx, col, hid, hseed, family):
    import random
    import warnings

    import quimb.tensor as qtn

    r = random.Random(hseed)
    nrng = np.random.default_rng(hseed)
    L = r.choice([5, 6, 7, 8])
    chi = r.choice([3, 4, 5])
    cplx = r.random() < 0.5
    psi = rand_float_mps(nrng, L, chi, [2] * L, cplx) * r.choice([0.6, 1.0, 2.5])
    for i in range(L - 1):  # non-flat spectra: the gauge matters for a truncation
        bix = psi.bond(i, i + 1)
        d = psi.ind_size(bix)
        psi[i].multiply_index_diagonal_(bix, np.exp(-r.uniform(0.0, 3.0) * np.arange(d) / d))
    outs = [psi.site_ind(i) for i in range(L)]
    init = r.choice(["missing", "missing", "calc", "none", "pair", "wide_pair"])
    info = {}
    if init == "calc":
        info = {"cur_orthog": "calc"}
    elif init == "none":
        info = {"cur_orthog": None}
    elif init in ("pair", "wide_pair"):
        c1 = r.randrange(L)
        c2 = r.randint(c1, min(L - 1, c1 + 2))
        psi.canonicalize_((c1, c2), info={"cur_orthog": None})
        if init == "wide_pair":
            c1, c2 = r.randint(0, c1), r.randint(c2, L - 1)
        info = {"cur_orthog": (c1, c2)}
    plan = rh_plan(r, L, ctx.quick, family)
    base = {"op": "record_history", "family": family, "history_seed": hseed, "L": L, "bond": chi, "complex": cplx,
            "initial_info": str(info), "plan": plan,
            "repro": "psi = random non-canonical MPS (harness.c09.run_record_history(ctx, col, 0, history_seed, family) rebuilds it); "
                     "the calls of `plan` are made in order with ONE shared info dict"}
    cur = psi
    ref = np_res(cur, outs)
    li, ri = iso_flags(cur)
    r0 = rcd_of(info)
    if isinstance(r0, tuple) and record_defect(L, r0, li, ri):
        raise RuntimeError("harness: the initial record is not true of the initial state")
    s0 = f"(init_state {natlit(L)} {rcd_lit(r0)})"
    before_ops = []
    records = [str(r0)]
    ctx.bump(f"record_history:{family}")
    ctx.bump(f"record_init:{init}")
    nviol = 0
    stale = None  # (key of the call after which the record stopped being true, its position)

    def bad(key, what, k, extra=None):
        """a failing call; once the record has gone stale, later failures are its consequences and are keyed as such"""
        nonlocal nviol
        nviol += 1
        if stale is not None:
            short = key.rsplit(":", 1)[-1]
            if short == "value" and plan[k]["kind"] == "exp":
                short = "expectation_value"
            key = f"{stale[0]}:then:{short}"
            what += f" [consequence of the record that call #{stale[1]} left false]"
        rep = {**base, "step": k, "call": plan[k], "records": list(records), **(extra or {})}
        ctx.violation(key, what, rep)
        return (key, what, rep)

    for k, spec in enumerate(plan):
        if nviol >= 4:
            break
        calc = tuple(int(x) for x in cur.calc_current_orthog_center())
        verdicts = []
        kind = spec["kind"]
        ctx.count((hid, k, str(spec)), True)
        ctx.bump(f"record_op:{kind}:{spec.get('mode') or spec.get('route') or ''}")
        before = describe(cur)
        described = cur  # the state the record describes after the call
        try:
            with warnings.catch_warnings():
                warnings.simplefilter("ignore")
                if kind == "canon":
                    w = spec["where"]
                    ww = (w, w) if isinstance(w, int) else (w[0], w[-1])
                    coq_op = f"(OCanon {natlit(ww[0])} {natlit(ww[1])} {npair(calc)})"
                    key0 = "canonicalize:shared_info"
                    if spec["inplace"]:
                        out = cur.canonicalize_(w, info=info)
                    else:
                        out = cur.canonicalize(w, info=info)
                        if describe(cur) != before:
                            verdicts.append(bad(key0 + ":mutated_input", "canonicalize(inplace=False) modified the state it was called on", k))
                    cur = described = out
                    if not close(np_res(cur, outs), ref, 1e-9):
                        verdicts.append(bad(key0 + ":value", "canonicalize changed the state vector", k))
                elif kind == "sub":
                    sites = spec["sites"]
                    si, sf = min(sites), max(sites)
                    D = spec["max_bond"]
                    m = spec["method"]
                    rev = spec["rev"]
                    coq_op = f"(OSub {natlit(sites[0])} {natlit(sites[-1])} {blit(rev)} {npair(calc)})"
                    key0 = f"{spec['route']}:shared_info:sweep_reverse={rev}"
                    iterative = any(m.startswith(x) for x in ITERATIVE)
                    kw = {"method": m, "sweep_reverse": rev, "info": info, "cutoff": 0.0, "inplace": spec["inplace"]}
                    if D is not None:
                        kw["max_bond"] = D
                    elif iterative:
                        kw["max_bond"] = 64
                    if m in ("src", "fit"):
                        kw["seed"] = hseed % 100003
                    if spec["route"] == "gate_with_submpo":
                        A = rand_float_mpo(nrng, len(sites), 2, [2] * len(sites), cplx, sites=sites, Ltot=L)
                        G = np.asarray(tm.np_dense(tm.qtn_tensors(A), [f"k{s_}" for s_ in sites] + [f"b{s_}" for s_ in sites]))
                        G = G.reshape(2 ** len(sites), 2 ** len(sites))
                        if spec["transpose"]:
                            G = G.T
                        out = cur.gate_with_submpo(A, transpose=spec["transpose"], **kw)
                    else:
                        G = rh_matrix(nrng, 2 ** len(sites), cplx, False)
                        if spec["route"] == "gate_nonlocal":
                            out = cur.gate_nonlocal(G, tuple(sites), **kw)
                        else:
                            out = cur.gate(G, tuple(sites), contract="nonlocal", **kw)
                    exact = dense_gate(ref, G, sites, L)
                    if spec["inplace"]:
                        if out is not cur:
                            verdicts.append(bad(key0 + ":inplace_identity", "inplace=True returned a new object", k))
                    elif describe(cur) != before:
                        verdicts.append(bad(key0 + ":mutated_input", "inplace=False modified the state it was called on", k))
                    cur = described = out
                    got = np_res(cur, outs)
                    nex = float(np.linalg.norm(exact))
                    if D is None:
                        tol = 1e-6 if iterative else 1e-9
                        if not np.linalg.norm(got - exact) <= tol * nex:
                            verdicts.append(bad(key0 + ":value", f"untruncated sub-operator application ({m}) differs from the dense product "
                                                f"(rel. error {np.linalg.norm(got - exact) / nex:.2e})", k))
                        ref = exact
                    else:
                        bs = [int(cur.bond_size(j, j + 1)) for j in range(si, sf)]
                        if max(bs) > D:
                            verdicts.append(bad(key0 + ":bond_cap", f"bonds {bs} of the region exceed max_bond={D}", k))
                        tails = region_tails(exact, L, si, sf, D)
                        err = float(np.linalg.norm(got - exact))
                        upper, lower = math.sqrt(sum(tails)), math.sqrt(max(tails))
                        ex = {"error": err, "discarded_weight_bound": upper, "best_possible": lower}
                        if max(bs) <= D and err < lower * (1 - 1e-7) - 1e-12 * nex:
                            verdicts.append(bad(key0 + ":below_eckart_young", f"error {err:.3e} below the best possible {lower:.3e}", k, ex))
                        if m == "direct":
                            # independent reference: 'direct' truncates the cuts of the region one after the other (far end
                            # first), each optimally for the current state because it works in canonical form
                            seq = np.array(exact, dtype=complex)
                            for c in (range(si + 1, sf + 1) if rev else range(sf, si, -1)):
                                U_, s_, Vh_ = np.linalg.svd(seq.reshape(2 ** c, -1), full_matrices=False)
                                seq = ((U_[:, :D] * s_[:D]) @ Vh_[:D]).reshape(-1)
                            want_err = float(np.linalg.norm(seq - exact))
                            ex["sequential_optimum"] = want_err
                            if err > upper * (1 + 1e-6) + 1e-10 * nex or abs(err - want_err) > 1e-6 * want_err + 1e-9 * nex:
                                verdicts.append(bad(f"{spec['route']}:shared_info:truncation_error",
                                                    f"truncating 'direct' application on sites {si}..{sf} (max_bond={D}, sweep_reverse={rev}) after "
                                                    f"a history sharing `info`: error {err:.6e}, but cut-by-cut optimal truncation of the exact "
                                                    f"result gives {want_err:.6e} and the root-sum-square of the discarded singular values is "
                                                    f"{upper:.6e} (the truncation was not made in the canonical gauge)", k, ex))
                            elif not np.linalg.norm(got - seq) <= 1e-6 * nex:
                                verdicts.append(bad(f"{spec['route']}:shared_info:truncation_value",
                                                    "truncated result differs from the cut-by-cut optimally truncated exact result", k, ex))
                        ref = got
                else:
                    mode = spec["mode"]
                    nz = spec["normalized"]
                    terms = {}
                    for w in spec["terms"]:
                        n_ = 1 if isinstance(w, int) else len(w)
                        terms[w] = rh_matrix(nrng, 2 ** n_, cplx, r.random() < 0.7)
                    nrm = float(np.vdot(ref, ref).real)
                    want = {w: np.vdot(ref, dense_gate(ref, G, (w,) if isinstance(w, int) else w, L)) / (nrm if nz else 1.0)
                            for w, G in terms.items()}
                    pairs = [((w, w) if isinstance(w, int) else (w[0], w[-1])) for w in terms]
                    key0 = f"compute_local_expectation:{mode}:shared_info"
                    if mode in ("copy", "envs"):
                        coq_op = "OExpCopy"
                        kw = {"method": "canonical" if mode == "copy" else "envs", "normalized": nz, "return_all": spec["return_all"], "info": info}
                        if mode == "copy" and r.random() < 0.5:
                            kw["inplace"] = False
                        val = cur.compute_local_expectation(terms, **kw)
                        if describe(cur) != before:
                            verdicts.append(bad(key0 + ":mutated_state", f"compute_local_expectation({mode}, inplace=False) modified the state", k))
                    elif mode == "inplace":
                        coq_op = "(OExpIn [" + "; ".join(npair(p_) for p_ in pairs) + f"] {npair(calc)})"
                        fn = cur.compute_local_expectation if r.random() < 0.5 else cur.compute_local_expectation_canonical
                        kw = {"method": "canonical"} if fn == cur.compute_local_expectation else {}
                        val = fn(terms, normalized=nz, return_all=spec["return_all"], info=info, inplace=True, **kw)
                    else:
                        (w, G), = terms.items()
                        coq_op = f"(OExpIn [{npair(pairs[0])}] {npair(calc)})"
                        if mode == "local":
                            val = {w: cur.local_expectation_canonical(G, w, normalized=nz, info=info)}
                        else:
                            rho = np.asarray(cur.partial_trace_to_dense_canonical(w, normalized=nz, info=info))
                            val = {w: np.trace(G @ rho)}
                    if isinstance(val, dict):
                        pairs_v = [(val[w], want[w]) for w in terms]
                    else:
                        pairs_v = [(val, sum(want.values()))]
                    scale = max(1.0, max(abs(b_) for _, b_ in pairs_v))
                    worst = max(abs(complex(a_) - complex(b_)) for a_, b_ in pairs_v)
                    if not worst <= 1e-8 * scale:
                        verdicts.append(bad(key0 + ":value", f"local expectation values differ from the dense <v|G|v>{'/<v|v>' if nz else ''} "
                                            f"by {worst:.3e} (call #{k} of a history sharing `info`)", k,
                                            {"got": str([complex(a_) for a_, _ in pairs_v]), "dense": str([complex(b_) for _, b_ in pairs_v])}))
                    if mode not in ("copy", "envs") and not close(np_res(cur, outs), ref, 1e-9):
                        verdicts.append(bad(key0 + ":state_vector", "moving the canonical centre changed the state vector", k))
        except Exception as e:
            bad(f"{kind}:{spec.get('mode') or spec.get('route') or 'canonicalize'}:shared_info:raised",
                f"call #{k} of the history raised {type(e).__name__}: {str(e)[:160]}", k)
            return
        rec = rcd_of(info)
        records.append(str(rec))
        li, ri = iso_flags(cur)
        if isinstance(rec, tuple) and rec[0] == "?":
            verdicts.append(bad(key0 + ":record_type", f"info['cur_orthog'] = {rec[1]} after the call", k))
            return
        if stale is not None:
            continue  # the model and the implementation parted at the stale call: only consequences are collected
        if isinstance(rec, tuple):
            why = record_defect(L, rec, li, ri)
            if why:
                who = "the caller's unmodified state" if (kind == "exp" and spec["mode"] in ("copy", "envs")) else "the returned state"
                verdicts.append(bad(key0 + ":record_false", f"after call #{k} the shared info records cur_orthog={rec}, which is not true of {who}: {why}", k))
                stale = (key0 + ":record_false", k)
        d2 = {**base, "step": k, "call": spec, "records": list(records), "measured_left_isometries": li, "measured_right_isometries": ri}
        expr = (f"step_check {s0} [" + "; ".join(before_ops) + f"] {coq_op} {rcd_lit(rec)} {boollist(li)} {boollist(ri)}")
        col.add(d2, expr, (lambda v=list(verdicts): v[0] if v else None))
        before_ops.append(coq_op)


def record_history_stage(ctx):
    import random

    col = Collector(ctx)
    hid = 0
    seeds = random.Random(ctx.seed * 1000003 + 9092)  # private stream: the draws of the older streams stay what they were
    for family, nq, nt in (("random", 26, 320), ("two_applications", 15, 200), ("queries", 15, 200)):
        for _ in range(ctx.n(nq, nt)):
            hid += 1
            hseed = seeds.randrange(1, 2 ** 31)
            ctx.stage(lambda c, hid=hid, hseed=hseed, family=family: run_record_history(c, col, hid, hseed, family))
    col.run("record", shard=ctx.n(100, 250), header=RHEADER)


# ----------------------------------------------------------------------------


def only(name):
    """development aid: C09_ONLY=stream,stream restricts the run (unset in normal use)"""
    import os

    sel = os.environ.get("C09_ONLY")
    return (not sel) or name in sel.split(",")


def exact_stage(ctx):
    col = Collector(ctx)
    for fn in (add_stream, scale_stream, apply_vec_stream, apply_op_stream, scalar_stream, ptrace_stream, transpose_stream,
               named_stream, layout_stream, submpo_stream, compress_bonds_stream):
        if only(fn.__name__):
            ctx.stage(lambda c, fn=fn: fn(c, col))
    col.run("exact", shard=ctx.n(36, 40))


def timed(ctx, fn):
    import time

    if not (only(fn.__name__) or fn.__name__ == "exact_stage"):
        return
    t0, c0 = time.time(), time.process_time()
    ctx.stage(fn)
    ctx.extra.setdefault("stage_seconds", {})[fn.__name__] = {"wall": round(time.time() - t0, 1), "python_cpu": round(time.process_time() - c0, 1)}


def run(ctx):
    ctx.extra["rule"] = RULE
    ctx.trusted_base += [
        "C09/Proofs.v: matrix-product algebra over an arbitrary commutative ring (site matrices as functions, explicit bond "
        "dimensions); tied to the implementation by (a) site_sum_check: every site array of the implementation's sum equals the "
        "modelled direct sum (pad + add) of the operands' site arrays, (b) dense(result network) == list-algebra expectation "
        "computed by vm_compute from dense(input networks) (coq/Base/TNExec.v `dense` is the function C01's theorems are about)",
        "C09/Cap.v: the sweep machine of C09/Model.v (bond arithmetic + isometry statuses of left/right canonize / compress "
        "sweeps and compress(form)); tied by compress_bonds_check: bond sizes after mps.compress(form, max_bond, cutoff=0) on "
        "generic data equal the model's, for every form. Oracle contracts (validated numerically each run, not proved): reduced "
        "QR / SVD factors are isometries, SVD returns min(m, n) values, cutoff=0 keeps min(max_bond, rank bound) values",
        "C09/Record.v: the canonical-centre record info['cur_orthog'] (C09/RecordModel.v: parse/setdefault rule, canonicalize's "
        "range arithmetic and shift programs, the record written by gate_with_submpo per sweep direction, the copy discipline and the "
        "term order of compute_local_expectation_canonical) on top of the isometry statuses of C09/Model.v; tied by step_check: after "
        "EVERY call of every observed history the implementation's record equals the model's and every isometry the model guarantees "
        "is measured on the state. Oracle contracts (measured on every call, not proved): QR / LQ factors are isometries, the "
        "compression of a region leaves the canonical form its sweep direction promises, calc_current_orthog_center reports true facts",
        "modelled, not verified: the Python control flow of tensor_network_apply_op_vec/op_op, tensor_network_ag_sum, "
        "TensorNetwork.multiply, partial_trace_to_mpo, partial_transpose, the named generators and every method of "
        "tensor_network_1d_compress is covered by correspondence / oracle runs, not by a theorem about that code; float "
        "round-off; cotengra; LAPACK",
    ]
    ctx.assumptions += [
        "not carried by a theorem (tests only, tolerance): reproduction without truncation, canonical form and bond cap of "
        "the 17 registered 1D compression methods; the direct method's error <= sqrt(sum over cuts of the discarded squared "
        "Schmidt values of the input) and >= the Eckart-Young bound; from_dense round trips; single-precision dtypes",
        "record histories (tests, tolerance 1e-9 / 1e-8): state vectors and expectation values against numpy; a truncating 'direct' "
        "application must equal the cut-by-cut optimal truncation of the exact result (independent SVD reference) and stay below the "
        "root-sum-square of the discarded singular values; method 'lazy' (no MPS is returned) and records of other types (int, list) "
        "are outside the stream",
        "stored exponents (test, 1e-10 relative; 1e-9 / 1e-8 where an exact recompression is part of the call): numpy reference "
        "10**e * dense(tensors) per operand",
        "periodic sums need L >= 3 (tensor_network_ag_sum documents one bond per pair of sites); 1D compression methods "
        "always return open-boundary networks; periodic chains are exercised through MPS.compress only",
        "exact comparisons round implementation values to Gaussian integers within 1e-7 relative (tnmodel.to_gauss)",
    ]
    ctx.check_props(["Base/Sums.vo", "Base/TN.vo", "Base/TNExec.vo", "C09/Model.vo", "C09/Proofs.vo", "C09/Cap.vo", "C09/Trunc.vo", "C09/RecordModel.vo", "C09/Record.vo", "C09/Props.v"])
    timed(ctx, exact_stage)
    timed(ctx, record_history_stage)
    timed(ctx, exponent_stream)
    timed(ctx, compression_stream)
    timed(ctx, options_stream)
    timed(ctx, bond_cap_stream)
    timed(ctx, compress_site_stream)
    timed(ctx, dense_roundtrip_stream)
    timed(ctx, float_ops_stream)


def replay(ctx, path):
    """replays are produced from the run's seed: re-run the streams of the recorded tier/seed"""
    import json

    try:
        with open(path) as f:
            d = json.load(f)
        ctx.extra["replaying"] = {"key": d.get("key"), "seed": d.get("seed"), "tier": d.get("tier")}
        import random

        ctx.seed = int(d.get("seed", ctx.seed))
        ctx.rng = random.Random(ctx.seed * 1000003 + int(ctx.pid[1:]))
        if d.get("tier") in ("quick", "thorough"):
            ctx.tier = d["tier"]
            ctx.quick = ctx.tier == "quick"
    except Exception:
        pass
    run(ctx)

"""C03 - labelled semantics: axis order never matters; non-in-place calls never mutate.

Proof part (coq/C03): (a) the value function of an array-backed tensor is
unchanged by ANY permutation of its stored axes (all ranks, shapes, permutations);
network values only see value functions (coq/Base/TN.v), so every label-level
operation is axis-order independent. (b) the copy idiom is a frame: a body that
writes only objects other than the receiver's and never writes into array cells
the receiver references leaves the receiver's fingerprint unchanged.
Tie: (a) numpy/quimb transposition vs the model's transpose_data, exhaustive
over all permutations up to rank 4 (exact, in Coq); (b) an inventory of every
(f, f_) pair found by reflection, classified from source (copy idiom /
delegation / other) and re-proved safe by vm_compute on the regenerated list;
Oracle: for every pair with an argument recipe: receiver fingerprint (labels,
tags, dtype, array bytes - also of a copy sharing the arrays) unchanged by the
plain call, f(x) == f_(copy x) as labelled objects, and f(x) == f(x with every
tensor's axes randomly permuted). A plain spelling that returns the contracted
number is compared with the number (or label-free network) the in-place spelling
leaves. Randomised methods are called with a fixed seed (see GLOBAL_SEEDED /
AXIS_ORDER_DRAWS / RANDOMISED above one_case).
"""

import ast
import functools
import inspect
import itertools
import textwrap

import numpy as np

from harness import tnmodel as tm
from harness.common import natlit

RULE = (
    "pairs: every public (f, f_) discovered by reflection on Tensor, TensorNetwork and the 1D/2D/3D/arbitrary "
    "geometry classes; each pair with an argument recipe is run on fresh receivers (several seeds) in three ways "
    "(plain, in-place on a copy, plain on an axis-permuted twin). Transposition: all permutations of ranks 1-4 on "
    "integer arrays. Non-trivial: the in-place spelling changes the receiver's fingerprint (so non-mutation of the "
    "plain spelling is a real claim)."
)


# ----------------------------------------------------------------------------
# reflection


def classes():
    import quimb.tensor as qtn

    names = ["Tensor", "TensorNetwork", "MatrixProductState", "MatrixProductOperator", "PEPS", "PEPO",
             "TensorNetwork2D", "TensorNetwork3D", "PEPS3D", "TensorNetworkGen", "TensorNetworkGenVector",
             "TensorNetworkGenOperator", "TensorNetwork1D"]
    return [getattr(qtn, n) for n in names if hasattr(qtn, n)]


def discover_pairs():
    pairs = {}
    for cls in classes():
        for name in dir(cls):
            if not name.endswith("_") or name.startswith("_") or not hasattr(cls, name[:-1]):
                continue
            for k in cls.__mro__:
                if name in k.__dict__:
                    st = k.__dict__[name]
                    kw = getattr(st, "keywords", None) or {}
                    base = getattr(st, "func", None)
                    pairs.setdefault((k.__name__, name[:-1]), {"owner": k, "static": st, "kw": dict(kw), "func": base})
                    break
    return pairs


MUTATING_CALLS = {"modify", "add_tensor", "add_tensor_network", "pop_tensor", "add_tag", "drop_tags", "_link_tags",
                  "_unlink_tags", "_link_inds", "_unlink_inds", "delete", "add"}


def classify(func):
    """CopyIdiom | Delegates | Other, plus syntactic in-place array writes."""
    try:
        src = textwrap.dedent(inspect.getsource(func))
        tree = ast.parse(src)
    except Exception:
        return "Other", ["no-source"]
    fn = tree.body[0]
    argnames = [a.arg for a in fn.args.args + fn.args.kwonlyargs]
    has_inplace = "inplace" in argnames
    notes = []
    idiom_var = None
    idiom_line = None
    for node in ast.walk(fn):
        if isinstance(node, ast.Assign) and isinstance(node.value, ast.IfExp):
            v = node.value
            if (isinstance(v.body, ast.Name) and v.body.id == "self" and "inplace" in ast.unparse(v.test)
                    and "copy" in ast.unparse(v.orelse) and isinstance(node.targets[0], ast.Name)):
                idiom_var, idiom_line = node.targets[0].id, node.lineno
    # writes through `self` after (or without) the idiom
    self_mut = []
    for node in ast.walk(fn):
        if isinstance(node, (ast.Assign, ast.AugAssign)):
            tgts = node.targets if isinstance(node, ast.Assign) else [node.target]
            for t in tgts:
                root = t
                while isinstance(root, (ast.Attribute, ast.Subscript)):
                    root = root.value
                if isinstance(root, ast.Name) and root.id == "self" and not isinstance(t, ast.Name):
                    self_mut.append(node.lineno)
        if isinstance(node, ast.Call) and isinstance(node.func, ast.Attribute):
            root = node.func.value
            # `super().f(..., inplace=True)` acts on self, whatever local name holds the copy
            if (isinstance(root, ast.Call) and isinstance(root.func, ast.Name) and root.func.id == "super" and not root.args
                    and any(kw.arg == "inplace" and isinstance(kw.value, ast.Constant) and kw.value.value is True for kw in node.keywords)):
                self_mut.append(node.lineno)
            if isinstance(root, ast.Name) and root.id == "self":
                nm = node.func.attr
                if nm in MUTATING_CALLS or (nm.endswith("_") and not nm.startswith("_")):
                    self_mut.append(node.lineno)
    # a call on `self` whose value is discarded, after the working copy was taken under another name, can only be there
    # for its effect on `self` (seeded C03/m2: `self.ensure_bonds_exist()` instead of `tn.ensure_bonds_exist()`)
    if idiom_var is not None and idiom_var != "self":
        for node in ast.walk(fn):
            if (isinstance(node, ast.Expr) and isinstance(node.value, ast.Call) and isinstance(node.value.func, ast.Attribute)
                    and isinstance(node.value.func.value, ast.Name) and node.value.func.value.id == "self"
                    and node.lineno > idiom_line):
                self_mut.append(node.lineno)
    # in-place array writes anywhere
    for node in ast.walk(fn):
        if isinstance(node, (ast.Assign, ast.AugAssign)):
            tgts = node.targets if isinstance(node, ast.Assign) else [node.target]
            for t in tgts:
                if isinstance(t, ast.Subscript) and "data" in ast.unparse(t.value):
                    notes.append(f"array-write@{node.lineno}")
        if isinstance(node, ast.keyword) and node.arg == "out":
            notes.append("out=")
    delegates = False
    for node in ast.walk(fn):
        if isinstance(node, ast.Call):
            for kw in node.keywords:
                if kw.arg == "inplace" and isinstance(kw.value, ast.Name) and kw.value.id == "inplace":
                    delegates = True
            for kw in node.keywords:
                if kw.arg is None and "opts" in ast.unparse(kw.value):
                    pass
    if idiom_var is not None and not [l for l in self_mut if l >= idiom_line] and not self_mut:
        return "CopyIdiom", notes
    if idiom_var is not None and not self_mut:
        return "CopyIdiom", notes
    if delegates and not self_mut:
        return "Delegates", notes
    if not has_inplace:
        return "Other", notes + ["no-inplace-param"]
    return "Other", notes + ([f"self-mutation@{self_mut[:3]}"] if self_mut else [])


# ----------------------------------------------------------------------------
# receivers and argument recipes


def ints(rng, shape, cplx=False):
    a = rng.integers(-3, 4, size=shape).astype(float)
    if cplx:
        a = a + 1j * rng.integers(-3, 4, size=shape)
    return a


def make_receivers(seed):
    import quimb as qu
    import quimb.tensor as qtn

    rng = np.random.default_rng(seed)
    R = {}
    R["T"] = lambda: qtn.Tensor(ints(rng, (2, 3, 2)), ("a", "b", "c"), tags=["T", "X"])
    def tn():
        ts = [qtn.Tensor(ints(rng, (2, 3)), ("a", "b"), tags=["A", "X"]),
              qtn.Tensor(ints(rng, (3, 2, 2)), ("b", "c", "d"), tags=["B", "X"]),
              qtn.Tensor(ints(rng, (2, 2, 2)), ("c", "e", "f"), tags=["C", "Y"]),
              qtn.Tensor(ints(rng, (2, 2)), ("e", "a"), tags=["D", "Y"])]
        return qtn.TensorNetwork(ts)
    R["TN"] = tn
    R["MPS"] = lambda: qtn.MPS_rand_state(4, 3, seed=int(rng.integers(1 << 30)), dtype="complex128")
    R["MPO"] = lambda: qtn.MPO_rand_herm(4, 2, seed=int(rng.integers(1 << 30)))
    R["PEPS"] = lambda: qtn.PEPS.rand(2, 2, 2, seed=int(rng.integers(1 << 30)))
    R["TN2D"] = lambda: qtn.TN2D_rand(3, 3, 2, seed=int(rng.integers(1 << 30)))
    R["PEPS3D"] = lambda: qtn.PEPS3D.rand(2, 2, 2, 2, seed=int(rng.integers(1 << 30)))
    R["ISO"] = lambda: qtn.IsoTensor(ints(rng, (2, 3, 2)), ("a", "b", "c"), tags=["T", "X"], left_inds=("a",))
    R["TN3D"] = lambda: qtn.TN3D_rand(2, 2, 2, 2, seed=int(rng.integers(1 << 30)))
    def mps_nobond():
        # product-state MPS whose size-1 dummy bonds were squeezed away: neighbouring sites share no bond
        p = qtn.MPS_computational_state("0110", dtype="complex128")
        p.squeeze_()
        for t in p:
            t.modify(data=t.data * float(rng.integers(1, 4)))
        return p
    R["MPS_NOBOND"] = mps_nobond
    edges = [(0, 1), (1, 2), (2, 0), (2, 3)]
    R["GENV"] = lambda: qtn.TN_from_edges_rand(edges, D=2, phys_dim=2, seed=int(rng.integers(1 << 30)))
    # arbitrary-geometry operator (upper "k{}" / lower "b{}" index per site), same graph as GENV
    R["GENO"] = lambda: qtn.TN_from_edges_rand(edges, D=2, phys_dim=2, seed=int(rng.integers(1 << 30)), site_ind_id=("k{}", "b{}"))
    R["PEPO"] = lambda: qtn.PEPO.rand(2, 2, 2, seed=int(rng.integers(1 << 30)))
    R["TN2D4"] = lambda: qtn.TN2D_rand(4, 4, 2, seed=int(rng.integers(1 << 30)))
    R["TN3D322"] = lambda: qtn.TN3D_rand(3, 2, 2, 2, seed=int(rng.integers(1 << 30)))
    def tree():
        # a tree (no loops) with open legs on every tensor and bonds large enough that max_bond=2 really truncates
        ts = [qtn.Tensor(ints(rng, (2, 3)), ("a", "b"), tags=["A", "X"]),
              qtn.Tensor(ints(rng, (3, 4, 3, 2)), ("b", "c", "d", "p"), tags=["B", "X"]),
              qtn.Tensor(ints(rng, (4, 2, 2)), ("c", "e", "f"), tags=["C", "Y"]),
              qtn.Tensor(ints(rng, (3, 2)), ("d", "g"), tags=["D", "Y"]),
              qtn.Tensor(ints(rng, (2, 2)), ("e", "h"), tags=["E", "Y"])]
        return qtn.TensorNetwork(ts)
    R["TREE"] = tree
    def tn_iso():
        # every tensor carries `left_inds` (what TensorNetwork.isometrize / unitize require)
        ts = [qtn.Tensor(ints(rng, (2, 3)) + 4 * np.eye(2, 3), ("a", "b"), tags=["A", "X"], left_inds=("b",)),
              qtn.Tensor(ints(rng, (3, 2, 2)), ("b", "c", "d"), tags=["B", "X"], left_inds=("b", "d")),
              qtn.Tensor(ints(rng, (2, 2, 2)), ("c", "e", "f"), tags=["C", "Y"], left_inds=("e", "f"))]
        return qtn.TensorNetwork(ts)
    R["TN_ISO"] = tn_iso
    # two tensors per site (an operator lazily gated onto a state / a bra-ket sandwich): what `flatten` is for
    R["MPS_LAZY"] = lambda: qtn.MPS_rand_state(4, 2, seed=int(rng.integers(1 << 30))).gate_with_op_lazy(
        qtn.MPO_rand_herm(4, 2, seed=int(rng.integers(1 << 30))))
    R["GENV_LAZY"] = lambda: R["GENV"]().gate_with_op_lazy(R["GENO"]())
    R["NORM2D"] = lambda: qtn.PEPS.rand(2, 3, 2, seed=int(rng.integers(1 << 30))).make_norm()
    R["NORM3D"] = lambda: qtn.PEPS3D.rand(1, 2, 2, 2, seed=int(rng.integers(1 << 30))).make_norm()
    return R, rng


def recipes():
    """method name -> (receiver kinds, lambda rng, x -> (args, kwargs))"""
    import quimb as qu
    import quimb.tensor as qtn

    X = qu.pauli("X")
    CN = qu.controlled("not")
    S = {}

    def add(name, kinds, fn):
        S.setdefault(name, []).append((kinds, fn))

    # ---- Tensor
    add("astype", ["T", "TN"], lambda r, x: (("complex64",), {}))
    add("conj", ["T", "TN", "MPS"], lambda r, x: ((), {}))
    add("flip", ["T"], lambda r, x: (("b",), {}))
    add("flip", ["TN"], lambda r, x: ((["b"],), {}))
    add("fuse", ["T"], lambda r, x: (({"ab": ("a", "b")},), {}))
    add("unfuse", ["T"], lambda r, x: (({"b": ("b1", "b2")}, {"b": (3, 1)}), {}))
    add("isel", ["T", "TN"], lambda r, x: (({"b": 1},), {}))
    add("moveindex", ["T"], lambda r, x: (("c", 0), {}))
    add("multiply_index_diagonal", ["T"], lambda r, x: (("b", np.array([1.0, 2.0, 3.0])), {}))
    add("negate", ["T", "TN"], lambda r, x: ((), {}))
    add("new_ind_pair_diag", ["T"], lambda r, x: (("b", "b1", "b2"), {}))
    add("new_ind_pair_with_identity", ["T"], lambda r, x: (("p", "q", 2), {}))
    add("normalize", ["T"], lambda r, x: ((), {}))
    add("reindex", ["T", "TN", "MPS"], lambda r, x: (({"a": "z"},), {}) if not hasattr(x, "site_ind") else (({x.site_ind(0): "z"},), {}))
    add("retag", ["T", "TN"], lambda r, x: (({"X": "W"},), {}))
    add("squeeze", ["T", "TN"], lambda r, x: ((), {}))
    add("sum_reduce", ["T"], lambda r, x: (("c",), {}))
    add("vector_reduce", ["T"], lambda r, x: (("c", np.array([1.0, -2.0])), {}))
    add("sum_reduce", ["TN"], lambda r, x: (("f",), {}))
    add("vector_reduce", ["TN"], lambda r, x: (("f", np.array([1.0, -2.0])), {}))
    add("transpose", ["T"], lambda r, x: (("c", "a", "b"), {}))
    add("transpose_like", ["T"], lambda r, x: ((qtn.Tensor(np.zeros((2, 2, 3)), ("c", "a", "b")),), {}))
    add("collapse_repeated", ["T"], lambda r, x: ((), {}))
    add("gate", ["T"], lambda r, x: ((X, "a"), {}))
    add("isometrize", ["T"], lambda r, x: ((["a"],), {"method": "qr"}))
    add("symmetrize", ["T"], lambda r, x: (("a", "c"), {}))
    add("direct_product", ["T"], lambda r, x: ((qtn.Tensor(np.ones((2, 3, 2)), ("a", "b", "c")),), {"sum_inds": ("a",)}))
    # ---- TensorNetwork
    add("multiply", ["TN"], lambda r, x: ((3.0,), {}))
    add("multiply_each", ["TN"], lambda r, x: ((2.0,), {}))
    add("equalize_norms", ["TN"], lambda r, x: ((), {}))
    add("contract", ["TN"], lambda r, x: ((["A", "B"],), {}))
    add("contract_tags", ["TN"], lambda r, x: ((["C", "D"],), {}))
    add("rank_simplify", ["TN"], lambda r, x: ((), {}))
    add("diagonal_reduce", ["TN"], lambda r, x: ((), {}))
    add("antidiag_gauge", ["TN"], lambda r, x: ((), {}))
    add("column_reduce", ["TN"], lambda r, x: ((), {}))
    add("split_simplify", ["TN"], lambda r, x: ((), {}))
    add("pair_simplify", ["TN"], lambda r, x: ((), {}))
    add("loop_simplify", ["TN"], lambda r, x: ((), {}))
    add("full_simplify", ["TN"], lambda r, x: (("ADCRS",), {}))
    add("fuse_multibonds", ["TN"], lambda r, x: ((), {}))
    add("gate_inds", ["TN"], lambda r, x: ((X, ["f"]), {}))
    add("gate_inds", ["TN"], lambda r, x: ((X, ["f"]), {"contract": True}))
    add("gauge_all_canonize", ["TN"], lambda r, x: ((), {}))
    add("gauge_all_simple", ["TN"], lambda r, x: ((), {"max_iterations": 5}))
    add("balance_bonds", ["TN"], lambda r, x: ((), {}))
    add("canonize_around", ["TN"], lambda r, x: ((["A"],), {}))
    add("compress_all", ["TN"], lambda r, x: ((), {"max_bond": 2}))
    add("expand_bond_dimension", ["TN"], lambda r, x: ((4,), {"rand_strength": 0.0, "inplace": False}))
    add("insert_operator", ["TN"], lambda r, x: ((np.array([[1.0, 2.0], [3.0, 4.0]]), ["A"], ["D"]), {}))
    add("replace_with_svd", ["TN"], lambda r, x: ((["A", "B"], ["a"], 1e-12), {}))
    add("hyperinds_resolve", ["TN"], lambda r, x: ((), {}))
    add("view_as", ["TN"], lambda r, x: ((qtn.TensorNetwork,), {}))
    add("drape_bond_between", ["TN"], lambda r, x: ((["A"], ["B"], ["C"]), {}))
    add("contract_around", ["TN"], lambda r, x: ((["A"],), {}))
    # ---- 1D
    add("add_MPS", ["MPS"], lambda r, x: ((x.copy() * 2.0,), {}))
    add("add_MPO", ["MPO"], lambda r, x: ((x.copy(),), {}))
    add("canonicalize", ["MPS"], lambda r, x: ((2,), {}))
    add("left_canonicalize", ["MPS"], lambda r, x: ((), {}))
    add("right_canonicalize", ["MPS"], lambda r, x: ((), {}))
    add("gate", ["MPS"], lambda r, x: ((X, 1), {"contract": True}))
    add("gate", ["MPS"], lambda r, x: ((CN, (1, 2)), {}))
    add("gate_split", ["MPS"], lambda r, x: ((CN, (1, 2)), {}))
    add("gate_with_auto_swap", ["MPS"], lambda r, x: ((CN, (0, 3)), {}))
    add("gate_nonlocal", ["MPS"], lambda r, x: ((CN, (0, 2)), {}))
    add("swap_sites_with_compress", ["MPS"], lambda r, x: ((1, 2), {}))
    add("swap_site_to", ["MPS"], lambda r, x: ((0, 2), {}))
    add("measure", ["MPS"], lambda r, x: ((1,), {"outcome": 0}))
    add("reindex_sites", ["MPS", "PEPS", "GENV"], lambda r, x: (("q{}" if not isinstance(x, qtn.PEPS) else "q{},{}",), {}))
    add("flatten", ["TN2D"], lambda r, x: ((), {}))
    add("compress_all", ["MPS"], lambda r, x: ((), {"max_bond": 2}))
    add("expand_bond_dimension", ["MPS"], lambda r, x: ((5,), {"rand_strength": 0.0, "inplace": False}))
    add("expand_bond_dimension", ["MPS_NOBOND"], lambda r, x: ((3,), {"rand_strength": 0.0, "create_bond": True, "inplace": False}))
    add("expand_bond_dimension", ["MPS_NOBOND"], lambda r, x: ((3,), {"rand_strength": 0.0, "create_bond": False, "inplace": False}))
    add("fill_empty_sites", ["MPO"], lambda r, x: ((), {}))
    add("flip", ["MPS"], lambda r, x: ((), {}))
    add("expand_bond_dimension", ["MPS"], lambda r, x: ((5,), {"rand_strength": 0.0, "bra": x.H, "inplace": False}))
    add("expand_bond_dimension", ["PEPS"], lambda r, x: ((3,), {"rand_strength": 0.0, "bra": x.H, "inplace": False}))
    add("reindex_sites", ["PEPS3D"], lambda r, x: (("q{},{},{}",), {}))
    add("fuse", ["ISO"], lambda r, x: (({"ab": ("a", "b")},), {}))
    # ---- 2D / 3D / gen
    add("add_PEPS", ["PEPS"], lambda r, x: ((x.copy(),), {}))
    add("gate", ["PEPS"], lambda r, x: ((X, (0, 1)), {}))
    add("gate", ["PEPS"], lambda r, x: ((CN, ((0, 0), (0, 1))), {"contract": "split"}))
    add("normalize", ["PEPS"], lambda r, x: ((), {}))
    add("contract_boundary", ["TN2D"], lambda r, x: ((), {"max_bond": 8}))
    add("contract_boundary_from_xmin", ["TN2D"], lambda r, x: (((0, 1),), {"max_bond": 8}))
    add("contract_boundary_from_ymax", ["TN2D"], lambda r, x: (((1, 2),), {"max_bond": 8}))
    add("contract_hotrg", ["TN2D"], lambda r, x: ((), {"max_bond": 8}))
    add("contract_boundary", ["TN3D"], lambda r, x: ((), {"max_bond": 8}))
    add("gate", ["GENV"], lambda r, x: ((X, 2), {}))
    add("gate_simple", ["GENV"], lambda r, x: ((CN, (0, 1)), {"gauges": {}}))
    add("retag_all", ["GENV"], lambda r, x: (("Z{}",), {}))
    add("align", ["GENV", "MPS", "MPO", "PEPS"], lambda r, x: ((), {}))
    # explicit outer ids different from the ones the receiver carries (seeded C03/m3 only shows then)
    add("align", ["MPS"], lambda r, x: ((qtn.MPO_rand_herm(4, 2, seed=int(r.integers(1 << 30))),), {"ind_ids": ["u{}", "v{}"]}))
    add("align", ["MPS"], lambda r, x: ((qtn.MPO_rand_herm(4, 2, seed=int(r.integers(1 << 30))), x.H), {"ind_ids": ["u{}", "v{}", "w{}"]}))
    add("align", ["MPO"], lambda r, x: ((qtn.MPS_rand_state(4, 2, seed=int(r.integers(1 << 30))),), {"ind_ids": ["u{}", "v{}"]}))
    add("align", ["GENV"], lambda r, x: ((x.H,), {"ind_ids": ["u{}", "v{}"]}))
    add("align", ["PEPS"], lambda r, x: ((x.H,), {"ind_ids": ["u{},{}", "v{},{}"]}))
    add("reindex_all", ["GENV"], lambda r, x: (("z{}",), {}))
    # ---- pairs added in the coverage round (arguments in the documented domain; every randomised method gets a seed)
    sd = lambda r: int(r.integers(1 << 30))
    add("to", ["T", "TN", "MPS"], lambda r, x: ((), {"dtype": "complex64"}))
    add("to", ["T", "TN"], lambda r, x: (("numpy-float32",), {}))
    add("rand_reduce", ["T"], lambda r, x: (("b",), {"seed": sd(r)}))
    add("randomize", ["T", "TN", "MPS"], lambda r, x: ((), {"seed": sd(r)}))
    add("randomize", ["TN"], lambda r, x: ((), {"seed": sd(r), "dtype": "complex128"}))
    add("unitize", ["T"], lambda r, x: ((["a"],), {"method": "qr"}))
    add("unitize", ["ISO"], lambda r, x: ((), {"method": "svd"}))
    add("unitize", ["TN_ISO"], lambda r, x: ((), {"method": "qr"}))
    add("isometrize", ["TN_ISO"], lambda r, x: ((), {"method": "qr"}))
    add("isometrize", ["TN"], lambda r, x: ((), {"method": "qr", "allow_no_left_inds": True}))
    add("view_like", ["TN"], lambda r, x: ((qtn.TN_from_edges_rand([(0, 1), (1, 2)], D=2, seed=sd(r)),), {}))
    add("compress_all_tree", ["TREE", "MPS"], lambda r, x: ((), {"max_bond": 2}))
    add("compress_all_1d", ["TREE", "MPS"], lambda r, x: ((), {"max_bond": 2}))
    add("compress_all_1d", ["TREE"], lambda r, x: ((), {"max_bond": 2, "canonize": False}))
    add("compress_all_simple", ["TN", "TREE", "PEPS"], lambda r, x: ((), {"max_bond": 2}))
    add("compress_simplify", ["TN", "TREE"], lambda r, x: ((), {}))
    add("compress_simplify", ["TN"], lambda r, x: ((), {"output_inds": ("d", "f"), "final_resolve": True}))
    add("contract_compressed", ["TN"], lambda r, x: (([(0, 1), (0, 1), (0, 1)],), {"max_bond": 4}))
    add("contract_compressed", ["TN"], lambda r, x: (([(2, 3), (0, 1), (0, 1)],), {"max_bond": 4, "output_inds": ("f", "d"), "preserve_tensor": True}))
    add("contract_compressed", ["TN2D"], lambda r, x: (("greedy",), {"max_bond": 16}))
    add("fit", ["TREE"], lambda r, x: ((x.copy().randomize_(seed=sd(r)),), {"method": "tree", "steps": 3}))
    # (ALS solves a dense local normal equation: only on receivers with generic data, small-integer trees can make it singular)
    add("fit", ["MPS"], lambda r, x: ((qtn.MPS_rand_state(4, 2, seed=sd(r), dtype="complex128"),), {"method": "tree", "steps": 2}))
    add("fit", ["MPS"], lambda r, x: ((qtn.MPS_rand_state(4, 2, seed=sd(r), dtype="complex128"),), {"method": "als", "steps": 2, "solver_dense": "lstsq"}))
    gate_t = lambda r: qtn.Tensor(ints(r, (2, 2, 2, 2)), ("o1", "o2", "i1", "i2"), tags=["G"])
    add("gate_inds_with_tn", ["TN"], lambda r, x: ((["d", "f"], gate_t(r), ["i1", "i2"], ["o1", "o2"]), {}))
    # an index that is not on the network: the gate's inner and outer label are both kept (documented case)
    add("gate_inds_with_tn", ["TN"], lambda r, x: ((["d", "zz"], gate_t(r).as_network(), ["i1", "i2"], ["o1", "o2"]), {}))
    add("gate_sandwich_inds", ["TN"], lambda r, x: ((ints(r, (2, 2), True), ["d"], ["f"]), {}))
    add("gate_sandwich_inds", ["TN"], lambda r, x: ((ints(r, (2, 2), True), ["d"], ["f"]), {"contract": True, "dagger": True}))
    add("gate_sandwich_inds", ["GENO"], lambda r, x: ((ints(r, (4, 4), True), ["k0", "k1"], ["b0", "b1"]), {"contract": "split"}))
    add("gauge_all", ["TN"], lambda r, x: ((), {}))
    add("gauge_all", ["TN"], lambda r, x: (("simple",), {"max_iterations": 3}))
    add("gauge_all", ["TN"], lambda r, x: (("bp",), {"max_iterations": 3}))
    add("gauge_all", ["TN"], lambda r, x: (("random",), {"seed": sd(r)}))
    add("gauge_all_belief_propagation", ["TN", "TREE", "PEPS"], lambda r, x: ((), {"max_iterations": 3}))
    add("gauge_all_random", ["TN", "MPS"], lambda r, x: ((), {"seed": sd(r)}))
    add("gauge_all_random", ["TN"], lambda r, x: ((), {"seed": sd(r), "unitary": False, "max_iterations": 2}))
    add("gauge_local", ["TN", "TREE"], lambda r, x: ((["A"],), {}))
    add("gauge_local", ["TN"], lambda r, x: ((["A"],), {"method": "simple", "max_distance": 2}))
    # (belief propagation needs non-degenerate messages: generic data, not the small-integer network)
    add("gauge_local", ["PEPS"], lambda r, x: (([x.site_tag(0, 0)],), {"method": "bp", "max_distance": 2}))
    add("gauge_local", ["TN"], lambda r, x: ((["B", "Y"],), {"which": "any", "method": "random", "seed": sd(r)}))
    add("insert_compressor_between_regions", ["TN"], lambda r, x: ((["A", "B"], ["C", "D"]), {"max_bond": 2, "new_tags": "P"}))
    add("insert_compressor_between_regions", ["TN"], lambda r, x: ((["A", "B"], ["C", "D"]), {"max_bond": 2, "mode": "nystrom"}))
    add("insert_compressor_between_regions", ["TN2D"], lambda r, x: ((["X0"], ["X1"]), {"max_bond": 4}))
    # ---- 1D operators / MPS with MPO
    add("gate_with_mpo", ["MPS"], lambda r, x: ((qtn.MPO_rand_herm(4, 2, seed=sd(r)),), {}))
    add("gate_with_mpo", ["MPS"], lambda r, x: ((qtn.MPO_rand_herm(4, 2, seed=sd(r)),), {"method": "zipup", "max_bond": 4, "transpose": True}))
    submpo = lambda r: qtn.MatrixProductOperator([ints(r, (2, 2, 2)), ints(r, (2, 2, 2))], sites=[1, 2], L=4)
    add("gate_with_submpo", ["MPS"], lambda r, x: ((submpo(r),), {}))
    add("gate_with_submpo", ["MPS"], lambda r, x: ((submpo(r),), {"method": "lazy"}))
    add("gate_with_submpo", ["MPS"], lambda r, x: ((submpo(r),), {"where": (1, 2), "max_bond": 3, "transpose": True}))
    add("gate_sandwich_with_auto_swap", ["MPO"], lambda r, x: ((CN, (0, 3)), {}))
    add("gate_sandwich_with_auto_swap", ["MPO"], lambda r, x: ((CN, (2, 1)), {"dagger": True}))
    add("reindex_lower_sites", ["MPO"], lambda r, x: (("q{}",), {}))
    add("reindex_upper_sites", ["MPO"], lambda r, x: (("q{}",), {"where": slice(1, 3)}))
    add("reindex_lower_sites", ["PEPO"], lambda r, x: (("q{},{}",), {"where": [(0, 0), (1, 1)]}))
    add("reindex_upper_sites", ["PEPO"], lambda r, x: (("q{},{}",), {}))
    add("reindex_lower_sites", ["GENO"], lambda r, x: (("q{}",), {"where": [0, 2]}))
    add("reindex_upper_sites", ["GENO"], lambda r, x: (("q{}",), {}))
    add("add_PEPO", ["PEPO"], lambda r, x: ((qtn.PEPO.rand(2, 2, 2, seed=sd(r)),), {}))
    # ---- arbitrary-geometry operators
    geno = lambda r: qtn.TN_from_edges_rand([(0, 1), (1, 2), (2, 0), (2, 3)], D=2, phys_dim=2, seed=sd(r), site_ind_id=("k{}", "b{}"))
    genv = lambda r: qtn.TN_from_edges_rand([(0, 1), (1, 2), (2, 0), (2, 3)], D=2, phys_dim=2, seed=sd(r))
    add("apply", ["GENO"], lambda r, x: ((genv(r),), {}))
    add("apply", ["GENO"], lambda r, x: ((geno(r),), {}))
    add("apply", ["GENO"], lambda r, x: ((genv(r),), {"contract": False}))
    add("apply", ["MPO"], lambda r, x: ((qtn.MPS_rand_state(4, 2, seed=sd(r)),), {}))
    add("gate_upper", ["GENO"], lambda r, x: ((X, 1), {}))
    add("gate_upper", ["GENO"], lambda r, x: ((CN, (2, 3)), {"contract": "split"}))
    add("gate_lower", ["GENO"], lambda r, x: ((CN, (0, 1)), {}))
    add("gate_lower", ["GENO"], lambda r, x: ((X, 2), {"contract": True, "transpose": True}))
    add("gate_sandwich", ["GENO"], lambda r, x: ((CN, (0, 1)), {}))
    add("gate_sandwich", ["GENO"], lambda r, x: ((ints(r, (4, 4), True), (1, 2)), {"contract": "split", "dagger": True}))
    add("gate_sandwich", ["GENO"], lambda r, x: ((ints(r, (2, 2), True), 3), {"contract": True, "propagate_tags": "register"}))
    add("gate_upper_with_op_lazy", ["GENO"], lambda r, x: ((geno(r),), {}))
    add("gate_upper_with_op_lazy", ["GENO"], lambda r, x: ((geno(r),), {"transpose": True}))
    add("gate_lower_with_op_lazy", ["GENO"], lambda r, x: ((geno(r),), {}))
    add("gate_lower_with_op_lazy", ["GENO"], lambda r, x: ((geno(r),), {"transpose": True}))
    add("gate_sandwich_with_op_lazy", ["GENO"], lambda r, x: ((geno(r),), {}))
    add("gate_sandwich_with_op_lazy", ["GENO"], lambda r, x: ((geno(r),), {"dagger": True}))
    add("partial_transpose", ["GENO"], lambda r, x: (([0, 2],), {}))
    add("partial_transpose", ["GENO", "MPO"], lambda r, x: ((1,), {}))
    add("gate_with_op_lazy", ["GENV"], lambda r, x: ((geno(r),), {}))
    add("gate_with_op_lazy", ["GENV"], lambda r, x: ((geno(r),), {"transpose": True}))
    add("gate_with_op_lazy", ["MPS"], lambda r, x: ((qtn.MPO_rand_herm(4, 2, seed=sd(r)),), {}))
    # ---- 2D / 3D boundary, CTMRG, HOTRG (bond caps large enough that nothing is truncated: plain, in-place and the
    # axis-permuted twin must then agree to rounding)
    add("contract_boundary_from", ["TN2D"], lambda r, x: (((0, 1), (0, 2), "xmin"), {"max_bond": 8}))
    add("contract_boundary_from", ["TN2D"], lambda r, x: (((0, 2), (1, 2), "ymax"), {"max_bond": 8, "canonize": False}))
    add("contract_boundary_from_xmax", ["TN2D"], lambda r, x: (((1, 2),), {"max_bond": 8}))
    add("contract_boundary_from_ymin", ["TN2D"], lambda r, x: (((0, 1),), {"max_bond": 8}))
    add("contract_ctmrg", ["TN2D", "TN2D4"], lambda r, x: ((), {"max_bond": 8}))
    add("contract_ctmrg", ["TN2D4"], lambda r, x: ((), {"max_bond": 8, "final_contract": False}))
    add("contract_mps_sweep", ["TN2D"], lambda r, x: ((), {"max_bond": 8}))
    add("contract_mps_sweep", ["TN2D"], lambda r, x: ((), {"max_bond": 8, "direction": "ymax", "final_contract": False}))
    add("coarse_grain_hotrg", ["TN2D"], lambda r, x: (("x",), {"max_bond": 4}))
    add("coarse_grain_hotrg", ["TN2D4"], lambda r, x: (("y",), {"max_bond": 4}))
    add("coarse_grain_hotrg", ["TN3D", "TN3D322"], lambda r, x: (("x",), {"max_bond": 4}))
    add("coarse_grain_hotrg", ["TN3D"], lambda r, x: (("z",), {"max_bond": 4, "lazy": True}))
    add("contract_boundary_from", ["TN3D322"], lambda r, x: (((0, 1), (0, 1), (0, 1), "xmin"), {"max_bond": 4}))
    add("contract_ctmrg", ["TN3D", "TN3D322"], lambda r, x: ((), {"max_bond": 4}))
    add("contract_ctmrg", ["TN3D322"], lambda r, x: ((), {"max_bond": 4, "final_contract": False}))
    # ---- pairs that had a recipe under their name but no receiver reaching that owner's attribute
    add("flatten", ["MPS_LAZY", "GENV_LAZY", "NORM2D", "NORM3D"], lambda r, x: ((), {}))
    add("flatten", ["MPS_LAZY"], lambda r, x: ((), {"fuse_multibonds": False}))
    add("contract_hotrg", ["TN3D"], lambda r, x: ((), {"max_bond": 4}))
    add("gate", ["PEPS3D"], lambda r, x: ((X, (0, 1, 1)), {}))
    add("gate", ["PEPS3D"], lambda r, x: ((CN, ((0, 0, 0), (0, 0, 1))), {"contract": "split"}))
    add("gate", ["GENO"], lambda r, x: ((CN, (0, 1)), {}))
    add("gate", ["GENO"], lambda r, x: ((ints(r, (2, 2), True), 3), {"which": "upper", "contract": True}))
    add("gate_simple", ["GENO"], lambda r, x: ((CN, (0, 1)), {"gauges": {}}))
    return S


def fingerprint(x):
    import quimb.tensor as qtn

    if isinstance(x, qtn.Tensor):
        ts = [x]
        extra = ()
    else:
        ts = [x.tensor_map[k] for k in sorted(x.tensor_map)]
        extra = (float(np.real(x.exponent)), type(x).__name__,
                 tuple((p, repr(getattr(x, p, None))) for p in getattr(type(x), "_EXTRA_PROPS", ())))
    return tuple((tuple(t.inds), tuple(sorted(map(str, t.tags))), str(t.dtype), tuple(t.shape),
                  np.ascontiguousarray(np.asarray(t.data)).tobytes(),
                  None if t.left_inds is None else tuple(t.left_inds)) for t in ts) + (extra,)


def np_dense_pairwise(tensors, outs, exponent=0.0):
    """dense array of a network over `outs`. Up to 6 tensors: the shared single-einsum reference (tm.np_dense). Larger
    networks (lazily gated operators, boundary-contracted lattices): the same numpy einsum evaluated pairwise
    (optimize="greedy"), because the one-shot einsum loops over the product of ALL label ranges at once."""
    if len(tensors) <= 6:
        return tm.np_dense(tensors, outs, exponent)
    namer = tm.Namer()
    args = []
    for inds, arr in tensors:
        args += [np.asarray(arr), [namer(i) for i in inds]]
    return np.einsum(*args, [namer(o) for o in outs], optimize="greedy") * (10.0 ** exponent)


def canon(r):
    """labelled content of a result: class, outer labels, dense over sorted outer labels, tag set."""
    import quimb.tensor as qtn

    if isinstance(r, qtn.Tensor):
        inds = tuple(sorted(r.inds))
        return ("Tensor", inds, np.asarray(r.transpose(*inds).data).astype(complex) if inds else np.asarray(r.data).astype(complex).reshape(()),
                tuple(sorted(map(str, r.tags))))
    if isinstance(r, qtn.TensorNetwork):
        cnt = {}
        for t in r.tensors:
            for i in t.inds:
                cnt[i] = cnt.get(i, 0) + 1
        outer = tuple(sorted(i for i, c in cnt.items() if c == 1))
        size = int(np.prod([r.ind_size(i) for i in outer])) if outer else 1
        if size > 1 << 14:
            dense = None
        else:
            dense = np_dense_pairwise([(t.inds, np.asarray(t.data)) for t in r.tensors], outer, float(np.real(r.exponent))).astype(complex)
        return (type(r).__name__, outer, dense, tuple(sorted(map(str, r.tags))))
    if isinstance(r, (tuple, list)):
        return tuple(canon(v) for v in r)
    if isinstance(r, (int, float, complex, np.number, np.ndarray)):
        return ("value", np.asarray(r).astype(complex))
    return ("other", repr(type(r)))


def canon_eq(a, b, tol=1e-8, labels=True):
    if type(a) != type(b):
        return False
    if isinstance(a, tuple) and a and isinstance(a[0], tuple):
        return len(a) == len(b) and all(canon_eq(x, y, tol, labels) for x, y in zip(a, b))
    if a[0] == "value":
        return np.shape(a[1]) == np.shape(b[1]) and np.allclose(a[1], b[1], atol=tol, rtol=tol)
    if a[0] == "other":
        return a == b
    # a lone Tensor and a one-tensor network are the same labelled content (in-place contraction keeps the network type)
    kinds = {a[0], b[0]}
    if a[0] != b[0] and not ("Tensor" in kinds and kinds <= {"Tensor", "TensorNetwork"}):
        return False
    if a[3] != b[3]:
        return False
    if labels and a[1] != b[1]:
        return False
    if not labels and len(a[1]) != len(b[1]):
        return False
    if a[2] is None or b[2] is None:
        return a[2] is b[2]
    if a[2].shape != b[2].shape:
        return False
    scale = max(1.0, float(np.max(np.abs(a[2]))) if a[2].size else 1.0)
    return np.allclose(a[2], b[2], atol=tol * scale, rtol=tol)


def permute_axes(x, rng):
    """twin of x whose tensors store their axes in a random order (same labelled content)"""
    import quimb.tensor as qtn

    y = x.copy()
    ts = [y] if isinstance(y, qtn.Tensor) else list(y.tensors)
    for t in ts:
        if t.ndim > 1:
            perm = list(rng.permutation(t.ndim))
            li = t.left_inds
            t.transpose_(*[t.inds[p] for p in perm])
            if li is not None:
                t.modify(left_inds=li)
    return y


FRESH_LABEL_METHODS = {"gate_inds", "gate", "gate_split", "gate_with_auto_swap", "gate_nonlocal", "insert_operator",
                       "replace_with_svd", "hyperinds_resolve", "split_simplify", "full_simplify", "drape_bond_between",
                       "gate_simple", "compress_all", "add_MPS", "add_MPO", "add_PEPS", "swap_sites_with_compress",
                       "swap_site_to", "pair_simplify", "loop_simplify", "new_ind_pair_with_identity"}


def behaviour(ctx):
    pairs = discover_pairs()
    S = recipes()
    exercised, nospec = set(), []
    kind_type = {}
    nseeds = ctx.n(2, 8)
    for (owner, name), info in sorted(pairs.items()):
        if name not in S:
            nospec.append(f"{owner}.{name}")
            continue
        for seed in range(nseeds):
            R, rng = make_receivers(ctx.seed * 100 + seed)
            for kinds, fn in S[name]:
                for kind in kinds:
                    # the class of each receiver kind is learnt once, so that receivers are only built for the pair
                    # whose in-place attribute they actually reach
                    if kind not in kind_type:
                        kind_type[kind] = type(R[kind]())
                    tx = kind_type[kind]
                    cls_owner = info["owner"]
                    if not issubclass(tx, cls_owner):
                        continue
                    # resolve the attribute actually reached on this receiver class
                    if getattr(tx, name + "_", None) is None:
                        continue
                    for k in tx.__mro__:
                        if (name + "_") in k.__dict__:
                            reached = k.__name__
                            break
                    if reached != owner:
                        continue
                    x = R[kind]()
                    try:
                        args, kw = fn(rng, x)
                    except Exception:
                        continue
                    one_case(ctx, owner, name, kind, x, args, kw, rng)
                    exercised.add(f"{owner}.{name}")
    ctx.extra["pairs_discovered"] = len(pairs)
    ctx.extra["pairs_exercised"] = len(exercised)
    ctx.extra["pairs_without_recipe"] = sorted(nospec)
    # a recipe exists under this method name, but no receiver kind reaches this owner's in-place attribute (or every
    # call was rejected): not exercised either
    ctx.extra["pairs_with_recipe_not_reached"] = sorted(f"{o}.{n}" for (o, n) in pairs if n in S and f"{o}.{n}" not in exercised)


def tn_like(v, out=None):
    """Tensor / TensorNetwork objects reachable in (nested) arguments or results"""
    import quimb.tensor as qtn

    out = [] if out is None else out
    if isinstance(v, (qtn.Tensor, qtn.TensorNetwork)):
        out.append(v)
    elif isinstance(v, (tuple, list)):
        for u in v:
            tn_like(u, out)
    elif isinstance(v, dict):
        for u in v.values():
            tn_like(u, out)
    return out


def tensor_ids(v):
    import quimb.tensor as qtn

    ids = set()
    for o in tn_like(v):
        if isinstance(o, qtn.Tensor):
            ids.add(id(o))
        else:
            ids.add(id(o))
            ids.update(id(t) for t in o.tensor_map.values())
    return ids


OUT_PARAMS = {"expand_bond_dimension": {"bra"}, "gate_simple": {"gauges"}}

# Randomised methods. Every recipe passes a fixed `seed` argument where the method accepts one, so that the plain and
# the in-place spelling draw the same numbers and stay comparable. Two residual cases:
#  * GLOBAL_SEEDED: the method draws from quimb's global generator and offers no seed argument
#    (insert_compressor_between_regions(mode="nystrom") builds its sketch with rand_tensor): the harness re-seeds the
#    public global generator (quimb.seed_rand) with the same value before each of the three calls.
#  * AXIS_ORDER_DRAWS: `randomize` fills each stored array with iid numbers in storage order; the twin whose tensors
#    store their axes in another order therefore holds the same numbers under other labels (equal in distribution
#    only). Its axis-order comparison is skipped; non-mutation and plain-vs-in-place are still checked.
#  * RANDOMISED: methods whose two spellings cannot be made to draw the same numbers at all: only the non-mutation
#    part is checked for them (currently empty: seeding made every exercised method reproducible).
GLOBAL_SEEDED = {"insert_compressor_between_regions"}
AXIS_ORDER_DRAWS = {"randomize"}
RANDOMISED = set()
# approximate / iterative contractions: plain vs axis-permuted twin agree to rounding of an SVD-based pipeline only
LOOSE_AXIS_TOL = {"compress_all", "contract_boundary", "contract_hotrg", "gauge_all_simple", "compress_all_tree",
                  "compress_all_1d", "compress_all_simple", "compress_simplify", "contract_compressed", "fit",
                  "gauge_all", "gauge_all_belief_propagation", "gauge_local", "insert_compressor_between_regions",
                  "gate_with_mpo", "gate_with_submpo", "gate_sandwich_with_auto_swap", "contract_boundary_from",
                  "contract_boundary_from_xmax", "contract_boundary_from_ymin", "contract_boundary_from_xmin",
                  "contract_boundary_from_ymax", "contract_ctmrg", "contract_mps_sweep", "coarse_grain_hotrg"}


def is_number(v):
    return isinstance(v, (int, float, complex, np.number)) and not isinstance(v, bool) or (isinstance(v, np.ndarray) and v.ndim == 0)


def as_number(v):
    """the scalar a result denotes: a number, or a tensor / network without outer labels (None otherwise)"""
    import quimb.tensor as qtn

    if is_number(v):
        return complex(v)
    if isinstance(v, (qtn.Tensor, qtn.TensorNetwork)):
        c = canon(v)
        if c[1] == () and c[2] is not None:
            return complex(np.asarray(c[2]).reshape(()))
    return None


def numbers_agree(a, b, tol):
    return abs(a - b) <= tol * max(1.0, abs(a), abs(b))


def one_case(ctx, owner, name, kind, x, args, kw, rng):
    desc = {"pair": f"{owner}.{name}", "receiver": kind, "args": repr(args)[:120], "kwargs": repr(kw)[:80]}
    import copy as _copy

    import quimb as qu

    def reseed():
        if name in GLOBAL_SEEDED:
            qu.seed_rand(ctx.seed + 4242)

    args0, kw0 = args, kw
    args, kw = _copy.deepcopy((args0, kw0))
    plain = getattr(x, name)
    share = x.copy()  # shares arrays with x
    fp_x, fp_share = fingerprint(x), fingerprint(share)
    kw_plain = dict(kw)
    # documented out-parameters (mirrored / updated in place by design) are not part of the non-mutation claim
    arg_objs = tn_like((args, {k: v for k, v in kw.items() if k not in OUT_PARAMS.get(name, ())}))
    fp_args = [fingerprint(a) for a in arg_objs]
    ctx.bump("argument_objects_fingerprinted", len(arg_objs))
    try:
        reseed()
        r_plain = plain(*args, **kw_plain)
    except Exception as e:
        ctx.bump("recipe_rejected")
        ctx.extra.setdefault("recipes_rejected", {})[f"{owner}.{name}:{kind}:{repr(kw)[:50]}"] = f"{type(e).__name__}: {str(e)[:100]}"
        return
    ok_mut = fingerprint(x) == fp_x and fingerprint(share) == fp_share
    if not ok_mut:
        ctx.violation(f"mutates:{owner}.{name}", f"plain spelling {owner}.{name} changed its receiver (or arrays shared with a copy)",
                      desc)
    if [fingerprint(a) for a in arg_objs] != fp_args:
        ctx.violation(f"mutates_argument:{owner}.{name}", f"plain spelling {owner}.{name} changed a tensor / network passed as an argument", desc)
    aliased = bool(tensor_ids(r_plain) & (tensor_ids(x) | tensor_ids(arg_objs)))
    # in-place spelling on a copy
    y = x.copy()
    fp_before = fingerprint(y)
    args_in, kw_in = _copy.deepcopy((args0, kw0))
    kw_in = {k: v for k, v in kw_in.items() if k != "inplace"}
    try:
        reseed()
        r_in = getattr(y, name + "_")(*args_in, **kw_in)
    except Exception as e:
        ctx.violation(f"inplace_raises:{owner}.{name}", f"{owner}.{name}_ raised {type(e).__name__} where the plain spelling succeeded",
                      {**desc, "error": str(e)[:150]})
        return
    changed = fingerprint(y) != fp_before
    ctx.count((owner, name, kind, repr(args)[:60], repr(kw)[:40]), changed)
    ctx.bump("inplace_changes_receiver" if changed else "inplace_is_noop_here")
    if aliased and changed:
        # the plain result is (or holds) the very Tensor objects of the receiver / an argument although the operation is
        # not a no-op here: any later in-place edit of the result edits the input
        ctx.violation(f"aliases:{owner}.{name}", f"plain spelling {owner}.{name} returns tensor objects shared with its receiver/arguments "
                      "(a later in-place edit of the result changes the input)", desc)
    res_in = y if (r_in is None or r_in is y) else r_in
    labels = name not in FRESH_LABEL_METHODS
    import quimb.tensor as qtn

    seq_ok = (isinstance(r_plain, (tuple, list)) and isinstance(res_in, (tuple, list)) and len(r_plain) == len(res_in)
              and tn_like(r_plain) and len(tn_like(r_plain)) == len(r_plain) and len(tn_like(res_in)) == len(res_in))
    if name in RANDOMISED:
        ctx.bump("plain_vs_inplace_skipped_randomised")
    elif is_number(r_plain):
        # the plain spelling returns the contracted value; the in-place spelling returns it too or leaves it as the
        # (label-free) network it contracted the receiver to
        v_in = as_number(res_in)
        ctx.bump("scalar_result_compared" if v_in is not None else "scalar_result_not_comparable")
        if v_in is not None and not numbers_agree(complex(r_plain), v_in, 1e-8):
            ctx.violation(f"plain_vs_inplace:{owner}.{name}", f"{owner}.{name}(x) = {complex(r_plain)!r} but {name}_(copy of x) denotes {v_in!r}", desc)
    elif seq_ok or (isinstance(r_plain, (qtn.Tensor, qtn.TensorNetwork)) and isinstance(res_in, (qtn.Tensor, qtn.TensorNetwork))):
        try:
            same = canon_eq(canon(r_plain), canon(res_in), labels=labels)
        except Exception as e:
            same = True
            ctx.bump("canon_failed")
        if not same:
            ctx.violation(f"plain_vs_inplace:{owner}.{name}", f"{owner}.{name}(x) differs from {name}_(copy of x) as a labelled object", desc)
    # axis order: same call on a twin whose tensors store axes in another order
    if name in AXIS_ORDER_DRAWS or name in RANDOMISED:
        ctx.bump("axis_twin_skipped_randomised")
        if len(ctx.samples) < 4:
            ctx.sample(desc)
        return
    try:
        x2 = permute_axes(x, rng)
        args2, kw2 = _copy.deepcopy((args0, kw0))
        reseed()
        r2 = getattr(x2, name)(*args2, **kw2)
        tol = 1e-6 if name in LOOSE_AXIS_TOL else 1e-8
        if is_number(r_plain) and is_number(r2):
            if not numbers_agree(complex(r_plain), complex(r2), tol):
                ctx.violation(f"axis_order:{owner}.{name}", f"{owner}.{name} gives a different value when tensors store their axes in another order", desc)
            ctx.bump("axis_twin_checked")
        elif isinstance(r_plain, (qtn.Tensor, qtn.TensorNetwork)) and isinstance(r2, (qtn.Tensor, qtn.TensorNetwork)):
            if not canon_eq(canon(r_plain), canon(r2), tol=tol, labels=labels):
                ctx.violation(f"axis_order:{owner}.{name}", f"{owner}.{name} gives a different labelled result when tensors store their axes in another order", desc)
            ctx.bump("axis_twin_checked")
    except Exception as e:
        ctx.bump("axis_twin_rejected")
    if len(ctx.samples) < 4:
        ctx.sample(desc)


def binary_ops(ctx):
    """+,-,*,/,** and @ on tensors align and broadcast by label, whatever the stored axis order, and leave BOTH operands
    (and a network holding one of them) untouched."""
    import quimb.tensor as qtn

    rng = np.random.default_rng(ctx.seed + 3)
    OPS = [("add", lambda u, v: u + v), ("sub", lambda u, v: u - v), ("mul", lambda u, v: u * v),
           ("div", lambda u, v: u / v), ("pow", lambda u, v: u ** v), ("matmul", lambda u, v: u @ v)]
    for _ in range(ctx.n(40, 400)):
        a = qtn.Tensor(ints(rng, (2, 3, 2), True), ("a", "b", "c"))
        b = qtn.Tensor(ints(rng, (2, 3, 2), True) + 5, ("a", "b", "c"))
        pa, pb = list(rng.permutation(3)), list(rng.permutation(3))
        a2 = a.transpose(*[a.inds[p] for p in pa])
        b2 = b.transpose(*[b.inds[p] for p in pb])
        for nm, op in OPS:
            if nm == "pow":
                continue
            ctx.count(("binop", nm, tuple(pa), tuple(pb)), True)
            r1, r2 = op(a, b), op(a2, b2)
            c1, c2 = canon(r1), canon(r2)
            if not canon_eq(c1, c2):
                ctx.violation(f"axis_order:binop:{nm}", f"Tensor {nm} depends on stored axis order",
                              {"op": nm, "perm_a": [int(p) for p in pa], "perm_b": [int(p) for p in pb]})
    # broadcasting: operands over different label sets; the right operand may live in a network
    sizes = {"a": 2, "b": 3, "c": 2, "d": 2}
    labels = sorted(sizes)
    for it in range(ctx.n(60, 600)):
        while True:
            sa = [l for l in labels if rng.random() < 0.6]
            sb = [l for l in labels if rng.random() < 0.6]
            if sa and sb:
                break
        sa = [sa[p] for p in rng.permutation(len(sa))]
        sb = [sb[p] for p in rng.permutation(len(sb))]
        arr_a = ints(rng, tuple(sizes[l] for l in sa)) + 5
        arr_b = rng.integers(1, 4, size=tuple(sizes[l] for l in sb)).astype(float)
        arr_z = ints(rng, (2, 2))
        in_net = bool(rng.integers(2))
        cls = ("same" if set(sa) == set(sb) else "rhs_extra" if set(sa) < set(sb) else "lhs_extra" if set(sb) < set(sa) else "both_extra")
        for nm, op in OPS:
            ctx.count(("binop_bc", nm, tuple(sa), tuple(sb), in_net), cls != "same")
            # fresh operands per operator (a mutated operand must not leak into the next case)
            a = qtn.Tensor(arr_a.copy(), sa, tags=["A"])
            b0 = qtn.Tensor(arr_b.copy(), sb, tags=["B"])
            if in_net:
                net = qtn.TensorNetwork([b0, qtn.Tensor(arr_z.copy(), ("d", "z"), tags=["Z"])], virtual=True)
                b = net["B"]
            else:
                net, b = None, b0
            ctx.bump("binop_broadcast_" + cls)
            fa, fb = fingerprint(a), fingerprint(b)
            fnet = fingerprint(net) if net is not None else None
            imap = None if net is None else {k: tuple(sorted(v)) for k, v in net.ind_map.items()}
            desc = {"op": nm, "lhs_inds": list(sa), "rhs_inds": list(sb), "rhs_held_by_network": in_net, "class": cls}
            # value against a numpy reference over the union of the labels
            union = sorted(set(sa) | set(sb))
            def lift(t_inds, arr):
                arr = np.asarray(arr)
                order = [l for l in union if l in t_inds]
                arr = np.transpose(arr, [list(t_inds).index(l) for l in order])
                return arr.reshape([sizes[l] if l in t_inds else 1 for l in union])
            A, B = lift(sa, np.array(a.data)), lift(sb, np.array(b.data))
            try:
                r = op(a, b)
            except Exception as e:
                ctx.violation(f"binop_raises:{nm}", f"Tensor {nm} raised {type(e).__name__} on operands with label sets {sa} / {sb}",
                              {**desc, "error": str(e)[:150]})
                continue
            if fingerprint(a) != fa or fingerprint(b) != fb:
                ctx.violation(f"mutates_operand:binop:{nm}", f"Tensor {nm} changed one of its operands (labels, stored axis order or data)",
                              {**desc, "lhs_changed": fingerprint(a) != fa, "rhs_changed": fingerprint(b) != fb})
            if net is not None:
                imap2 = {k: tuple(sorted(v)) for k, v in net.ind_map.items()}
                if fingerprint(net) != fnet or imap2 != imap:
                    ctx.violation(f"mutates_operand_network:binop:{nm}", f"Tensor {nm} changed the network that holds its right operand", desc)
            if nm == "matmul":
                shared = [l for l in sa if l in sb]
                outl = sorted((set(sa) | set(sb)) - set(shared))
                full = np.broadcast_to(A, [sizes[l] for l in union]) * np.broadcast_to(B, [sizes[l] for l in union])
                ref = full.sum(axis=tuple(union.index(l) for l in shared)) if shared else full
                got_inds = tuple(sorted(r.inds)) if isinstance(r, qtn.Tensor) else ()
                got = np.asarray(r.transpose(*got_inds).data) if isinstance(r, qtn.Tensor) and got_inds else np.asarray(r.data if isinstance(r, qtn.Tensor) else r)
                ok = got_inds == tuple(outl) and np.allclose(got, ref)
            else:
                ref = {"add": A + B, "sub": A - B, "mul": A * B, "div": A / B, "pow": A ** B}[nm]
                ref = np.broadcast_to(ref, [sizes[l] for l in union])
                ok = (isinstance(r, qtn.Tensor) and tuple(sorted(r.inds)) == tuple(union)
                      and np.allclose(np.asarray(r.transpose(*union).data), ref))
            if not ok:
                ctx.violation(f"value:binop:{nm}", f"Tensor {nm} does not broadcast by label", desc)


def binop_write_correspondence(ctx):
    """object writes of the real broadcasting operators (new_ind / in-place transpose, by target: caller's left operand,
    caller's right operand, private copy of either) against coq/C03/Model.v `binop_writes nl nr`."""
    import operator

    import quimb.tensor as qtn

    rng = np.random.default_rng(ctx.seed + 11)
    sizes = {"a": 2, "b": 3, "c": 2, "d": 2, "e": 2}
    labels = sorted(sizes)
    OPS = [("add", operator.add), ("sub", operator.sub), ("mul", operator.mul), ("div", operator.truediv), ("pow", operator.pow)]
    real_new_ind, real_transpose = qtn.Tensor.new_ind, qtn.Tensor.transpose
    cases, info, cid = [], {}, 0
    for it in range(ctx.n(60, 600)):
        while True:
            sa = [l for l in labels if rng.random() < 0.55]
            sb = [l for l in labels if rng.random() < 0.55]
            if sa and sb:
                break
        sa = [sa[p] for p in rng.permutation(len(sa))]
        sb = [sb[p] for p in rng.permutation(len(sb))]
        nl, nr = len([l for l in sb if l not in sa]), len([l for l in sa if l not in sb])
        nm, op = OPS[int(rng.integers(len(OPS)))]
        a = qtn.Tensor(ints(rng, tuple(sizes[l] for l in sa)) + 5, sa, tags=["A"])
        b = qtn.Tensor(rng.integers(1, 4, size=tuple(sizes[l] for l in sb)).astype(float), sb, tags=["B"])
        log = []

        def cls(t):
            if t is a:
                return "TSelf"
            if t is b:
                return "TOther"
            return "TFreshL" if "A" in t.tags else "TFreshR"

        def new_ind(self, *args, **kw):
            log.append(cls(self))
            return real_new_ind(self, *args, **kw)

        def transpose(self, *args, inplace=False, **kw):
            if inplace:
                log.append(cls(self))
            return real_transpose(self, *args, inplace=inplace, **kw)

        qtn.Tensor.new_ind, qtn.Tensor.transpose = new_ind, transpose
        try:
            op(a, b)
        except Exception as e:
            log.append("TOther")  # cannot happen on a sound tree; makes the case fail visibly
        finally:
            qtn.Tensor.new_ind, qtn.Tensor.transpose = real_new_ind, real_transpose
        ctx.count(("binop_writes", nm, nl, nr), nl + nr > 0)
        cid += 1
        info[cid] = {"op": nm, "lhs_inds": sa, "rhs_inds": sb, "labels_added_left": nl, "labels_added_right": nr, "observed_writes": list(log)}
        cases.append((cid, f"tgts_eqb (binop_writes {nl}%nat {nr}%nat) [{'; '.join(log)}]"))
    header = tm.HEADER + "From QV Require Import C03.Model.\n"
    failed, errors = ctx.coq_cases("binop_writes", header, cases, shard=300)
    for path, err in errors:
        ctx.broken_obligation("correspondence:binop_writes:" + path.split("/")[-1], err)
    for c in failed[:4]:
        ctx.violation("binop:write_targets", "the object writes of a Tensor binary operator differ from the modelled copy discipline "
                      "(model: every write goes to a private copy)", info[c])


def transposition_correspondence(ctx):
    import quimb.tensor as qtn

    rng = np.random.default_rng(ctx.seed + 7)
    cases, info = [], {}
    cid = 0
    for rank in (1, 2, 3, 4):
        for perm in itertools.permutations(range(rank)):
            for rep in range(ctx.n(1, 4)):
                shape = tuple(int(rng.integers(1, 4)) for _ in range(rank))
                arr = ints(rng, shape, True)
                inds = tuple("abcd"[:rank])
                t = qtn.Tensor(arr, inds)
                new_inds = tuple(inds[p] for p in perm)
                t2 = t.transpose(*new_inds)
                ctx.count(("transpose", rank, perm, shape), rank > 1 and list(perm) != sorted(perm))
                cid += 1
                info[cid] = {"shape": shape, "perm": perm}
                cases.append((cid,
                              f"glist_eqb (transpose_data {tm.nlist(perm)} {tm.nlist(shape)} {tm.glist(arr)}) {tm.glist(np.asarray(t2.data))}"
                              f" && (if list_eq_dec Nat.eq_dec (permute 1%nat {tm.nlist(perm)} {tm.nlist(shape)}) {tm.nlist(t2.shape)} then true else false)"))
    header = tm.HEADER + "From QV Require Import C03.Model.\n"
    failed, errors = ctx.coq_cases("transpose", header, cases, shard=200)
    for path, err in errors:
        ctx.broken_obligation("correspondence:transpose:" + path.split("/")[-1], err)
    for c in failed[:4]:
        ctx.violation("transpose:data", "Tensor.transpose does not move the data as the labelled model requires", info[c])


def all_subclasses(c):
    out = [c]
    for k in c.__subclasses__():
        out += all_subclasses(k)
    return out


def unwrap(f):
    """the function underneath partialmethod chains / functools.wraps deprecation wrappers"""
    for _ in range(8):
        if isinstance(f, (staticmethod, classmethod)):
            f = f.__func__
        elif isinstance(f, functools.partialmethod) or isinstance(f, functools.partial):
            f = f.func
        elif hasattr(f, "__wrapped__"):
            f = f.__wrapped__
        else:
            break
    return f


def stale_aliases(ctx):
    """for EVERY subclass of Tensor / TensorNetwork: the trailing-underscore attribute reached on the class must be the
    in-place partial of the plain attribute reached on the SAME class (a subclass overriding f but inheriting f_ from
    its base pairs two different methods)."""
    import quimb.tensor as qtn

    seen = set()
    n = 0
    for cls in sorted(set(all_subclasses(qtn.Tensor) + all_subclasses(qtn.TensorNetwork)), key=lambda c: c.__qualname__):
        for name in dir(cls):
            if not name.endswith("_") or name.startswith("_") or not hasattr(cls, name[:-1]):
                continue
            st = inspect.getattr_static(cls, name)
            if not isinstance(st, functools.partialmethod):
                continue
            n += 1
            base, plain = unwrap(st), unwrap(inspect.getattr_static(cls, name[:-1]))
            ctx.count(("alias", cls.__qualname__, name), base is plain)
            if base is not plain:
                key = (name, getattr(base, "__qualname__", repr(base)), getattr(plain, "__qualname__", repr(plain)))
                if key in seen:
                    continue
                seen.add(key)
                ctx.violation(f"stale_alias:{key[2]}", f"{cls.__qualname__}.{name} is the in-place partial of {key[1]}, but "
                              f"{cls.__qualname__}.{name[:-1]} is {key[2]}: the two spellings are different methods",
                              {"class": cls.__qualname__, "inplace_attr": name, "bound_to": key[1], "plain_is": key[2]})
    ctx.extra["alias_pairs_checked"] = n


def inventory(ctx):
    """regenerate the classified pair list and re-prove that every pair is
    either a copy-idiom body, a delegation to a classified pair, or on the
    explicit list of bodies that are checked behaviourally only."""
    pairs = discover_pairs()
    rows = []
    summary = {"CopyIdiom": 0, "Delegates": 0, "Other": 0}
    detail = {}
    for (owner, name), info in sorted(pairs.items()):
        func = info["func"]
        if func is None:
            st = info["static"]
            func = getattr(st, "__wrapped__", None) or getattr(info["owner"], name, None)
        cls, notes = classify(func) if func is not None else ("Other", ["no-func"])
        summary[cls] += 1
        detail[f"{owner}.{name}"] = (cls, notes)
        rows.append((owner, name, cls, notes))
    ctx.extra["inventory"] = summary
    others = sorted(k for k, (c, _) in detail.items() if c == "Other")
    ctx.extra["inventory_other"] = others
    arraywrites = sorted(k for k, (c, n) in detail.items() if any(x.startswith("array-write") for x in n))
    ctx.extra["inventory_array_writes"] = arraywrites
    # expected 'Other' bodies (reviewed by hand; they are exercised behaviourally): anything new is an obligation failure
    import json
    import os

    allow_path = os.path.join(os.path.dirname(__file__), "c03_other_allowlist.json")
    allow = set(json.load(open(allow_path))) if os.path.exists(allow_path) else set()
    new_other = [k for k in others if k not in allow]
    lines = ["(* GENERATED by harness/c03.py from reflection over /repo - do not edit *)",
             "From Coq Require Import List Bool.", "Import ListNotations.",
             "Inductive pclass := CopyIdiom | Delegates | OtherAllowed | OtherNew.",
             "Definition safe (c : pclass) : bool := match c with OtherNew => false | _ => true end.",
             "Definition pairs : list pclass := ["]
    body = []
    for owner, name, cls, notes in rows:
        key = f"{owner}.{name}"
        c = cls if cls != "Other" else ("OtherAllowed" if key in allow else "OtherNew")
        body.append(f"  {c} (* {key} {' '.join(notes)[:60]} *)")
    lines.append(";\n".join(body))
    lines.append("].")
    lines.append("Theorem C03_all_pairs_classified_safe : forallb safe pairs = true.")
    lines.append("Proof. vm_compute. reflexivity. Qed.")
    lines.append("Print Assumptions C03_all_pairs_classified_safe.")
    ctx.regen("Gen/C03_pairs.v", "\n".join(lines) + "\n")
    if new_other:
        ctx.extra["inventory_new_other"] = new_other
    return rows


def run(ctx):
    ctx.extra["rule"] = RULE
    ctx.trusted_base += [
        "the syntactic classifier of (f, f_) bodies in harness/c03.py (it cannot see dynamic aliasing; every pair with an "
        "argument recipe is therefore also exercised behaviourally: fingerprints incl. array bytes of the receiver and of "
        "a copy sharing its arrays)",
        "modelled, not verified: numpy reshape/transpose, Python object identity / aliasing beyond the heap model of "
        "coq/C03/Model.v; pairs without an argument recipe are listed in the evidence as not exercised",
    ]
    ctx.stage(inventory)
    ctx.check_props(["Base/Sums.vo", "Base/TN.vo", "Base/TNExec.vo", "C03/Model.vo", "C03/Proofs.vo", "C03/Props.v", "Gen/C03_pairs.v"])
    ctx.stage(stale_aliases)
    ctx.stage(transposition_correspondence)
    ctx.stage(binop_write_correspondence)
    ctx.stage(binary_ops)
    ctx.stage(behaviour)


def replay(ctx, path):
    run(ctx)

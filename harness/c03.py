"""C03 - labelled semantics: axis order never matters; non-in-place calls never mutate.

Proof part (coq/C03): (a) the value function of an array-backed tensor is
unchanged by ANY permutation of its stored axes (all ranks, shapes, permutations);
network values only see value functions (coq/Base/TN.v), so every label-level
operation is axis-order independent. (b) the copy idiom is a frame: a body that
writes only objects other than the receiver's and never writes into array cells
the receiver references leaves the receiver's fingerprint unchanged.
Tie: (a) numpy/quimb transposition vs the model's transpose_data, exhaustive
over all permutations up to rank 4 (exact, in Coq); (b) an inventory of every
(f, f_) pair found by reflection, classified from source (copy idiom /
delegation / other) and re-proved safe by vm_compute on the regenerated list;
Oracle: for every pair with an argument recipe: receiver fingerprint (labels,
tags, dtype, array bytes - also of a copy sharing the arrays) unchanged by the
plain call, f(x) == f_(copy x) as labelled objects, and f(x) == f(x with every
tensor's axes randomly permuted). A plain spelling that returns the contracted
number is compared with the number (or label-free network) the in-place spelling
leaves. Randomised methods are called with a fixed seed (see GLOBAL_SEEDED /
AXIS_ORDER_DRAWS / RANDOMISED above one_case).
(d) installing an array produced under other labels (theorems C03_install_like_same_tensor,
C03_like_order_is_permutation): Tensor.transpose_like[_] vs the model exactly on integer data for all pairs of
stored label orders; the in-place pair functions (tensor_compress_bond in every `reduced` / `absorb` mode, direct and
through compress_between / compress_all[_]; tensor_canonize_bond; tensor_balance_bond) under every stored axis
order of both tensors: observed axis permutation of the installed array vs `perm_like` (exact, in Coq) + numpy
oracle (a test). (e) operators between networks, which are not (f, f_) pairs: sum / difference of structured networks
in every spelling for every relation of the second operand to the first (shared bond names, arrays, objects, axis
orders): owners of the written objects vs `agsum_writes` (exact, in Coq; theorems C03_agsum_*) + oracle; scalar `*`,
`/`, unary `-`, `&`, `|`, `@` of TensorNetwork.
"""

import ast
import functools
import inspect
import itertools
import textwrap

import numpy as np

from harness import tnmodel as tm
from harness.common import natlit

RULE = (
    "pairs: every public (f, f_) discovered by reflection on Tensor, TensorNetwork and the 1D/2D/3D/arbitrary "
    "geometry classes; each pair with an argument recipe is run on fresh receivers (several seeds) in three ways "
    "(plain, in-place on a copy, plain on an axis-permuted twin). Transposition: all permutations of ranks 1-4 on "
    "integer arrays. Non-trivial: the in-place spelling changes the receiver's fingerprint (so non-mutation of the "
    "plain spelling is a real claim). transpose_like: all pairs of stored label orders up to rank 3 (rank 4 sampled) x "
    "0/1/2 foreign labels x both spellings. Pair functions: tensor_compress_bond (reduced in True/False/left/right/lazy, "
    "absorb drawn, entry point drawn from function / compress_between / compress_all[_]), tensor_canonize_bond, "
    "tensor_balance_bond on two bonded tensors of ranks 2-3 (thorough: 4) in EVERY stored axis order of both; non-trivial: "
    "the bond is not the last axis of the left or not the first axis of the right tensor. Network sum: 9 structured "
    "classes x 7 relations of b to a (independent, copy, derived, some bond names shared, same object, axis-permuted) x "
    "negate x spelling (operator, in-place operator, function, add_* method); non-trivial: b is related to a."
)


# ----------------------------------------------------------------------------
# reflection


def classes():
    import quimb.tensor as qtn

    names = ["Tensor", "TensorNetwork", "MatrixProductState", "MatrixProductOperator", "PEPS", "PEPO",
             "TensorNetwork2D", "TensorNetwork3D", "PEPS3D", "TensorNetworkGen", "TensorNetworkGenVector",
             "TensorNetworkGenOperator", "TensorNetwork1D"]
    return [getattr(qtn, n) for n in names if hasattr(qtn, n)]


def discover_pairs():
    pairs = {}
    for cls in classes():
        for name in dir(cls):
            if not name.endswith("_") or name.startswith("_") or not hasattr(cls, name[:-1]):
                continue
            for k in cls.__mro__:
                if name in k.__dict__:
                    st = k.__dict__[name]
                    kw = getattr(st, "keywords", None) or {}
                    base = getattr(st, "func", None)
                    pairs.setdefault((k.__name__, name[:-1]), {"owner": k, "static": st, "kw": dict(kw), "func": base})
                    break
    return pairs


MUTATING_CALLS = {"modify", "add_tensor", "add_tensor_network", "pop_tensor", "add_tag", "drop_tags", "_link_tags",
                  "_unlink_tags", "_link_inds", "_unlink_inds", "delete", "add"}


def classify(func):
    """CopyIdiom | Delegates | Other, plus syntactic in-place array writes."""
    try:
        src = textwrap.dedent(inspect.getsource(func))
        tree = ast.parse(src)
    except Exception:
        return "Other", ["no-source"]
    fn = tree.body[0]
    argnames = [a.arg for a in fn.args.args + fn.args.kwonlyargs]
    has_inplace = "inplace" in argnames
    notes = []
    idiom_var = None
    idiom_line = None
    for node in ast.walk(fn):
        if isinstance(node, ast.Assign) and isinstance(node.value, ast.IfExp):
            v = node.value
            if (isinstance(v.body, ast.Name) and v.body.id == "self" and "inplace" in ast.unparse(v.test)
                    and "copy" in ast.unparse(v.orelse) and isinstance(node.targets[0], ast.Name)):
                idiom_var, idiom_line = node.targets[0].id, node.lineno
    # writes through `self` after (or without) the idiom
    self_mut = []
    for node in ast.walk(fn):
        if isinstance(node, (ast.Assign, ast.AugAssign)):
            tgts = node.targets if isinstance(node, ast.Assign) else [node.target]
            for t in tgts:
                root = t
                while isinstance(root, (ast.Attribute, ast.Subscript)):
                    root = root.value
                if isinstance(root, ast.Name) and root.id == "self" and not isinstance(t, ast.Name):
                    self_mut.append(node.lineno)
        if isinstance(node, ast.Call) and isinstance(node.func, ast.Attribute):
            root = node.func.value
            # `super().f(..., inplace=True)` acts on self, whatever local name holds the copy
            if (isinstance(root, ast.Call) and isinstance(root.func, ast.Name) and root.func.id == "super" and not root.args
                    and any(kw.arg == "inplace" and isinstance(kw.value, ast.Constant) and kw.value.value is True for kw in node.keywords)):
                self_mut.append(node.lineno)
            if isinstance(root, ast.Name) and root.id == "self":
                nm = node.func.attr
                if nm in MUTATING_CALLS or (nm.endswith("_") and not nm.startswith("_")):
                    self_mut.append(node.lineno)
    # a call on `self` whose value is discarded, after the working copy was taken under another name, can only be there
    # for its effect on `self` (seeded C03/m2: `self.ensure_bonds_exist()` instead of `tn.ensure_bonds_exist()`)
    if idiom_var is not None and idiom_var != "self":
        for node in ast.walk(fn):
            if (isinstance(node, ast.Expr) and isinstance(node.value, ast.Call) and isinstance(node.value.func, ast.Attribute)
                    and isinstance(node.value.func.value, ast.Name) and node.value.func.value.id == "self"
                    and node.lineno > idiom_line):
                self_mut.append(node.lineno)
    # in-place array writes anywhere
    for node in ast.walk(fn):
        if isinstance(node, (ast.Assign, ast.AugAssign)):
            tgts = node.targets if isinstance(node, ast.Assign) else [node.target]
            for t in tgts:
                if isinstance(t, ast.Subscript) and "data" in ast.unparse(t.value):
                    notes.append(f"array-write@{node.lineno}")
        if isinstance(node, ast.keyword) and node.arg == "out":
            notes.append("out=")
    delegates = False
    for node in ast.walk(fn):
        if isinstance(node, ast.Call):
            for kw in node.keywords:
                if kw.arg == "inplace" and isinstance(kw.value, ast.Name) and kw.value.id == "inplace":
                    delegates = True
            for kw in node.keywords:
                if kw.arg is None and "opts" in ast.unparse(kw.value):
                    pass
    if idiom_var is not None and not [l for l in self_mut if l >= idiom_line] and not self_mut:
        return "CopyIdiom", notes
    if idiom_var is not None and not self_mut:
        return "CopyIdiom", notes
    if delegates and not self_mut:
        return "Delegates", notes
    if not has_inplace:
        return "Other", notes + ["no-inplace-param"]
    return "Other", notes + ([f"self-mutation@{self_mut[:3]}"] if self_mut else [])


# ----------------------------------------------------------------------------
# receivers and argument recipes


def ints(rng, shape, cplx=False):
    a = rng.integers(-3, 4, size=shape).astype(float)
    if cplx:
        a = a + 1j * rng.integers(-3, 4, size=shape)
    return a


def make_receivers(seed):
    import quimb as qu
    import quimb.tensor as qtn

    rng = np.random.default_rng(seed)
    R = {}
    R["T"] = lambda: qtn.Tensor(ints(rng, (2, 3, 2)), ("a", "b", "c"), tags=["T", "X"])
    def tn():
        ts = [qtn.Tensor(ints(rng, (2, 3)), ("a", "b"), tags=["A", "X"]),
              qtn.Tensor(ints(rng, (3, 2, 2)), ("b", "c", "d"), tags=["B", "X"]),
              qtn.Tensor(ints(rng, (2, 2, 2)), ("c", "e", "f"), tags=["C", "Y"]),
              qtn.Tensor(ints(rng, (2, 2)), ("e", "a"), tags=["D", "Y"])]
        return qtn.TensorNetwork(ts)
    R["TN"] = tn
    R["MPS"] = lambda: qtn.MPS_rand_state(4, 3, seed=int(rng.integers(1 << 30)), dtype="complex128")
    R["MPO"] = lambda: qtn.MPO_rand_herm(4, 2, seed=int(rng.integers(1 << 30)))
    R["PEPS"] = lambda: qtn.PEPS.rand(2, 2, 2, seed=int(rng.integers(1 << 30)))
    R["TN2D"] = lambda: qtn.TN2D_rand(3, 3, 2, seed=int(rng.integers(1 << 30)))
    R["PEPS3D"] = lambda: qtn.PEPS3D.rand(2, 2, 2, 2, seed=int(rng.integers(1 << 30)))
    R["ISO"] = lambda: qtn.IsoTensor(ints(rng, (2, 3, 2)), ("a", "b", "c"), tags=["T", "X"], left_inds=("a",))
    R["TN3D"] = lambda: qtn.TN3D_rand(2, 2, 2, 2, seed=int(rng.integers(1 << 30)))
    def mps_nobond():
        # product-state MPS whose size-1 dummy bonds were squeezed away: neighbouring sites share no bond
        p = qtn.MPS_computational_state("0110", dtype="complex128")
        p.squeeze_()
        for t in p:
            t.modify(data=t.data * float(rng.integers(1, 4)))
        return p
    R["MPS_NOBOND"] = mps_nobond
    edges = [(0, 1), (1, 2), (2, 0), (2, 3)]
    R["GENV"] = lambda: qtn.TN_from_edges_rand(edges, D=2, phys_dim=2, seed=int(rng.integers(1 << 30)))
    # arbitrary-geometry operator (upper "k{}" / lower "b{}" index per site), same graph as GENV
    R["GENO"] = lambda: qtn.TN_from_edges_rand(edges, D=2, phys_dim=2, seed=int(rng.integers(1 << 30)), site_ind_id=("k{}", "b{}"))
    R["PEPO"] = lambda: qtn.PEPO.rand(2, 2, 2, seed=int(rng.integers(1 << 30)))
    R["TN2D4"] = lambda: qtn.TN2D_rand(4, 4, 2, seed=int(rng.integers(1 << 30)))
    R["TN3D322"] = lambda: qtn.TN3D_rand(3, 2, 2, 2, seed=int(rng.integers(1 << 30)))
    def tree():
        # a tree (no loops) with open legs on every tensor and bonds large enough that max_bond=2 really truncates
        ts = [qtn.Tensor(ints(rng, (2, 3)), ("a", "b"), tags=["A", "X"]),
              qtn.Tensor(ints(rng, (3, 4, 3, 2)), ("b", "c", "d", "p"), tags=["B", "X"]),
              qtn.Tensor(ints(rng, (4, 2, 2)), ("c", "e", "f"), tags=["C", "Y"]),
              qtn.Tensor(ints(rng, (3, 2)), ("d", "g"), tags=["D", "Y"]),
              qtn.Tensor(ints(rng, (2, 2)), ("e", "h"), tags=["E", "Y"])]
        return qtn.TensorNetwork(ts)
    R["TREE"] = tree
    def tn_iso():
        # every tensor carries `left_inds` (what TensorNetwork.isometrize / unitize require)
        ts = [qtn.Tensor(ints(rng, (2, 3)) + 4 * np.eye(2, 3), ("a", "b"), tags=["A", "X"], left_inds=("b",)),
              qtn.Tensor(ints(rng, (3, 2, 2)), ("b", "c", "d"), tags=["B", "X"], left_inds=("b", "d")),
              qtn.Tensor(ints(rng, (2, 2, 2)), ("c", "e", "f"), tags=["C", "Y"], left_inds=("e", "f"))]
        return qtn.TensorNetwork(ts)
    R["TN_ISO"] = tn_iso
    # two tensors per site (an operator lazily gated onto a state / a bra-ket sandwich): what `flatten` is for
    R["MPS_LAZY"] = lambda: qtn.MPS_rand_state(4, 2, seed=int(rng.integers(1 << 30))).gate_with_op_lazy(
        qtn.MPO_rand_herm(4, 2, seed=int(rng.integers(1 << 30))))
    R["GENV_LAZY"] = lambda: R["GENV"]().gate_with_op_lazy(R["GENO"]())
    R["NORM2D"] = lambda: qtn.PEPS.rand(2, 3, 2, seed=int(rng.integers(1 << 30))).make_norm()
    R["NORM3D"] = lambda: qtn.PEPS3D.rand(1, 2, 2, 2, seed=int(rng.integers(1 << 30))).make_norm()
    return R, rng


def recipes():
    """method name -> (receiver kinds, lambda rng, x -> (args, kwargs))"""
    import quimb as qu
    import quimb.tensor as qtn

    X = qu.pauli("X")
    CN = qu.controlled("not")
    S = {}

    def add(name, kinds, fn):
        S.setdefault(name, []).append((kinds, fn))

    # ---- Tensor
    add("astype", ["T", "TN"], lambda r, x: (("complex64",), {}))
    add("conj", ["T", "TN", "MPS"], lambda r, x: ((), {}))
    add("flip", ["T"], lambda r, x: (("b",), {}))
    add("flip", ["TN"], lambda r, x: ((["b"],), {}))
    add("fuse", ["T"], lambda r, x: (({"ab": ("a", "b")},), {}))
    add("unfuse", ["T"], lambda r, x: (({"b": ("b1", "b2")}, {"b": (3, 1)}), {}))
    add("isel", ["T", "TN"], lambda r, x: (({"b": 1},), {}))
    add("moveindex", ["T"], lambda r, x: (("c", 0), {}))
    add("multiply_index_diagonal", ["T"], lambda r, x: (("b", np.array([1.0, 2.0, 3.0])), {}))
    add("negate", ["T", "TN"], lambda r, x: ((), {}))
    add("new_ind_pair_diag", ["T"], lambda r, x: (("b", "b1", "b2"), {}))
    add("new_ind_pair_with_identity", ["T"], lambda r, x: (("p", "q", 2), {}))
    add("normalize", ["T"], lambda r, x: ((), {}))
    add("reindex", ["T", "TN", "MPS"], lambda r, x: (({"a": "z"},), {}) if not hasattr(x, "site_ind") else (({x.site_ind(0): "z"},), {}))
    add("retag", ["T", "TN"], lambda r, x: (({"X": "W"},), {}))
    add("squeeze", ["T", "TN"], lambda r, x: ((), {}))
    add("sum_reduce", ["T"], lambda r, x: (("c",), {}))
    add("vector_reduce", ["T"], lambda r, x: (("c", np.array([1.0, -2.0])), {}))
    add("sum_reduce", ["TN"], lambda r, x: (("f",), {}))
    add("vector_reduce", ["TN"], lambda r, x: (("f", np.array([1.0, -2.0])), {}))
    add("transpose", ["T"], lambda r, x: (("c", "a", "b"), {}))
    add("transpose_like", ["T"], lambda r, x: ((qtn.Tensor(np.zeros((2, 2, 3)), ("c", "a", "b")),), {}))
    add("collapse_repeated", ["T"], lambda r, x: ((), {}))
    add("gate", ["T"], lambda r, x: ((X, "a"), {}))
    add("isometrize", ["T"], lambda r, x: ((["a"],), {"method": "qr"}))
    add("symmetrize", ["T"], lambda r, x: (("a", "c"), {}))
    add("direct_product", ["T"], lambda r, x: ((qtn.Tensor(np.ones((2, 3, 2)), ("a", "b", "c")),), {"sum_inds": ("a",)}))
    # ---- TensorNetwork
    add("multiply", ["TN"], lambda r, x: ((3.0,), {}))
    add("multiply_each", ["TN"], lambda r, x: ((2.0,), {}))
    add("equalize_norms", ["TN"], lambda r, x: ((), {}))
    add("contract", ["TN"], lambda r, x: ((["A", "B"],), {}))
    add("contract_tags", ["TN"], lambda r, x: ((["C", "D"],), {}))
    add("rank_simplify", ["TN"], lambda r, x: ((), {}))
    add("diagonal_reduce", ["TN"], lambda r, x: ((), {}))
    add("antidiag_gauge", ["TN"], lambda r, x: ((), {}))
    add("column_reduce", ["TN"], lambda r, x: ((), {}))
    add("split_simplify", ["TN"], lambda r, x: ((), {}))
    add("pair_simplify", ["TN"], lambda r, x: ((), {}))
    add("loop_simplify", ["TN"], lambda r, x: ((), {}))
    add("full_simplify", ["TN"], lambda r, x: (("ADCRS",), {}))
    add("fuse_multibonds", ["TN"], lambda r, x: ((), {}))
    add("gate_inds", ["TN"], lambda r, x: ((X, ["f"]), {}))
    add("gate_inds", ["TN"], lambda r, x: ((X, ["f"]), {"contract": True}))
    add("gauge_all_canonize", ["TN"], lambda r, x: ((), {}))
    add("gauge_all_simple", ["TN"], lambda r, x: ((), {"max_iterations": 5}))
    add("balance_bonds", ["TN"], lambda r, x: ((), {}))
    add("canonize_around", ["TN"], lambda r, x: ((["A"],), {}))
    add("compress_all", ["TN"], lambda r, x: ((), {"max_bond": 2}))
    add("expand_bond_dimension", ["TN"], lambda r, x: ((4,), {"rand_strength": 0.0, "inplace": False}))
    add("insert_operator", ["TN"], lambda r, x: ((np.array([[1.0, 2.0], [3.0, 4.0]]), ["A"], ["D"]), {}))
    add("replace_with_svd", ["TN"], lambda r, x: ((["A", "B"], ["a"], 1e-12), {}))
    add("hyperinds_resolve", ["TN"], lambda r, x: ((), {}))
    add("view_as", ["TN"], lambda r, x: ((qtn.TensorNetwork,), {}))
    add("drape_bond_between", ["TN"], lambda r, x: ((["A"], ["B"], ["C"]), {}))
    add("contract_around", ["TN"], lambda r, x: ((["A"],), {}))
    # ---- 1D
    add("add_MPS", ["MPS"], lambda r, x: ((x.copy() * 2.0,), {}))
    add("add_MPO", ["MPO"], lambda r, x: ((x.copy(),), {}))
    add("canonicalize", ["MPS"], lambda r, x: ((2,), {}))
    add("left_canonicalize", ["MPS"], lambda r, x: ((), {}))
    add("right_canonicalize", ["MPS"], lambda r, x: ((), {}))
    add("gate", ["MPS"], lambda r, x: ((X, 1), {"contract": True}))
    add("gate", ["MPS"], lambda r, x: ((CN, (1, 2)), {}))
    add("gate_split", ["MPS"], lambda r, x: ((CN, (1, 2)), {}))
    add("gate_with_auto_swap", ["MPS"], lambda r, x: ((CN, (0, 3)), {}))
    add("gate_nonlocal", ["MPS"], lambda r, x: ((CN, (0, 2)), {}))
    add("swap_sites_with_compress", ["MPS"], lambda r, x: ((1, 2), {}))
    add("swap_site_to", ["MPS"], lambda r, x: ((0, 2), {}))
    add("measure", ["MPS"], lambda r, x: ((1,), {"outcome": 0}))
    add("reindex_sites", ["MPS", "PEPS", "GENV"], lambda r, x: (("q{}" if not isinstance(x, qtn.PEPS) else "q{},{}",), {}))
    add("flatten", ["TN2D"], lambda r, x: ((), {}))
    add("compress_all", ["MPS"], lambda r, x: ((), {"max_bond": 2}))
    add("expand_bond_dimension", ["MPS"], lambda r, x: ((5,), {"rand_strength": 0.0, "inplace": False}))
    add("expand_bond_dimension", ["MPS_NOBOND"], lambda r, x: ((3,), {"rand_strength": 0.0, "create_bond": True, "inplace": False}))
    add("expand_bond_dimension", ["MPS_NOBOND"], lambda r, x: ((3,), {"rand_strength": 0.0, "create_bond": False, "inplace": False}))
    add("fill_empty_sites", ["MPO"], lambda r, x: ((), {}))
    add("flip", ["MPS"], lambda r, x: ((), {}))
    add("expand_bond_dimension", ["MPS"], lambda r, x: ((5,), {"rand_strength": 0.0, "bra": x.H, "inplace": False}))
    add("expand_bond_dimension", ["PEPS"], lambda r, x: ((3,), {"rand_strength": 0.0, "bra": x.H, "inplace": False}))
    add("reindex_sites", ["PEPS3D"], lambda r, x: (("q{},{},{}",), {}))
    add("fuse", ["ISO"], lambda r, x: (({"ab": ("a", "b")},), {}))
    # ---- 2D / 3D / gen
    add("add_PEPS", ["PEPS"], lambda r, x: ((x.copy(),), {}))
    add("gate", ["PEPS"], lambda r, x: ((X, (0, 1)), {}))
    add("gate", ["PEPS"], lambda r, x: ((CN, ((0, 0), (0, 1))), {"contract": "split"}))
    add("normalize", ["PEPS"], lambda r, x: ((), {}))
    add("contract_boundary", ["TN2D"], lambda r, x: ((), {"max_bond": 8}))
    add("contract_boundary_from_xmin", ["TN2D"], lambda r, x: (((0, 1),), {"max_bond": 8}))
    add("contract_boundary_from_ymax", ["TN2D"], lambda r, x: (((1, 2),), {"max_bond": 8}))
    add("contract_hotrg", ["TN2D"], lambda r, x: ((), {"max_bond": 8}))
    add("contract_boundary", ["TN3D"], lambda r, x: ((), {"max_bond": 8}))
    add("gate", ["GENV"], lambda r, x: ((X, 2), {}))
    add("gate_simple", ["GENV"], lambda r, x: ((CN, (0, 1)), {"gauges": {}}))
    add("retag_all", ["GENV"], lambda r, x: (("Z{}",), {}))
    add("align", ["GENV", "MPS", "MPO", "PEPS"], lambda r, x: ((), {}))
    # explicit outer ids different from the ones the receiver carries (seeded C03/m3 only shows then)
    add("align", ["MPS"], lambda r, x: ((qtn.MPO_rand_herm(4, 2, seed=int(r.integers(1 << 30))),), {"ind_ids": ["u{}", "v{}"]}))
    add("align", ["MPS"], lambda r, x: ((qtn.MPO_rand_herm(4, 2, seed=int(r.integers(1 << 30))), x.H), {"ind_ids": ["u{}", "v{}", "w{}"]}))
    add("align", ["MPO"], lambda r, x: ((qtn.MPS_rand_state(4, 2, seed=int(r.integers(1 << 30))),), {"ind_ids": ["u{}", "v{}"]}))
    add("align", ["GENV"], lambda r, x: ((x.H,), {"ind_ids": ["u{}", "v{}"]}))
    add("align", ["PEPS"], lambda r, x: ((x.H,), {"ind_ids": ["u{},{}", "v{},{}"]}))
    add("reindex_all", ["GENV"], lambda r, x: (("z{}",), {}))
    # ---- pairs added in the coverage round (arguments in the documented domain; every randomised method gets a seed)
    sd = lambda r: int(r.integers(1 << 30))
    add("to", ["T", "TN", "MPS"], lambda r, x: ((), {"dtype": "complex64"}))
    add("to", ["T", "TN"], lambda r, x: (("numpy-float32",), {}))
    add("rand_reduce", ["T"], lambda r, x: (("b",), {"seed": sd(r)}))
    add("randomize", ["T", "TN", "MPS"], lambda r, x: ((), {"seed": sd(r)}))
    add("randomize", ["TN"], lambda r, x: ((), {"seed": sd(r), "dtype": "complex128"}))
    add("unitize", ["T"], lambda r, x: ((["a"],), {"method": "qr"}))
    add("unitize", ["ISO"], lambda r, x: ((), {"method": "svd"}))
    add("unitize", ["TN_ISO"], lambda r, x: ((), {"method": "qr"}))
    add("isometrize", ["TN_ISO"], lambda r, x: ((), {"method": "qr"}))
    add("isometrize", ["TN"], lambda r, x: ((), {"method": "qr", "allow_no_left_inds": True}))
    add("view_like", ["TN"], lambda r, x: ((qtn.TN_from_edges_rand([(0, 1), (1, 2)], D=2, seed=sd(r)),), {}))
    add("compress_all_tree", ["TREE", "MPS"], lambda r, x: ((), {"max_bond": 2}))
    add("compress_all_1d", ["TREE", "MPS"], lambda r, x: ((), {"max_bond": 2}))
    add("compress_all_1d", ["TREE"], lambda r, x: ((), {"max_bond": 2, "canonize": False}))
    add("compress_all_simple", ["TN", "TREE", "PEPS"], lambda r, x: ((), {"max_bond": 2}))
    add("compress_simplify", ["TN", "TREE"], lambda r, x: ((), {}))
    add("compress_simplify", ["TN"], lambda r, x: ((), {"output_inds": ("d", "f"), "final_resolve": True}))
    add("contract_compressed", ["TN"], lambda r, x: (([(0, 1), (0, 1), (0, 1)],), {"max_bond": 4}))
    add("contract_compressed", ["TN"], lambda r, x: (([(2, 3), (0, 1), (0, 1)],), {"max_bond": 4, "output_inds": ("f", "d"), "preserve_tensor": True}))
    add("contract_compressed", ["TN2D"], lambda r, x: (("greedy",), {"max_bond": 16}))
    add("fit", ["TREE"], lambda r, x: ((x.copy().randomize_(seed=sd(r)),), {"method": "tree", "steps": 3}))
    # (ALS solves a dense local normal equation: only on receivers with generic data, small-integer trees can make it singular)
    add("fit", ["MPS"], lambda r, x: ((qtn.MPS_rand_state(4, 2, seed=sd(r), dtype="complex128"),), {"method": "tree", "steps": 2}))
    add("fit", ["MPS"], lambda r, x: ((qtn.MPS_rand_state(4, 2, seed=sd(r), dtype="complex128"),), {"method": "als", "steps": 2, "solver_dense": "lstsq"}))
    gate_t = lambda r: qtn.Tensor(ints(r, (2, 2, 2, 2)), ("o1", "o2", "i1", "i2"), tags=["G"])
    add("gate_inds_with_tn", ["TN"], lambda r, x: ((["d", "f"], gate_t(r), ["i1", "i2"], ["o1", "o2"]), {}))
    # an index that is not on the network: the gate's inner and outer label are both kept (documented case)
    add("gate_inds_with_tn", ["TN"], lambda r, x: ((["d", "zz"], gate_t(r).as_network(), ["i1", "i2"], ["o1", "o2"]), {}))
    add("gate_sandwich_inds", ["TN"], lambda r, x: ((ints(r, (2, 2), True), ["d"], ["f"]), {}))
    add("gate_sandwich_inds", ["TN"], lambda r, x: ((ints(r, (2, 2), True), ["d"], ["f"]), {"contract": True, "dagger": True}))
    add("gate_sandwich_inds", ["GENO"], lambda r, x: ((ints(r, (4, 4), True), ["k0", "k1"], ["b0", "b1"]), {"contract": "split"}))
    add("gauge_all", ["TN"], lambda r, x: ((), {}))
    add("gauge_all", ["TN"], lambda r, x: (("simple",), {"max_iterations": 3}))
    add("gauge_all", ["TN"], lambda r, x: (("bp",), {"max_iterations": 3}))
    add("gauge_all", ["TN"], lambda r, x: (("random",), {"seed": sd(r)}))
    add("gauge_all_belief_propagation", ["TN", "TREE", "PEPS"], lambda r, x: ((), {"max_iterations": 3}))
    add("gauge_all_random", ["TN", "MPS"], lambda r, x: ((), {"seed": sd(r)}))
    add("gauge_all_random", ["TN"], lambda r, x: ((), {"seed": sd(r), "unitary": False, "max_iterations": 2}))
    add("gauge_local", ["TN", "TREE"], lambda r, x: ((["A"],), {}))
    add("gauge_local", ["TN"], lambda r, x: ((["A"],), {"method": "simple", "max_distance": 2}))
    # (belief propagation needs non-degenerate messages: generic data, not the small-integer network)
    add("gauge_local", ["PEPS"], lambda r, x: (([x.site_tag(0, 0)],), {"method": "bp", "max_distance": 2}))
    add("gauge_local", ["TN"], lambda r, x: ((["B", "Y"],), {"which": "any", "method": "random", "seed": sd(r)}))
    add("insert_compressor_between_regions", ["TN"], lambda r, x: ((["A", "B"], ["C", "D"]), {"max_bond": 2, "new_tags": "P"}))
    add("insert_compressor_between_regions", ["TN"], lambda r, x: ((["A", "B"], ["C", "D"]), {"max_bond": 2, "mode": "nystrom"}))
    add("insert_compressor_between_regions", ["TN2D"], lambda r, x: ((["X0"], ["X1"]), {"max_bond": 4}))
    # ---- 1D operators / MPS with MPO
    add("gate_with_mpo", ["MPS"], lambda r, x: ((qtn.MPO_rand_herm(4, 2, seed=sd(r)),), {}))
    add("gate_with_mpo", ["MPS"], lambda r, x: ((qtn.MPO_rand_herm(4, 2, seed=sd(r)),), {"method": "zipup", "max_bond": 4, "transpose": True}))
    submpo = lambda r: qtn.MatrixProductOperator([ints(r, (2, 2, 2)), ints(r, (2, 2, 2))], sites=[1, 2], L=4)
    add("gate_with_submpo", ["MPS"], lambda r, x: ((submpo(r),), {}))
    add("gate_with_submpo", ["MPS"], lambda r, x: ((submpo(r),), {"method": "lazy"}))
    add("gate_with_submpo", ["MPS"], lambda r, x: ((submpo(r),), {"where": (1, 2), "max_bond": 3, "transpose": True}))
    add("gate_sandwich_with_auto_swap", ["MPO"], lambda r, x: ((CN, (0, 3)), {}))
    add("gate_sandwich_with_auto_swap", ["MPO"], lambda r, x: ((CN, (2, 1)), {"dagger": True}))
    add("reindex_lower_sites", ["MPO"], lambda r, x: (("q{}",), {}))
    add("reindex_upper_sites", ["MPO"], lambda r, x: (("q{}",), {"where": slice(1, 3)}))
    add("reindex_lower_sites", ["PEPO"], lambda r, x: (("q{},{}",), {"where": [(0, 0), (1, 1)]}))
    add("reindex_upper_sites", ["PEPO"], lambda r, x: (("q{},{}",), {}))
    add("reindex_lower_sites", ["GENO"], lambda r, x: (("q{}",), {"where": [0, 2]}))
    add("reindex_upper_sites", ["GENO"], lambda r, x: (("q{}",), {}))
    add("add_PEPO", ["PEPO"], lambda r, x: ((qtn.PEPO.rand(2, 2, 2, seed=sd(r)),), {}))
    # ---- arbitrary-geometry operators
    geno = lambda r: qtn.TN_from_edges_rand([(0, 1), (1, 2), (2, 0), (2, 3)], D=2, phys_dim=2, seed=sd(r), site_ind_id=("k{}", "b{}"))
    genv = lambda r: qtn.TN_from_edges_rand([(0, 1), (1, 2), (2, 0), (2, 3)], D=2, phys_dim=2, seed=sd(r))
    add("apply", ["GENO"], lambda r, x: ((genv(r),), {}))
    add("apply", ["GENO"], lambda r, x: ((geno(r),), {}))
    add("apply", ["GENO"], lambda r, x: ((genv(r),), {"contract": False}))
    add("apply", ["MPO"], lambda r, x: ((qtn.MPS_rand_state(4, 2, seed=sd(r)),), {}))
    add("gate_upper", ["GENO"], lambda r, x: ((X, 1), {}))
    add("gate_upper", ["GENO"], lambda r, x: ((CN, (2, 3)), {"contract": "split"}))
    add("gate_lower", ["GENO"], lambda r, x: ((CN, (0, 1)), {}))
    add("gate_lower", ["GENO"], lambda r, x: ((X, 2), {"contract": True, "transpose": True}))
    add("gate_sandwich", ["GENO"], lambda r, x: ((CN, (0, 1)), {}))
    add("gate_sandwich", ["GENO"], lambda r, x: ((ints(r, (4, 4), True), (1, 2)), {"contract": "split", "dagger": True}))
    add("gate_sandwich", ["GENO"], lambda r, x: ((ints(r, (2, 2), True), 3), {"contract": True, "propagate_tags": "register"}))
    add("gate_upper_with_op_lazy", ["GENO"], lambda r, x: ((geno(r),), {}))
    add("gate_upper_with_op_lazy", ["GENO"], lambda r, x: ((geno(r),), {"transpose": True}))
    add("gate_lower_with_op_lazy", ["GENO"], lambda r, x: ((geno(r),), {}))
    add("gate_lower_with_op_lazy", ["GENO"], lambda r, x: ((geno(r),), {"transpose": True}))
    add("gate_sandwich_with_op_lazy", ["GENO"], lambda r, x: ((geno(r),), {}))
    add("gate_sandwich_with_op_lazy", ["GENO"], lambda r, x: ((geno(r),), {"dagger": True}))
    add("partial_transpose", ["GENO"], lambda r, x: (([0, 2],), {}))
    add("partial_transpose", ["GENO", "MPO"], lambda r, x: ((1,), {}))
    add("gate_with_op_lazy", ["GENV"], lambda r, x: ((geno(r),), {}))
    add("gate_with_op_lazy", ["GENV"], lambda r, x: ((geno(r),), {"transpose": True}))
    add("gate_with_op_lazy", ["MPS"], lambda r, x: ((qtn.MPO_rand_herm(4, 2, seed=sd(r)),), {}))
    # ---- 2D / 3D boundary, CTMRG, HOTRG (bond caps large enough that nothing is truncated: plain, in-place and the
    # axis-permuted twin must then agree to rounding)
    add("contract_boundary_from", ["TN2D"], lambda r, x: (((0, 1), (0, 2), "xmin"), {"max_bond": 8}))
    add("contract_boundary_from", ["TN2D"], lambda r, x: (((0, 2), (1, 2), "ymax"), {"max_bond": 8, "canonize": False}))
    add("contract_boundary_from_xmax", ["TN2D"], lambda r, x: (((1, 2),), {"max_bond": 8}))
    add("contract_boundary_from_ymin", ["TN2D"], lambda r, x: (((0, 1),), {"max_bond": 8}))
    add("contract_ctmrg", ["TN2D", "TN2D4"], lambda r, x: ((), {"max_bond": 8}))
    add("contract_ctmrg", ["TN2D4"], lambda r, x: ((), {"max_bond": 8, "final_contract": False}))
    add("contract_mps_sweep", ["TN2D"], lambda r, x: ((), {"max_bond": 8}))
    add("contract_mps_sweep", ["TN2D"], lambda r, x: ((), {"max_bond": 8, "direction": "ymax", "final_contract": False}))
    add("coarse_grain_hotrg", ["TN2D"], lambda r, x: (("x",), {"max_bond": 4}))
    add("coarse_grain_hotrg", ["TN2D4"], lambda r, x: (("y",), {"max_bond": 4}))
    add("coarse_grain_hotrg", ["TN3D", "TN3D322"], lambda r, x: (("x",), {"max_bond": 4}))
    add("coarse_grain_hotrg", ["TN3D"], lambda r, x: (("z",), {"max_bond": 4, "lazy": True}))
    add("contract_boundary_from", ["TN3D322"], lambda r, x: (((0, 1), (0, 1), (0, 1), "xmin"), {"max_bond": 4}))
    add("contract_ctmrg", ["TN3D", "TN3D322"], lambda r, x: ((), {"max_bond": 4}))
    add("contract_ctmrg", ["TN3D322"], lambda r, x: ((), {"max_bond": 4, "final_contract": False}))
    # ---- pairs that had a recipe under their name but no receiver reaching that owner's attribute
    add("flatten", ["MPS_LAZY", "GENV_LAZY", "NORM2D", "NORM3D"], lambda r, x: ((), {}))
    add("flatten", ["MPS_LAZY"], lambda r, x: ((), {"fuse_multibonds": False}))
    add("contract_hotrg", ["TN3D"], lambda r, x: ((), {"max_bond": 4}))
    add("gate", ["PEPS3D"], lambda r, x: ((X, (0, 1, 1)), {}))
    add("gate", ["PEPS3D"], lambda r, x: ((CN, ((0, 0, 0), (0, 0, 1))), {"contract": "split"}))
    add("gate", ["GENO"], lambda r, x: ((CN, (0, 1)), {}))
    add("gate", ["GENO"], lambda r, x: ((ints(r, (2, 2), True), 3), {"which": "upper", "contract": True}))
    add("gate_simple", ["GENO"], lambda r, x: ((CN, (0, 1)), {"gauges": {}}))
    # ---- non-default options that pick another branch of the same pair (every `reduced` mode of the bond compression,
    # reached without the tree gauge; the difference of two networks whose bond names / arrays are shared)
    for red in (True, False, "left", "right"):
        add("compress_all", ["TREE", "MPS"], lambda r, x, red=red: ((), {"max_bond": 2, "canonize": False, "reduced": red}))
        add("compress_all", ["PEPS"], lambda r, x, red=red: ((), {"max_bond": 1, "canonize": False, "reduced": red, "absorb": "left"}))
    add("compress_all", ["TREE"], lambda r, x: ((), {"max_bond": 2, "mode": "virtual-tree"}))
    add("compress_all", ["TREE"], lambda r, x: ((), {"max_bond": 2, "tree_gauge_distance": 1, "mode": "basic"}))
    for neg in (False, True):
        add("add_MPS", ["MPS", "MPS_NOBOND"], lambda r, x, neg=neg: ((x.copy(),), {"negate": neg}))
        add("add_MPS", ["MPS"], lambda r, x, neg=neg: ((qtn.MPS_rand_state(4, 2, seed=sd(r), dtype="complex128"),), {"negate": neg, "compress": True, "cutoff": 1e-12}))
        add("add_MPO", ["MPO"], lambda r, x, neg=neg: ((x.conj(),), {"negate": neg}))
    # (the 2D spellings take no `negate`)
    add("add_PEPS", ["PEPS"], lambda r, x: ((x * 2.0,), {}))
    add("add_PEPO", ["PEPO"], lambda r, x: ((x.conj(),), {}))
    return S


def fingerprint(x):
    import quimb.tensor as qtn

    if isinstance(x, qtn.Tensor):
        ts = [x]
        extra = ()
    else:
        ts = [x.tensor_map[k] for k in sorted(x.tensor_map)]
        extra = (float(np.real(x.exponent)), type(x).__name__,
                 tuple((p, repr(getattr(x, p, None))) for p in getattr(type(x), "_EXTRA_PROPS", ())))
    return tuple((tuple(t.inds), tuple(sorted(map(str, t.tags))), str(t.dtype), tuple(t.shape),
                  np.ascontiguousarray(np.asarray(t.data)).tobytes(),
                  None if t.left_inds is None else tuple(t.left_inds)) for t in ts) + (extra,)


def np_dense_pairwise(tensors, outs, exponent=0.0):
    """dense array of a network over `outs`. Up to 6 tensors: the shared single-einsum reference (tm.np_dense). Larger
    networks (lazily gated operators, boundary-contracted lattices): the same numpy einsum evaluated pairwise
    (optimize="greedy"), because the one-shot einsum loops over the product of ALL label ranges at once."""
    if len(tensors) <= 6:
        return tm.np_dense(tensors, outs, exponent)
    namer = tm.Namer()
    args = []
    for inds, arr in tensors:
        args += [np.asarray(arr), [namer(i) for i in inds]]
    return np.einsum(*args, [namer(o) for o in outs], optimize="greedy") * (10.0 ** exponent)


def canon(r):
    """labelled content of a result: class, outer labels, dense over sorted outer labels, tag set."""
    import quimb.tensor as qtn

    if isinstance(r, qtn.Tensor):
        inds = tuple(sorted(r.inds))
        return ("Tensor", inds, np.asarray(r.transpose(*inds).data).astype(complex) if inds else np.asarray(r.data).astype(complex).reshape(()),
                tuple(sorted(map(str, r.tags))))
    if isinstance(r, qtn.TensorNetwork):
        cnt = {}
        for t in r.tensors:
            for i in t.inds:
                cnt[i] = cnt.get(i, 0) + 1
        outer = tuple(sorted(i for i, c in cnt.items() if c == 1))
        size = int(np.prod([r.ind_size(i) for i in outer])) if outer else 1
        if size > 1 << 14:
            dense = None
        else:
            dense = np_dense_pairwise([(t.inds, np.asarray(t.data)) for t in r.tensors], outer, float(np.real(r.exponent))).astype(complex)
        return (type(r).__name__, outer, dense, tuple(sorted(map(str, r.tags))))
    if isinstance(r, (tuple, list)):
        return tuple(canon(v) for v in r)
    if isinstance(r, (int, float, complex, np.number, np.ndarray)):
        return ("value", np.asarray(r).astype(complex))
    return ("other", repr(type(r)))


def canon_eq(a, b, tol=1e-8, labels=True):
    if type(a) != type(b):
        return False
    if isinstance(a, tuple) and a and isinstance(a[0], tuple):
        return len(a) == len(b) and all(canon_eq(x, y, tol, labels) for x, y in zip(a, b))
    if a[0] == "value":
        return np.shape(a[1]) == np.shape(b[1]) and np.allclose(a[1], b[1], atol=tol, rtol=tol)
    if a[0] == "other":
        return a == b
    # a lone Tensor and a one-tensor network are the same labelled content (in-place contraction keeps the network type)
    kinds = {a[0], b[0]}
    if a[0] != b[0] and not ("Tensor" in kinds and kinds <= {"Tensor", "TensorNetwork"}):
        return False
    if a[3] != b[3]:
        return False
    if labels and a[1] != b[1]:
        return False
    if not labels and len(a[1]) != len(b[1]):
        return False
    if a[2] is None or b[2] is None:
        return a[2] is b[2]
    if a[2].shape != b[2].shape:
        return False
    scale = max(1.0, float(np.max(np.abs(a[2]))) if a[2].size else 1.0)
    return np.allclose(a[2], b[2], atol=tol * scale, rtol=tol)


def permute_axes(x, rng):
    """twin of x whose tensors store their axes in a random order (same labelled content)"""
    import quimb.tensor as qtn

    y = x.copy()
    ts = [y] if isinstance(y, qtn.Tensor) else list(y.tensors)
    for t in ts:
        if t.ndim > 1:
            perm = list(rng.permutation(t.ndim))
            li = t.left_inds
            t.transpose_(*[t.inds[p] for p in perm])
            if li is not None:
                t.modify(left_inds=li)
    return y


FRESH_LABEL_METHODS = {"gate_inds", "gate", "gate_split", "gate_with_auto_swap", "gate_nonlocal", "insert_operator",
                       "replace_with_svd", "hyperinds_resolve", "split_simplify", "full_simplify", "drape_bond_between",
                       "gate_simple", "compress_all", "add_MPS", "add_MPO", "add_PEPS", "swap_sites_with_compress",
                       "swap_site_to", "pair_simplify", "loop_simplify", "new_ind_pair_with_identity"}


def behaviour(ctx):
    pairs = discover_pairs()
    S = recipes()
    exercised, nospec = set(), []
    kind_type = {}
    nseeds = ctx.n(2, 8)
    for (owner, name), info in sorted(pairs.items()):
        if name not in S:
            nospec.append(f"{owner}.{name}")
            continue
        for seed in range(nseeds):
            R, rng = make_receivers(ctx.seed * 100 + seed)
            for kinds, fn in S[name]:
                for kind in kinds:
                    # the class of each receiver kind is learnt once, so that receivers are only built for the pair
                    # whose in-place attribute they actually reach
                    if kind not in kind_type:
                        kind_type[kind] = type(R[kind]())
                    tx = kind_type[kind]
                    cls_owner = info["owner"]
                    if not issubclass(tx, cls_owner):
                        continue
                    # resolve the attribute actually reached on this receiver class
                    if getattr(tx, name + "_", None) is None:
                        continue
                    for k in tx.__mro__:
                        if (name + "_") in k.__dict__:
                            reached = k.__name__
                            break
                    if reached != owner:
                        continue
                    x = R[kind]()
                    try:
                        args, kw = fn(rng, x)
                    except Exception:
                        continue
                    one_case(ctx, owner, name, kind, x, args, kw, rng)
                    exercised.add(f"{owner}.{name}")
    ctx.extra["pairs_discovered"] = len(pairs)
    ctx.extra["pairs_exercised"] = len(exercised)
    ctx.extra["pairs_without_recipe"] = sorted(nospec)
    # a recipe exists under this method name, but no receiver kind reaches this owner's in-place attribute (or every
    # call was rejected): not exercised either
    ctx.extra["pairs_with_recipe_not_reached"] = sorted(f"{o}.{n}" for (o, n) in pairs if n in S and f"{o}.{n}" not in exercised)


def tn_like(v, out=None):
    """Tensor / TensorNetwork objects reachable in (nested) arguments or results"""
    import quimb.tensor as qtn

    out = [] if out is None else out
    if isinstance(v, (qtn.Tensor, qtn.TensorNetwork)):
        out.append(v)
    elif isinstance(v, (tuple, list)):
        for u in v:
            tn_like(u, out)
    elif isinstance(v, dict):
        for u in v.values():
            tn_like(u, out)
    return out


def tensor_ids(v):
    import quimb.tensor as qtn

    ids = set()
    for o in tn_like(v):
        if isinstance(o, qtn.Tensor):
            ids.add(id(o))
        else:
            ids.add(id(o))
            ids.update(id(t) for t in o.tensor_map.values())
    return ids


OUT_PARAMS = {"expand_bond_dimension": {"bra"}, "gate_simple": {"gauges"}}

# Randomised methods. Every recipe passes a fixed `seed` argument where the method accepts one, so that the plain and
# the in-place spelling draw the same numbers and stay comparable. Two residual cases:
#  * GLOBAL_SEEDED: the method draws from quimb's global generator and offers no seed argument
#    (insert_compressor_between_regions(mode="nystrom") builds its sketch with rand_tensor): the harness re-seeds the
#    public global generator (quimb.seed_rand) with the same value before each of the three calls.
#  * AXIS_ORDER_DRAWS: `randomize` fills each stored array with iid numbers in storage order; the twin whose tensors
#    store their axes in another order therefore holds the same numbers under other labels (equal in distribution
#    only). Its axis-order comparison is skipped; non-mutation and plain-vs-in-place are still checked.
#  * RANDOMISED: methods whose two spellings cannot be made to draw the same numbers at all: only the non-mutation
#    part is checked for them (currently empty: seeding made every exercised method reproducible).
GLOBAL_SEEDED = {"insert_compressor_between_regions"}
AXIS_ORDER_DRAWS = {"randomize"}
RANDOMISED = set()
# approximate / iterative contractions: plain vs axis-permuted twin agree to rounding of an SVD-based pipeline only
LOOSE_AXIS_TOL = {"compress_all", "contract_boundary", "contract_hotrg", "gauge_all_simple", "compress_all_tree",
                  "compress_all_1d", "compress_all_simple", "compress_simplify", "contract_compressed", "fit",
                  "gauge_all", "gauge_all_belief_propagation", "gauge_local", "insert_compressor_between_regions",
                  "gate_with_mpo", "gate_with_submpo", "gate_sandwich_with_auto_swap", "contract_boundary_from",
                  "contract_boundary_from_xmax", "contract_boundary_from_ymin", "contract_boundary_from_xmin",
                  "contract_boundary_from_ymax", "contract_ctmrg", "contract_mps_sweep", "coarse_grain_hotrg"}


def ill_formed(v):
    """a label that has different sizes on the tensors carrying it, or a tensor whose array rank differs from its number
    of labels, anywhere in a (nested) result: None if well formed, else a short description"""
    import quimb.tensor as qtn

    for o in tn_like(v):
        sizes = {}
        for t in ([o] if isinstance(o, qtn.Tensor) else list(o.tensors)):
            shp = tuple(np.shape(t.data))
            if len(shp) != len(t.inds):
                return f"tensor with labels {t.inds} holds an array of shape {shp}"
            for ix, d in zip(t.inds, shp):
                if sizes.setdefault(ix, d) != d:
                    return f"label {ix!r} has sizes {sizes[ix]} and {d} on different tensors"
    return None


def is_number(v):
    return isinstance(v, (int, float, complex, np.number)) and not isinstance(v, bool) or (isinstance(v, np.ndarray) and v.ndim == 0)


def as_number(v):
    """the scalar a result denotes: a number, or a tensor / network without outer labels (None otherwise)"""
    import quimb.tensor as qtn

    if is_number(v):
        return complex(v)
    if isinstance(v, (qtn.Tensor, qtn.TensorNetwork)):
        c = canon(v)
        if c[1] == () and c[2] is not None:
            return complex(np.asarray(c[2]).reshape(()))
    return None


def numbers_agree(a, b, tol):
    return abs(a - b) <= tol * max(1.0, abs(a), abs(b))


def one_case(ctx, owner, name, kind, x, args, kw, rng):
    desc = {"pair": f"{owner}.{name}", "receiver": kind, "args": repr(args)[:120], "kwargs": repr(kw)[:80]}
    import copy as _copy

    import quimb as qu

    def reseed():
        if name in GLOBAL_SEEDED:
            qu.seed_rand(ctx.seed + 4242)

    args0, kw0 = args, kw
    args, kw = _copy.deepcopy((args0, kw0))
    plain = getattr(x, name)
    share = x.copy()  # shares arrays with x
    fp_x, fp_share = fingerprint(x), fingerprint(share)
    kw_plain = dict(kw)
    # documented out-parameters (mirrored / updated in place by design) are not part of the non-mutation claim
    arg_objs = tn_like((args, {k: v for k, v in kw.items() if k not in OUT_PARAMS.get(name, ())}))
    fp_args = [fingerprint(a) for a in arg_objs]
    ctx.bump("argument_objects_fingerprinted", len(arg_objs))
    try:
        reseed()
        r_plain = plain(*args, **kw_plain)
    except Exception as e:
        ctx.bump("recipe_rejected")
        ctx.extra.setdefault("recipes_rejected", {})[f"{owner}.{name}:{kind}:{repr(kw)[:50]}"] = f"{type(e).__name__}: {str(e)[:100]}"
        return
    ok_mut = fingerprint(x) == fp_x and fingerprint(share) == fp_share
    if not ok_mut:
        ctx.violation(f"mutates:{owner}.{name}", f"plain spelling {owner}.{name} changed its receiver (or arrays shared with a copy)",
                      desc)
    if [fingerprint(a) for a in arg_objs] != fp_args:
        ctx.violation(f"mutates_argument:{owner}.{name}", f"plain spelling {owner}.{name} changed a tensor / network passed as an argument", desc)
    aliased = bool(tensor_ids(r_plain) & (tensor_ids(x) | tensor_ids(arg_objs)))
    bad = ill_formed(r_plain)
    if bad is not None:
        ctx.violation(f"ill_formed_result:{owner}.{name}", f"{owner}.{name} returns an inconsistent object: {bad}", desc)
        return
    # in-place spelling on a copy
    y = x.copy()
    fp_before = fingerprint(y)
    args_in, kw_in = _copy.deepcopy((args0, kw0))
    kw_in = {k: v for k, v in kw_in.items() if k != "inplace"}
    try:
        reseed()
        r_in = getattr(y, name + "_")(*args_in, **kw_in)
    except Exception as e:
        ctx.violation(f"inplace_raises:{owner}.{name}", f"{owner}.{name}_ raised {type(e).__name__} where the plain spelling succeeded",
                      {**desc, "error": str(e)[:150]})
        return
    changed = fingerprint(y) != fp_before
    ctx.count((owner, name, kind, repr(args)[:60], repr(kw)[:40]), changed)
    ctx.bump("inplace_changes_receiver" if changed else "inplace_is_noop_here")
    if aliased and changed:
        # the plain result is (or holds) the very Tensor objects of the receiver / an argument although the operation is
        # not a no-op here: any later in-place edit of the result edits the input
        ctx.violation(f"aliases:{owner}.{name}", f"plain spelling {owner}.{name} returns tensor objects shared with its receiver/arguments "
                      "(a later in-place edit of the result changes the input)", desc)
    res_in = y if (r_in is None or r_in is y) else r_in
    bad = ill_formed(res_in)
    if bad is not None:
        ctx.violation(f"ill_formed_result:{owner}.{name}_", f"{owner}.{name}_ leaves an inconsistent object: {bad}", desc)
        return
    labels = name not in FRESH_LABEL_METHODS
    import quimb.tensor as qtn

    seq_ok = (isinstance(r_plain, (tuple, list)) and isinstance(res_in, (tuple, list)) and len(r_plain) == len(res_in)
              and tn_like(r_plain) and len(tn_like(r_plain)) == len(r_plain) and len(tn_like(res_in)) == len(res_in))
    if name in RANDOMISED:
        ctx.bump("plain_vs_inplace_skipped_randomised")
    elif is_number(r_plain):
        # the plain spelling returns the contracted value; the in-place spelling returns it too or leaves it as the
        # (label-free) network it contracted the receiver to
        v_in = as_number(res_in)
        ctx.bump("scalar_result_compared" if v_in is not None else "scalar_result_not_comparable")
        if v_in is not None and not numbers_agree(complex(r_plain), v_in, 1e-8):
            ctx.violation(f"plain_vs_inplace:{owner}.{name}", f"{owner}.{name}(x) = {complex(r_plain)!r} but {name}_(copy of x) denotes {v_in!r}", desc)
    elif seq_ok or (isinstance(r_plain, (qtn.Tensor, qtn.TensorNetwork)) and isinstance(res_in, (qtn.Tensor, qtn.TensorNetwork))):
        try:
            same = canon_eq(canon(r_plain), canon(res_in), labels=labels)
        except Exception as e:
            same = True
            ctx.bump("canon_failed")
        if not same:
            ctx.violation(f"plain_vs_inplace:{owner}.{name}", f"{owner}.{name}(x) differs from {name}_(copy of x) as a labelled object", desc)
    # axis order: same call on a twin whose tensors store axes in another order
    if name in AXIS_ORDER_DRAWS or name in RANDOMISED:
        ctx.bump("axis_twin_skipped_randomised")
        if len(ctx.samples) < 4:
            ctx.sample(desc)
        return
    try:
        x2 = permute_axes(x, rng)
        args2, kw2 = _copy.deepcopy((args0, kw0))
        reseed()
        r2 = getattr(x2, name)(*args2, **kw2)
        bad2 = ill_formed(r2)
        if bad2 is not None:
            ctx.violation(f"axis_order:{owner}.{name}", f"{owner}.{name} returns an inconsistent object when tensors store their axes in "
                          f"another order: {bad2}", desc)
            return
        tol = 1e-6 if name in LOOSE_AXIS_TOL else 1e-8
        if is_number(r_plain) and is_number(r2):
            if not numbers_agree(complex(r_plain), complex(r2), tol):
                ctx.violation(f"axis_order:{owner}.{name}", f"{owner}.{name} gives a different value when tensors store their axes in another order", desc)
            ctx.bump("axis_twin_checked")
        elif isinstance(r_plain, (qtn.Tensor, qtn.TensorNetwork)) and isinstance(r2, (qtn.Tensor, qtn.TensorNetwork)):
            if not canon_eq(canon(r_plain), canon(r2), tol=tol, labels=labels):
                ctx.violation(f"axis_order:{owner}.{name}", f"{owner}.{name} gives a different labelled result when tensors store their axes in another order", desc)
            ctx.bump("axis_twin_checked")
    except Exception as e:
        # the plain call succeeded on x: the same call on the same labelled content stored in another axis order must too
        ctx.bump("axis_twin_rejected")
        ctx.violation(f"axis_order_raises:{owner}.{name}", f"{owner}.{name} raised {type(e).__name__} on a twin of its receiver whose tensors "
                      "store their axes in another order (the call succeeds on the receiver itself)", {**desc, "error": str(e)[:150]})
    if len(ctx.samples) < 4:
        ctx.sample(desc)


def binary_ops(ctx):
    """+,-,*,/,** and @ on tensors align and broadcast by label, whatever the stored axis order, and leave BOTH operands
    (and a network holding one of them) untouched."""
    import quimb.tensor as qtn

    rng = np.random.default_rng(ctx.seed + 3)
    OPS = [("add", lambda u, v: u + v), ("sub", lambda u, v: u - v), ("mul", lambda u, v: u * v),
           ("div", lambda u, v: u / v), ("pow", lambda u, v: u ** v), ("matmul", lambda u, v: u @ v)]
    for _ in range(ctx.n(40, 400)):
        a = qtn.Tensor(ints(rng, (2, 3, 2), True), ("a", "b", "c"))
        b = qtn.Tensor(ints(rng, (2, 3, 2), True) + 5, ("a", "b", "c"))
        pa, pb = list(rng.permutation(3)), list(rng.permutation(3))
        a2 = a.transpose(*[a.inds[p] for p in pa])
        b2 = b.transpose(*[b.inds[p] for p in pb])
        for nm, op in OPS:
            if nm == "pow":
                continue
            ctx.count(("binop", nm, tuple(pa), tuple(pb)), True)
            r1, r2 = op(a, b), op(a2, b2)
            c1, c2 = canon(r1), canon(r2)
            if not canon_eq(c1, c2):
                ctx.violation(f"axis_order:binop:{nm}", f"Tensor {nm} depends on stored axis order",
                              {"op": nm, "perm_a": [int(p) for p in pa], "perm_b": [int(p) for p in pb]})
    # broadcasting: operands over different label sets; the right operand may live in a network
    sizes = {"a": 2, "b": 3, "c": 2, "d": 2}
    labels = sorted(sizes)
    for it in range(ctx.n(60, 600)):
        while True:
            sa = [l for l in labels if rng.random() < 0.6]
            sb = [l for l in labels if rng.random() < 0.6]
            if sa and sb:
                break
        sa = [sa[p] for p in rng.permutation(len(sa))]
        sb = [sb[p] for p in rng.permutation(len(sb))]
        arr_a = ints(rng, tuple(sizes[l] for l in sa)) + 5
        arr_b = rng.integers(1, 4, size=tuple(sizes[l] for l in sb)).astype(float)
        arr_z = ints(rng, (2, 2))
        in_net = bool(rng.integers(2))
        cls = ("same" if set(sa) == set(sb) else "rhs_extra" if set(sa) < set(sb) else "lhs_extra" if set(sb) < set(sa) else "both_extra")
        for nm, op in OPS:
            ctx.count(("binop_bc", nm, tuple(sa), tuple(sb), in_net), cls != "same")
            # fresh operands per operator (a mutated operand must not leak into the next case)
            a = qtn.Tensor(arr_a.copy(), sa, tags=["A"])
            b0 = qtn.Tensor(arr_b.copy(), sb, tags=["B"])
            if in_net:
                net = qtn.TensorNetwork([b0, qtn.Tensor(arr_z.copy(), ("d", "z"), tags=["Z"])], virtual=True)
                b = net["B"]
            else:
                net, b = None, b0
            ctx.bump("binop_broadcast_" + cls)
            fa, fb = fingerprint(a), fingerprint(b)
            fnet = fingerprint(net) if net is not None else None
            imap = None if net is None else {k: tuple(sorted(v)) for k, v in net.ind_map.items()}
            desc = {"op": nm, "lhs_inds": list(sa), "rhs_inds": list(sb), "rhs_held_by_network": in_net, "class": cls}
            # value against a numpy reference over the union of the labels
            union = sorted(set(sa) | set(sb))
            def lift(t_inds, arr):
                arr = np.asarray(arr)
                order = [l for l in union if l in t_inds]
                arr = np.transpose(arr, [list(t_inds).index(l) for l in order])
                return arr.reshape([sizes[l] if l in t_inds else 1 for l in union])
            A, B = lift(sa, np.array(a.data)), lift(sb, np.array(b.data))
            try:
                r = op(a, b)
            except Exception as e:
                ctx.violation(f"binop_raises:{nm}", f"Tensor {nm} raised {type(e).__name__} on operands with label sets {sa} / {sb}",
                              {**desc, "error": str(e)[:150]})
                continue
            if fingerprint(a) != fa or fingerprint(b) != fb:
                ctx.violation(f"mutates_operand:binop:{nm}", f"Tensor {nm} changed one of its operands (labels, stored axis order or data)",
                              {**desc, "lhs_changed": fingerprint(a) != fa, "rhs_changed": fingerprint(b) != fb})
            if net is not None:
                imap2 = {k: tuple(sorted(v)) for k, v in net.ind_map.items()}
                if fingerprint(net) != fnet or imap2 != imap:
                    ctx.violation(f"mutates_operand_network:binop:{nm}", f"Tensor {nm} changed the network that holds its right operand", desc)
            if nm == "matmul":
                shared = [l for l in sa if l in sb]
                outl = sorted((set(sa) | set(sb)) - set(shared))
                full = np.broadcast_to(A, [sizes[l] for l in union]) * np.broadcast_to(B, [sizes[l] for l in union])
                ref = full.sum(axis=tuple(union.index(l) for l in shared)) if shared else full
                got_inds = tuple(sorted(r.inds)) if isinstance(r, qtn.Tensor) else ()
                got = np.asarray(r.transpose(*got_inds).data) if isinstance(r, qtn.Tensor) and got_inds else np.asarray(r.data if isinstance(r, qtn.Tensor) else r)
                ok = got_inds == tuple(outl) and np.allclose(got, ref)
            else:
                ref = {"add": A + B, "sub": A - B, "mul": A * B, "div": A / B, "pow": A ** B}[nm]
                ref = np.broadcast_to(ref, [sizes[l] for l in union])
                ok = (isinstance(r, qtn.Tensor) and tuple(sorted(r.inds)) == tuple(union)
                      and np.allclose(np.asarray(r.transpose(*union).data), ref))
            if not ok:
                ctx.violation(f"value:binop:{nm}", f"Tensor {nm} does not broadcast by label", desc)


def binop_write_correspondence(ctx):
    """object writes of the real broadcasting operators (new_ind / in-place transpose, by target: caller's left operand,
    caller's right operand, private copy of either) against coq/C03/Model.v `binop_writes nl nr`."""
    import operator

    import quimb.tensor as qtn

    rng = np.random.default_rng(ctx.seed + 11)
    sizes = {"a": 2, "b": 3, "c": 2, "d": 2, "e": 2}
    labels = sorted(sizes)
    OPS = [("add", operator.add), ("sub", operator.sub), ("mul", operator.mul), ("div", operator.truediv), ("pow", operator.pow)]
    real_new_ind, real_transpose = qtn.Tensor.new_ind, qtn.Tensor.transpose
    cases, info, cid = [], {}, 0
    for it in range(ctx.n(60, 600)):
        while True:
            sa = [l for l in labels if rng.random() < 0.55]
            sb = [l for l in labels if rng.random() < 0.55]
            if sa and sb:
                break
        sa = [sa[p] for p in rng.permutation(len(sa))]
        sb = [sb[p] for p in rng.permutation(len(sb))]
        nl, nr = len([l for l in sb if l not in sa]), len([l for l in sa if l not in sb])
        nm, op = OPS[int(rng.integers(len(OPS)))]
        a = qtn.Tensor(ints(rng, tuple(sizes[l] for l in sa)) + 5, sa, tags=["A"])
        b = qtn.Tensor(rng.integers(1, 4, size=tuple(sizes[l] for l in sb)).astype(float), sb, tags=["B"])
        log = []

        def cls(t):
            if t is a:
                return "TSelf"
            if t is b:
                return "TOther"
            return "TFreshL" if "A" in t.tags else "TFreshR"

        def new_ind(self, *args, **kw):
            log.append(cls(self))
            return real_new_ind(self, *args, **kw)

        def transpose(self, *args, inplace=False, **kw):
            if inplace:
                log.append(cls(self))
            return real_transpose(self, *args, inplace=inplace, **kw)

        qtn.Tensor.new_ind, qtn.Tensor.transpose = new_ind, transpose
        try:
            op(a, b)
        except Exception as e:
            log.append("TOther")  # cannot happen on a sound tree; makes the case fail visibly
        finally:
            qtn.Tensor.new_ind, qtn.Tensor.transpose = real_new_ind, real_transpose
        ctx.count(("binop_writes", nm, nl, nr), nl + nr > 0)
        cid += 1
        info[cid] = {"op": nm, "lhs_inds": sa, "rhs_inds": sb, "labels_added_left": nl, "labels_added_right": nr, "observed_writes": list(log)}
        cases.append((cid, f"tgts_eqb (binop_writes {nl}%nat {nr}%nat) [{'; '.join(log)}]"))
    header = tm.HEADER + "From QV Require Import C03.Model.\n"
    failed, errors = ctx.coq_cases("binop_writes", header, cases, shard=300)
    for path, err in errors:
        ctx.broken_obligation("correspondence:binop_writes:" + path.split("/")[-1], err)
    for c in failed[:4]:
        ctx.violation("binop:write_targets", "the object writes of a Tensor binary operator differ from the modelled copy discipline "
                      "(model: every write goes to a private copy)", info[c])


def transposition_correspondence(ctx):
    import quimb.tensor as qtn

    rng = np.random.default_rng(ctx.seed + 7)
    cases, info = [], {}
    cid = 0
    for rank in (1, 2, 3, 4):
        for perm in itertools.permutations(range(rank)):
            for rep in range(ctx.n(1, 4)):
                shape = tuple(int(rng.integers(1, 4)) for _ in range(rank))
                arr = ints(rng, shape, True)
                inds = tuple("abcd"[:rank])
                t = qtn.Tensor(arr, inds)
                new_inds = tuple(inds[p] for p in perm)
                t2 = t.transpose(*new_inds)
                ctx.count(("transpose", rank, perm, shape), rank > 1 and list(perm) != sorted(perm))
                cid += 1
                info[cid] = {"shape": shape, "perm": perm}
                cases.append((cid,
                              f"glist_eqb (transpose_data {tm.nlist(perm)} {tm.nlist(shape)} {tm.glist(arr)}) {tm.glist(np.asarray(t2.data))}"
                              f" && (if list_eq_dec Nat.eq_dec (permute 1%nat {tm.nlist(perm)} {tm.nlist(shape)}) {tm.nlist(t2.shape)} then true else false)"))
    header = tm.HEADER + "From QV Require Import C03.Model.\n"
    failed, errors = ctx.coq_cases("transpose", header, cases, shard=200)
    for path, err in errors:
        ctx.broken_obligation("correspondence:transpose:" + path.split("/")[-1], err)
    for c in failed[:4]:
        ctx.violation("transpose:data", "Tensor.transpose does not move the data as the labelled model requires", info[c])


# ----------------------------------------------------------------------------
# (d) arrays produced under other labels: Tensor.transpose_like and the in-place pair functions


def _codes(namer, labels):
    return tm.nlist([namer(l) for l in labels])


def transpose_like_correspondence(ctx):
    """exact (integer data, in Coq): `Tensor.transpose_like(other)` / `transpose_like_` against coq/C03/Model.v
    `like_order` (label order picked, one label may differ) and `transpose_data (perm_like src nix)` (where the data
    goes), for every pair of stored label orders up to rank 3 (rank 4 sampled); two differing labels must be rejected
    exactly where the model returns None."""
    import quimb.tensor as qtn

    rng = np.random.default_rng(ctx.seed + 17)
    cases, info, cid = [], {}, 0
    todo = []
    for rank in (1, 2, 3):
        for src in itertools.permutations(range(rank)):
            for dst in itertools.permutations(range(rank)):
                for ndiff in (0, 1, 2):
                    if ndiff <= rank:
                        todo.append((rank, src, dst, ndiff))
    perms4 = list(itertools.permutations(range(4)))
    for _ in range(ctx.n(30, 300)):
        todo.append((4, perms4[int(rng.integers(24))], perms4[int(rng.integers(24))], int(rng.integers(3))))
    for rank, src, dst, ndiff in todo:
        labels = "abcd"[:rank]
        shape0 = tuple(int(rng.integers(1, 4)) for _ in range(rank))
        src_inds = tuple(labels[p] for p in src)
        shape = tuple(shape0[p] for p in src)
        dst_inds = [labels[p] for p in dst]
        # `ndiff` labels of `other` are foreign to the tensor
        for k, pos in enumerate(rng.permutation(rank)[:ndiff]):
            dst_inds[int(pos)] = "yz"[k]
        dst_inds = tuple(dst_inds)
        arr = ints(rng, shape, True)
        inplace = bool(rng.integers(2))
        t = qtn.Tensor(arr.copy(), src_inds)
        other = qtn.Tensor(np.zeros((1,) * rank), dst_inds)
        namer = tm.Namer()
        SRC, DST = _codes(namer, src_inds), _codes(namer, dst_inds)
        cid += 1
        info[cid] = {"self_inds": src_inds, "other_inds": dst_inds, "shape": shape, "inplace_spelling": inplace}
        ctx.count(("transpose_like", rank, src, dst, ndiff, inplace), rank > 1 and src_inds != dst_inds)
        ctx.bump(f"transpose_like_labels_differing_{ndiff}")
        try:
            r = t.transpose_like_(other) if inplace else t.transpose_like(other)
            r = t if r is None else r
            if not inplace and (r is t or t.inds != src_inds or not np.array_equal(np.asarray(t.data), arr)):
                ctx.violation("mutates:Tensor.transpose_like", "plain Tensor.transpose_like changed (or returned) its receiver", info[cid])
        except ValueError:
            cases.append((cid, f"match like_order {SRC} {DST} with None => true | Some _ => false end"))
            continue
        cases.append((cid,
                      f"match like_order {SRC} {DST} with None => false | Some nix => natlist_eqb nix {_codes(namer, r.inds)}"
                      f" && glist_eqb (transpose_data (perm_like {SRC} nix) {tm.nlist(shape)} {tm.glist(arr)}) {tm.glist(np.asarray(r.data))}"
                      f" && natlist_eqb (permute 1%nat (perm_like {SRC} nix) {tm.nlist(shape)}) {tm.nlist(r.shape)} end"))
    header = tm.HEADER + "From QV Require Import C03.Model.\n"
    failed, errors = ctx.coq_cases("transpose_like", header, cases, shard=40)
    for path, err in errors:
        ctx.broken_obligation("correspondence:transpose_like:" + path.split("/")[-1], err)
    for c in failed[:4]:
        ctx.violation("transpose_like:order_or_data", "Tensor.transpose_like does not pick the label order / move the data as the "
                      "labelled model requires", info[c])


def _coq_cases_dedup(ctx, name, header, cases, shard=150):
    """ctx.coq_cases, evaluating each distinct expression once (many drawn cases give the same small expression);
    every case id whose expression fails is reported"""
    by_expr = {}
    for cid, expr in cases:
        by_expr.setdefault(expr, []).append(cid)
    reps = [(ids[0], expr) for expr, ids in by_expr.items()]
    failed, errors = ctx.coq_cases(name, header, reps, shard=shard)
    rep_ids = {ids[0]: ids for ids in by_expr.values()}
    ctx.traces += len(cases) - len(reps)
    ctx.extra.setdefault("distinct_coq_expressions", {})[name] = {"cases": len(cases), "distinct": len(reps)}
    return [c for f in failed for c in rep_ids.get(f, [f])], errors


class _Capture:
    """snapshots (labels, array copy) of every Tensor handed back by tensor_split / tensor_contract / Tensor.__matmul__
    while active: the labelled arrays an in-place pair function can install"""

    def __init__(self):
        self.snaps = []

    def _snap(self, out):
        import quimb.tensor as qtn

        for t in tn_like(out):
            for u in ([t] if isinstance(t, qtn.Tensor) else list(t.tensors)):
                self.snaps.append((tuple(u.inds), np.array(u.data, copy=True)))
        return out

    def __enter__(self):
        import quimb.tensor as qtn
        import quimb.tensor.tensor_core as tc

        self._orig = (tc.tensor_split, tc.tensor_contract, qtn.Tensor.__matmul__)
        split, contract, matmul = self._orig
        cap = self

        def tensor_split(*a, **kw):
            return cap._snap(split(*a, **kw))

        def tensor_contract(*a, **kw):
            return cap._snap(contract(*a, **kw))

        def __matmul__(self, other):
            return cap._snap(matmul(self, other))

        tc.tensor_split, tc.tensor_contract, qtn.Tensor.__matmul__ = tensor_split, tensor_contract, __matmul__
        return self

    def __exit__(self, *exc):
        import quimb.tensor as qtn
        import quimb.tensor.tensor_core as tc

        tc.tensor_split, tc.tensor_contract, qtn.Tensor.__matmul__ = self._orig
        return False

    def installed_from(self, x):
        """(labels of the last captured array that IS x's stored array up to a unique axis permutation, that permutation)"""
        xd = np.asarray(x.data)
        for inds, data in reversed(self.snaps):
            if data.ndim != xd.ndim or len(set(inds) ^ set(x.inds)) > 2 or sorted(data.shape) != sorted(xd.shape):
                continue
            found = [pi for pi in itertools.permutations(range(xd.ndim))
                     if tuple(data.shape[p] for p in pi) == xd.shape and np.array_equal(np.transpose(data, pi), xd)]
            if len(found) == 1:
                return inds, found[0]
            if found:
                return None
        return None


def _trunc(m, k):
    u, s, vh = np.linalg.svd(m, full_matrices=False)
    return (u[:, :k] * s[:k]) @ vh[:k]


def pair_functions(ctx):
    """The in-place functions acting on two bonded tensors (tensor_compress_bond in every `reduced` mode and `absorb`
    choice, reached directly and through compress_between / compress_all[_]; tensor_canonize_bond; tensor_balance_bond)
    under EVERY stored axis order of both tensors.
    (1) correspondence, exact, in Coq: the array finally stored in each tensor is the array a split / contraction handed
        back, moved by exactly the axis permutation `perm_like produced_labels stored_labels` of coq/C03/Model.v
        (theorem C03_install_like_same_tensor says this - and only this - keeps the labelled tensor);
    (2) oracle - a TEST, not a theorem (floating point SVD, compared at tolerance): stored labels untouched, every label
        has one size on both tensors, the pair's dense value equals an independent numpy reference (optimal rank-k
        truncation of the product / of the one factor for reduced='left'|'right'; the unchanged product for canonize
        and balance), the side that `absorb` leaves isometric is isometric."""
    import quimb.tensor as qtn

    rng = np.random.default_rng(ctx.seed + 21)
    MODES = [True, False, "left", "right", "lazy"]
    ABSORBS = ["both", "left", "right", None]
    K = 2
    sizes = {"a": 3, "b": 4, "g": 2, "c": 5, "d": 6, "e": 2, "f": 3}
    SHAPES = [(("a", "b"), ("d", "e")), (("a",), ("d", "e")), (("a", "b"), ("d",)), (("b",), ("d",))]
    if not ctx.quick:
        SHAPES += [(("a", "b", "g"), ("d",)), (("a",), ("d", "e", "f"))]
    cases, info, cid = [], {}, 0
    header = tm.HEADER + "From QV Require Import C03.Model.\n"

    def dense_pair(ta, tb, lix, rix, sv=None):
        a = np.transpose(np.asarray(ta.data), [ta.inds.index(l) for l in (*lix, "c")])
        b = np.transpose(np.asarray(tb.data), [tb.inds.index(l) for l in ("c", *rix)])
        if sv is not None:
            # absorb=None: the singular values are handed back separately (info["singular_values"])
            a = a * np.asarray(sv)
        return np.tensordot(a, b, axes=(-1, 0))

    for lix, rix in SHAPES:
        A0 = rng.normal(size=[sizes[l] for l in (*lix, "c")])
        B0 = rng.normal(size=[sizes[l] for l in ("c", *rix)])
        L, R, D = int(np.prod(A0.shape[:-1])), int(np.prod(B0.shape[1:])), sizes["c"]
        P = np.tensordot(A0, B0, axes=(-1, 0))
        Am, Bm = A0.reshape(L, D), B0.reshape(D, R)
        outshape = P.shape
        REF = {True: _trunc(P.reshape(L, R), K).reshape(outshape), "left": (_trunc(Am, K) @ Bm).reshape(outshape),
               "right": (Am @ _trunc(Bm, K)).reshape(outshape), "same": P}
        REF[False] = REF[True]
        orders_a = list(itertools.permutations((*lix, "c")))
        orders_b = list(itertools.permutations(("c", *rix)))
        if len(orders_a) * len(orders_b) > 40:
            pairs = [(orders_a[int(rng.integers(len(orders_a)))], orders_b[int(rng.integers(len(orders_b)))]) for _ in range(ctx.n(12, 40))]
        else:
            pairs = [(oa, ob) for oa in orders_a for ob in orders_b]
        for oa, ob in pairs:
            pa, pb = oa.index("c"), ob.index("c")
            lay = ("left_bond_last" if pa == len(oa) - 1 else "left_bond_not_last") + ":" + ("right_bond_first" if pb == 0 else "right_bond_not_first")
            calls = [("tensor_compress_bond", m) for m in MODES] + [("tensor_canonize_bond", None), ("tensor_balance_bond", None)]
            for fn, mode in calls:
                absorb = ABSORBS[int(rng.integers(4))] if fn == "tensor_compress_bond" else ["right", "left", "both"][int(rng.integers(3))]
                if fn == "tensor_compress_bond":
                    entries = ["function", "compress_between"] + (["compress_all", "compress_all_"] if mode in (True, False, "lazy") and absorb in ("both", None) else [])
                    entry = entries[int(rng.integers(len(entries)))]
                elif fn == "tensor_canonize_bond":
                    entry = ["function", "canonize_between"][int(rng.integers(2))]
                else:
                    entry = "function"
                # reduced="lazy" factorises with a randomised range finder ("isvd"): only its untruncated result is
                # determined by the labelled content, so that mode is run at full bond
                kmb = D if mode == "lazy" else K
                ta = qtn.Tensor(A0.copy(), (*lix, "c"), tags="A").transpose(*oa)
                tb = qtn.Tensor(B0.copy(), ("c", *rix), tags="B").transpose(*ob)
                tn = qtn.TensorNetwork([ta, tb], virtual=True)
                fp0 = fingerprint(tn)
                mkey = f"reduced={mode}" if fn == "tensor_compress_bond" else f"absorb={absorb}"
                desc = {"function": fn, "entry": entry, "reduced": mode, "absorb": absorb, "max_bond": kmb if fn == "tensor_compress_bond" else None,
                        "left_stored_inds": oa, "right_stored_inds": ob, "sizes": {l: sizes[l] for l in (*lix, "c", *rix)},
                        "data": f"np.random.default_rng({ctx.seed + 21}).normal (see harness/c03.py pair_functions)"}
                ctx.count(("pair", fn, str(mode), absorb, entry, oa, ob), lay != "left_bond_last:right_bond_first")
                ctx.bump(f"pair_{fn}_{lay}")
                out, sinfo = tn, {}
                try:
                    with _Capture() as cap:
                        if entry == "function" and fn == "tensor_compress_bond":
                            qtn.tensor_compress_bond(ta, tb, reduced=mode, absorb=absorb, max_bond=kmb, info=sinfo)
                        elif entry == "compress_between":
                            tn.compress_between("A", "B", max_bond=kmb, reduced=mode, absorb=absorb, info=sinfo)
                        elif entry == "compress_all":
                            out = tn.compress_all(max_bond=kmb, canonize=False, reduced=mode, absorb=absorb, info=sinfo)
                        elif entry == "compress_all_":
                            tn.compress_all_(max_bond=kmb, canonize=False, reduced=mode, absorb=absorb, info=sinfo)
                        elif entry == "function" and fn == "tensor_canonize_bond":
                            qtn.tensor_canonize_bond(ta, tb, absorb=absorb)
                        elif entry == "canonize_between":
                            tn.canonize_between("A", "B", absorb=absorb)
                        else:
                            qtn.tensor_balance_bond(ta, tb)
                except Exception as e:
                    ctx.violation(f"raises:{fn}:{mkey}:{lay}", f"{fn} ({entry}) raised {type(e).__name__} for this stored axis order",
                                  {**desc, "error": str(e)[:150]})
                    continue
                if entry == "compress_all" and fingerprint(tn) != fp0:
                    ctx.violation(f"mutates:TensorNetwork.compress_all:{mkey}", "plain compress_all changed its receiver", desc)
                xa, xb = out["A"], out["B"]
                # ---- (2) oracle
                k = min(kmb, L, R) if fn == "tensor_compress_bond" else sizes["c"]
                if fn == "tensor_canonize_bond":
                    # the bond of a canonized pair is min(bond, outer size of the side made isometric)
                    k = {"right": min(D, L), "left": min(D, R), "both": xa.ind_size("c")}[absorb]
                want = {l: sizes[l] for l in (*lix, *rix)}
                want["c"] = k
                if xa.inds != oa or xb.inds != ob:
                    ctx.violation(f"labels:{fn}:{mkey}:{lay}", f"{fn} changed the stored label order of a tensor it updates in place",
                                  {**desc, "left_inds_after": xa.inds, "right_inds_after": xb.inds})
                    continue
                got = [(x.inds, tuple(x.shape)) for x in (xa, xb)]
                if any(x.shape != tuple(want[l] for l in x.inds) for x in (xa, xb)):
                    ctx.violation(f"axis_order:{fn}:{mkey}:{lay}", f"after {fn} ({entry}) a label has different sizes on the two tensors / the "
                                  f"compressed bond sits on the wrong axis: {got}, expected sizes {want}", {**desc, "inds_shapes_after": got})
                    bad_value = True
                else:
                    ref = REF[mode] if (fn == "tensor_compress_bond" and mode != "lazy") else REF["same"]
                    sv = sinfo.get("singular_values") if (fn == "tensor_compress_bond" and absorb is None) else None
                    val = dense_pair(xa, xb, lix, rix, sv)
                    tol = 1e-6 if mode == "lazy" else 1e-9
                    bad_value = not np.allclose(val, ref, atol=tol * max(1.0, float(np.abs(ref).max())), rtol=0)
                    if bad_value:
                        ctx.violation(f"axis_order:{fn}:{mkey}:{lay}", f"{fn} ({entry}): the labelled value of the updated pair differs from the "
                                      "numpy reference for this stored axis order (max abs err "
                                      f"{float(np.abs(val - ref).max()):.3g})", desc)
                    iso = None
                    if fn == "tensor_compress_bond":
                        iso = {"right": xa if mode in (True, False, "left", "lazy") else None,
                               "left": xb if mode in (True, False, "right", "lazy") else None}.get(absorb)
                    elif fn == "tensor_canonize_bond" and absorb in ("left", "right"):
                        iso = xa if absorb == "right" else xb
                    if iso is not None and not bad_value:
                        m = np.moveaxis(np.asarray(iso.data), iso.inds.index("c"), -1).reshape(-1, k)
                        if not np.allclose(m.conj().T @ m, np.eye(k), atol=1e-6 if mode == "lazy" else 1e-9):
                            ctx.violation(f"isometry:{fn}:{mkey}:absorb={absorb}:{lay}", f"{fn}: the tensor that absorb={absorb!r} leaves isometric is not", desc)
                        ctx.bump("pair_isometry_checked")
                # ---- (1) which captured array was installed, moved by which axis permutation
                for side, x in (("left", xa), ("right", xb)):
                    obs = cap.installed_from(x)
                    if obs is None:
                        ctx.bump("pair_install_not_observable")
                        continue
                    src, pi = obs
                    namer = tm.Namer()
                    cid += 1
                    info[cid] = {**desc, "side": side, "produced_under_labels": src, "stored_labels": x.inds, "axis_permutation_applied": pi,
                                 "key": f"install:{fn}:{mkey}:{lay}"}
                    cases.append((cid, f"match like_order {_codes(namer, src)} {_codes(namer, x.inds)} with None => false | Some nix => "
                                       f"natlist_eqb (perm_like {_codes(namer, src)} nix) {tm.nlist(pi)} end"))
                    ctx.bump("pair_install_observed")
    failed, errors = _coq_cases_dedup(ctx, "pair_install", header, cases, shard=150)
    for path, err in errors:
        ctx.broken_obligation("correspondence:pair_install:" + path.split("/")[-1], err)
    for c in failed:
        d = dict(info[c])
        ctx.violation(d.pop("key"), f"{d['function']} stores an array that was produced under the labels {d['produced_under_labels']} under its "
                      f"own labels {d['stored_labels']} moved by the axis permutation {d['axis_permutation_applied']}, not by the one that keeps "
                      "the labelled tensor (model: perm_like)", d)


# ----------------------------------------------------------------------------
# (e) operators between networks (not (f, f_) pairs, so invisible to the reflection above)


def _net_kinds(rng):
    """classes that carry `+`/`-` (TensorNetworkGen and below): name -> builder(seed)"""
    import quimb.tensor as qtn

    edges = [(0, 1), (1, 2), (2, 0), (2, 3)]

    def product_mps(seed):
        r = np.random.default_rng(seed)
        p = qtn.MPS_computational_state("0110", dtype="complex128")
        p.squeeze_()
        for t in p:
            t.modify(data=np.asarray(t.data) + r.integers(1, 4, size=t.shape))
        return p

    return {
        "MPS": lambda s: qtn.MPS_rand_state(4, 3, seed=s, dtype="complex128"),
        "MPO": lambda s: qtn.MPO_rand_herm(4, 2, seed=s),
        "PEPS": lambda s: qtn.PEPS.rand(2, 2, 2, seed=s),
        "PEPO": lambda s: qtn.PEPO.rand(2, 2, 2, seed=s),
        "PEPS3D": lambda s: qtn.PEPS3D.rand(1, 2, 2, 2, seed=s),
        "GENV": lambda s: qtn.TN_from_edges_rand(edges, D=2, phys_dim=2, seed=s),
        "GENO": lambda s: qtn.TN_from_edges_rand(edges, D=2, phys_dim=2, seed=s, site_ind_id=("k{}", "b{}")),
        # no bonds at all (empty relabelling map). A single site is in the documented domain; a multi-site product state
        # whose dummy bonds were squeezed away is not ("sites connected by a single index": without bonds the function
        # returns the product of the site-wise sums, not the sum) - for it only the non-mutation / aliasing / ownership
        # claims are checked, not the value
        "MPS_SINGLE_SITE": lambda s: qtn.MPS_rand_state(1, 3, seed=s, dtype="complex128"),
        "MPS_PRODUCT_NO_BONDS": product_mps,
    }


VALUE_OUT_OF_DOMAIN = {"MPS_PRODUCT_NO_BONDS"}


RELATIONS = ["independent", "copy_shared_bond_names", "derived_shared_bond_names", "some_bond_names_shared", "same_object",
             "independent_axis_permuted", "derived_axis_permuted"]


def _second_operand(rel, a, build, rng):
    sd = int(rng.integers(1 << 30))
    if rel == "independent":
        return build(sd)
    if rel == "copy_shared_bond_names":
        return a.copy()
    if rel == "derived_shared_bond_names":
        b = a.copy()
        for t in b:
            t.modify(data=np.asarray(t.data) * float(rng.integers(2, 4)))
        return b.conj() if rng.integers(2) else b
    if rel == "some_bond_names_shared":
        b = build(sd)
        inner_a, inner_b = sorted(a.inner_inds()), sorted(b.inner_inds())
        # same geometry: give b the bond names of a on every other bond (matched through the tensors' tags)
        amap = {frozenset(frozenset(a.tensor_map[t].tags) for t in a.ind_map[ix]): ix for ix in inner_a}
        ren = {}
        for j, ix in enumerate(inner_b):
            key = frozenset(frozenset(b.tensor_map[t].tags) for t in b.ind_map[ix])
            if j % 2 == 0 and key in amap:
                ren[ix] = amap[key]
        return b.reindex(ren)
    if rel == "same_object":
        return a
    if rel == "independent_axis_permuted":
        return permute_axes(build(sd), rng)
    if rel == "derived_axis_permuted":
        return permute_axes(a.copy(), rng)
    raise ValueError(rel)


def _dense_sorted(tn):
    c = canon(tn)
    return c[1], c[2]


class _WriteLog:
    """every Tensor.modify while active: the object written (kept alive so that ids stay unique)"""

    def __enter__(self):
        import quimb.tensor as qtn

        self.objs = []
        self._orig = qtn.Tensor.modify
        orig, log = self._orig, self.objs

        def modify(self_, **kw):
            if not any(o is self_ for o in log):
                log.append(self_)
            return orig(self_, **kw)

        qtn.Tensor.modify = modify
        return self

    def __exit__(self, *exc):
        import quimb.tensor as qtn

        qtn.Tensor.modify = self._orig
        return False


def network_sum(ctx):
    """`a + b`, `a - b`, `a += b`, `a -= b`, add_MPS/add_MPO/add_PEPS/add_PEPO[_](b, negate=...) and
    tensor_network_ag_sum(a, b, negate=, inplace=) on every structured class, for every relation of b to a that decides
    whether the operands share bond names / arrays / tensor objects / stored axis orders.
    (1) correspondence, exact, in Coq: the owners (first operand / second operand / result) of the tensor objects the
        call writes, in order of first write, against `filter visible (agsum_writes inplace nsites negate)`;
    (2) oracle (value at tolerance against numpy on the dense vectors - a TEST): both operands, copies sharing their
        arrays, untouched (the left one is the result for the in-place spellings); dense(result) = dense(a) +- dense(b)
        over the same outer labels; no tensor object of the result belongs to an operand; the same call a second time
        gives the same value."""
    import quimb.tensor as qtn

    rng = np.random.default_rng(ctx.seed + 31)
    kinds = _net_kinds(rng)
    METHOD = {"MPS": "add_MPS", "MPS_PRODUCT_NO_BONDS": "add_MPS", "MPS_SINGLE_SITE": "add_MPS", "MPO": "add_MPO", "PEPS": "add_PEPS", "PEPO": "add_PEPO"}
    cases, info, cid = [], {}, 0
    header = tm.HEADER + "From QV Require Import C03.Model.\n"
    reps = ctx.n(1, 6)
    for kind, build in kinds.items():
        for rel in RELATIONS:
            for negate in (False, True):
                for rep in range(reps):
                    # (add_PEPS / add_PEPO take no `negate` argument)
                    has_method = kind in METHOD and (not negate or METHOD[kind] in ("add_MPS", "add_MPO"))
                    spellings = ["operator", "ioperator", "function", "function_inplace"] + (["method", "method_"] if has_method else [])
                    for spelling in spellings if not ctx.quick else [spellings[int(rng.integers(len(spellings)))], "operator"]:
                        inplace = spelling in ("ioperator", "function_inplace", "method_")
                        a = build(int(rng.integers(1 << 30)))
                        b = _second_operand(rel, a, build, rng)
                        same = b is a
                        desc = {"class": kind, "b_is": rel, "negate": negate, "spelling": spelling, "nsites": a.num_tensors}
                        ctx.count(("netsum", kind, rel, negate, spelling, rep), rel != "independent")
                        ctx.bump(f"netsum_{rel}")
                        try:
                            la, da = _dense_sorted(a)
                            lb, db = _dense_sorted(b)
                        except Exception:
                            ctx.bump("netsum_dense_failed")
                            continue
                        if la != lb:
                            ctx.bump("netsum_outer_labels_differ")
                            continue
                        ref = da - db if negate else da + db
                        share_a, share_b = a.copy(), b.copy()
                        fa, fb, fsa, fsb = fingerprint(a), fingerprint(b), fingerprint(share_a), fingerprint(share_b)
                        ids_a = {id(t) for t in a.tensor_map.values()}
                        ids_b = {id(t) for t in b.tensor_map.values()}

                        def call(x, y):
                            if spelling == "operator":
                                return (x - y) if negate else (x + y)
                            if spelling == "ioperator":
                                if negate:
                                    x -= y
                                else:
                                    x += y
                                return x
                            if spelling in ("function", "function_inplace"):
                                return qtn.tensor_network_ag_sum(x, y, negate=negate, inplace=inplace)
                            return getattr(x, METHOD[kind] + ("_" if inplace else ""))(y, **({"negate": True} if negate else {}))

                        try:
                            with _WriteLog() as wl:
                                r = call(a, b)
                        except Exception as e:
                            ctx.violation(f"netsum:raises:{rel}", f"network sum raised {type(e).__name__}", {**desc, "error": str(e)[:150]})
                            continue
                        key_tail = f"{'sub' if negate else 'add'}:{'inplace' if inplace else 'plain'}:{rel}"
                        if inplace and r is not a:
                            ctx.violation(f"netsum:inplace_returns_other:{key_tail}", "the in-place spelling does not return its receiver", desc)
                        # ---- (2) oracle
                        if not same or not inplace:
                            if fingerprint(b) != fb or fingerprint(share_b) != fsb:
                                ctx.violation(f"netsum:mutates_second_operand:{key_tail}", "the sum / difference of two networks changed its SECOND operand "
                                              "(tensor data, labels or arrays shared with a copy of it)", desc)
                        if not inplace and (fingerprint(a) != fa or fingerprint(share_a) != fsa):
                            ctx.violation(f"netsum:mutates_first_operand:{key_tail}", "the plain sum / difference of two networks changed its first operand", desc)
                        if inplace and fingerprint(share_a) != fsa:
                            ctx.violation(f"netsum:writes_shared_array:{key_tail}", "the in-place sum wrote into arrays shared with a copy of the receiver", desc)
                        rid = {id(t) for t in r.tensor_map.values()}
                        if (rid & ids_b and not (same and inplace)) or (not inplace and rid & ids_a):
                            ctx.violation(f"netsum:aliases:{key_tail}", "the result holds tensor objects of an operand", desc)
                        if type(r) is not type(a):
                            ctx.violation(f"netsum:class:{key_tail}", f"result is a {type(r).__name__}, operands are {type(a).__name__}", desc)
                        try:
                            lr, dr = _dense_sorted(r)
                            ok = lr == la and dr.shape == ref.shape and np.allclose(dr, ref, atol=1e-9 * max(1.0, float(np.abs(ref).max())), rtol=0)
                        except Exception:
                            ok = False
                        if kind in VALUE_OUT_OF_DOMAIN:
                            ctx.bump("netsum_value_not_claimed_no_bonds")
                            ok = True
                        if not ok:
                            ctx.violation(f"netsum:value:{key_tail}", "dense(result) differs from dense(a) +- dense(b) (numpy reference)", desc)
                        if not inplace and kind not in VALUE_OUT_OF_DOMAIN:
                            try:
                                l2, d2 = _dense_sorted(call(a, b))
                                ok2 = l2 == la and np.allclose(d2, ref, atol=1e-9 * max(1.0, float(np.abs(ref).max())), rtol=0)
                            except Exception:
                                ok2 = False
                            if not ok2:
                                ctx.violation(f"netsum:second_call_differs:{key_tail}", "the same plain call a second time gives another value "
                                              "(an operand was changed by the first call)", desc)
                        # ---- (1) owners of the written objects
                        if same:
                            continue   # one object is both operands: the owner classes of the model coincide
                        obs = []
                        for o in wl.objs:
                            if id(o) in ids_b:
                                obs.append("OwnB")
                            elif id(o) in ids_a:
                                obs.append("OwnA")
                            elif id(o) in rid:
                                obs.append("OwnRes")
                        cid += 1
                        info[cid] = {**desc, "owners_of_written_objects": obs, "key": f"netsum:write_owners:{key_tail}"}
                        cases.append((cid, f"owners_eqb (filter visible (agsum_writes {'true' if inplace else 'false'} {a.num_tensors}%nat "
                                           f"{'true' if negate else 'false'})) [{'; '.join(obs)}]"))
    failed, errors = _coq_cases_dedup(ctx, "agsum_writes", header, cases, shard=150)
    for path, err in errors:
        ctx.broken_obligation("correspondence:agsum_writes:" + path.split("/")[-1], err)
    for c in failed:
        d = dict(info[c])
        ctx.violation(d.pop("key"), "the tensor objects written by the network sum are not the modelled ones (model: one write per site, to the "
                      "result's tensor - the receiver's for the in-place spellings - and never to the second operand's)", d)


def network_operators(ctx):
    """the remaining operators of TensorNetwork (scalar `*`, `/`, unary `-`, `&`, `|`, `@`, `^`): operands (and copies
    sharing their arrays) untouched by the plain spellings, value against numpy (a TEST, tolerance)."""
    import quimb.tensor as qtn

    rng = np.random.default_rng(ctx.seed + 41)
    for it in range(ctx.n(6, 40)):
        R, _ = make_receivers(ctx.seed * 100 + 50 + it)
        for kind in ("TN", "MPS", "PEPS", "GENV"):
            x = R[kind]()
            y = permute_axes(x.copy(), rng).conj() if rng.integers(2) else x.conj()
            lx, dx = _dense_sorted(x)
            c = complex(int(rng.integers(2, 5)), int(rng.integers(-2, 3)))
            # `|` views its operands and, by design, renames clashing inner labels of the viewed tensors in place
            # (add_tensor_network: reindex(inplace=virtual)): it gets an operand without clashing labels
            yv = y.reindex({ix: f"_v{j}" for j, ix in enumerate(sorted(y.inner_inds()))})
            OPS = {"mul": (lambda: x * c, lambda: dx * c), "rmul": (lambda: c * x, lambda: dx * c), "div": (lambda: x / c, lambda: dx / c),
                   "neg": (lambda: -x, lambda: -dx), "and": (lambda: (x & y), None), "or": (lambda: (x | yv), None),
                   "matmul": (lambda: x @ y, None)}
            for nm, (f, ref) in OPS.items():
                y_ = yv if nm == "or" else y
                sx, sy = x.copy(), y_.copy()
                fx, fy, fsx, fsy = fingerprint(x), fingerprint(y_), fingerprint(sx), fingerprint(sy)
                desc = {"operator": nm, "class": kind, "scalar": repr(c)}
                ctx.count(("netop", nm, kind, it), True)
                try:
                    r = f()
                except Exception as e:
                    ctx.bump("netop_rejected")
                    continue
                if (fingerprint(x), fingerprint(y_), fingerprint(sx), fingerprint(sy)) != (fx, fy, fsx, fsy):
                    ctx.violation(f"netop:mutates_operand:{nm}", f"TensorNetwork operator {nm} changed an operand", desc)
                if nm != "or" and isinstance(r, qtn.TensorNetwork) and tensor_ids(r) & (tensor_ids(x) | tensor_ids(y)):
                    ctx.violation(f"netop:aliases:{nm}", f"the result of TensorNetwork operator {nm} holds tensor objects of an operand", desc)
                if ref is not None and ref() is not None:
                    lr, dr = _dense_sorted(r)
                    if lr != lx or not np.allclose(dr, ref(), atol=1e-9 * max(1.0, float(np.abs(dx).max()))):
                        ctx.violation(f"netop:value:{nm}", f"TensorNetwork operator {nm}: value differs from numpy", desc)
                if nm == "matmul":
                    # <x|x> for y = conj(x) (stored in any axis order): the squared norm of the dense vector
                    if not numbers_agree(complex(r), complex(np.vdot(dx, dx)), 1e-9):
                        ctx.violation("netop:value:matmul", "x @ conj(x) differs from the squared norm of the dense tensor", desc)


def all_subclasses(c):
    out = [c]
    for k in c.__subclasses__():
        out += all_subclasses(k)
    return out


def unwrap(f):
    """the function underneath partialmethod chains / functools.wraps deprecation wrappers"""
    for _ in range(8):
        if isinstance(f, (staticmethod, classmethod)):
            f = f.__func__
        elif isinstance(f, functools.partialmethod) or isinstance(f, functools.partial):
            f = f.func
        elif hasattr(f, "__wrapped__"):
            f = f.__wrapped__
        else:
            break
    return f


def stale_aliases(ctx):
    """for EVERY subclass of Tensor / TensorNetwork: the trailing-underscore attribute reached on the class must be the
    in-place partial of the plain attribute reached on the SAME class (a subclass overriding f but inheriting f_ from
    its base pairs two different methods)."""
    import quimb.tensor as qtn

    seen = set()
    n = 0
    for cls in sorted(set(all_subclasses(qtn.Tensor) + all_subclasses(qtn.TensorNetwork)), key=lambda c: c.__qualname__):
        for name in dir(cls):
            if not name.endswith("_") or name.startswith("_") or not hasattr(cls, name[:-1]):
                continue
            st = inspect.getattr_static(cls, name)
            if not isinstance(st, functools.partialmethod):
                continue
            n += 1
            base, plain = unwrap(st), unwrap(inspect.getattr_static(cls, name[:-1]))
            ctx.count(("alias", cls.__qualname__, name), base is plain)
            if base is not plain:
                key = (name, getattr(base, "__qualname__", repr(base)), getattr(plain, "__qualname__", repr(plain)))
                if key in seen:
                    continue
                seen.add(key)
                ctx.violation(f"stale_alias:{key[2]}", f"{cls.__qualname__}.{name} is the in-place partial of {key[1]}, but "
                              f"{cls.__qualname__}.{name[:-1]} is {key[2]}: the two spellings are different methods",
                              {"class": cls.__qualname__, "inplace_attr": name, "bound_to": key[1], "plain_is": key[2]})
    ctx.extra["alias_pairs_checked"] = n


def inventory(ctx):
    """regenerate the classified pair list and re-prove that every pair is
    either a copy-idiom body, a delegation to a classified pair, or on the
    explicit list of bodies that are checked behaviourally only."""
    pairs = discover_pairs()
    rows = []
    summary = {"CopyIdiom": 0, "Delegates": 0, "Other": 0}
    detail = {}
    for (owner, name), info in sorted(pairs.items()):
        func = info["func"]
        if func is None:
            st = info["static"]
            func = getattr(st, "__wrapped__", None) or getattr(info["owner"], name, None)
        cls, notes = classify(func) if func is not None else ("Other", ["no-func"])
        summary[cls] += 1
        detail[f"{owner}.{name}"] = (cls, notes)
        rows.append((owner, name, cls, notes))
    ctx.extra["inventory"] = summary
    others = sorted(k for k, (c, _) in detail.items() if c == "Other")
    ctx.extra["inventory_other"] = others
    arraywrites = sorted(k for k, (c, n) in detail.items() if any(x.startswith("array-write") for x in n))
    ctx.extra["inventory_array_writes"] = arraywrites
    # expected 'Other' bodies (reviewed by hand; they are exercised behaviourally): anything new is an obligation failure
    import json
    import os

    allow_path = os.path.join(os.path.dirname(__file__), "c03_other_allowlist.json")
    allow = set(json.load(open(allow_path))) if os.path.exists(allow_path) else set()
    new_other = [k for k in others if k not in allow]
    lines = ["(* GENERATED by harness/c03.py from reflection over /repo - do not edit *)",
             "From Coq Require Import List Bool.", "Import ListNotations.",
             "Inductive pclass := CopyIdiom | Delegates | OtherAllowed | OtherNew.",
             "Definition safe (c : pclass) : bool := match c with OtherNew => false | _ => true end.",
             "Definition pairs : list pclass := ["]
    body = []
    for owner, name, cls, notes in rows:
        key = f"{owner}.{name}"
        c = cls if cls != "Other" else ("OtherAllowed" if key in allow else "OtherNew")
        body.append(f"  {c} (* {key} {' '.join(notes)[:60]} *)")
    lines.append(";\n".join(body))
    lines.append("].")
    lines.append("Theorem C03_all_pairs_classified_safe : forallb safe pairs = true.")
    lines.append("Proof. vm_compute. reflexivity. Qed.")
    lines.append("Print Assumptions C03_all_pairs_classified_safe.")
    ctx.regen("Gen/C03_pairs.v", "\n".join(lines) + "\n")
    if new_other:
        ctx.extra["inventory_new_other"] = new_other
    return rows


def run(ctx):
    ctx.extra["rule"] = RULE
    ctx.trusted_base += [
        "the syntactic classifier of (f, f_) bodies in harness/c03.py (it cannot see dynamic aliasing; every pair with an "
        "argument recipe is therefore also exercised behaviourally: fingerprints incl. array bytes of the receiver and of "
        "a copy sharing its arrays)",
        "modelled, not verified: numpy reshape/transpose, Python object identity / aliasing beyond the heap model of "
        "coq/C03/Model.v; pairs without an argument recipe are listed in the evidence as not exercised",
        "the observation wrappers of harness/c03.py: Tensor.modify is wrapped to learn which tensor objects a network sum "
        "writes; tensor_split / tensor_contract / Tensor.__matmul__ are wrapped to snapshot the labelled arrays a pair "
        "function may install (the installed array is recognised by exact equality up to a unique axis permutation); "
        "agsum_writes / perm_like are hand models of tensor_network_ag_sum / of the install step, tied by these observations",
        "tests, not theorems: every value comparison against numpy (SVD truncation reference, dense sums) is at tolerance; "
        "reduced='lazy' (randomised range finder) is only run untruncated; the sum of multi-site networks WITHOUT bonds is "
        "outside tensor_network_ag_sum's documented domain and only checked for non-mutation / ownership",
    ]
    ctx.stage(inventory)
    ctx.check_props(["Base/Sums.vo", "Base/TN.vo", "Base/TNExec.vo", "C03/Model.vo", "C03/Proofs.vo", "C03/Props.v", "Gen/C03_pairs.v"])
    ctx.stage(stale_aliases)
    ctx.stage(transposition_correspondence)
    ctx.stage(binop_write_correspondence)
    ctx.stage(binary_ops)
    ctx.stage(transpose_like_correspondence)
    ctx.stage(pair_functions)
    ctx.stage(network_sum)
    ctx.stage(network_operators)
    ctx.stage(behaviour)


def replay(ctx, path):
    run(ctx)

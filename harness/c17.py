"""C17 - eigen / singular / exponential solvers return genuine, correctly selected results.

Proof part (coq/C17): the SELECTION layer of quimb.linalg on exact spectra - sort_inds for the 11
`which` rules with the keys as coded (extended rationals, -1/0 = -inf), trim to k, optional ascending
re-sort, default `which`, scipy's `which`, choose_backend as a decision table, relative -> absolute
window arithmetic, eigh_window (dense branch as coded, partial branch), compute_blocks = connected
components.  Theorems: k best under the rule's order (ties: any) and unique up to ties; window exact;
blocks partition [0, d), no entry joins two blocks, every block connected; choose_backend total.
Tie (H): matrices with exactly known integer / Gaussian-integer spectra (signed-permutation and
diagonal-phase conjugates of direct sums of dyadic Householder-conjugated diagonal blocks; complex
diagonal / real 2x2 rotation-like blocks for non-hermitian) are run through sort_inds, eigs_numpy,
eigensystem_partial, eigh / eigvalsh / eig / eigvals, eig_numpy (autoblock on and off), eigh_window,
compute_blocks, choose_backend; what the implementation returned is embedded as literals and compared
with the model INSIDE Coq (checkers of coq/C17/Check.v, vm_compute).
Oracle (tests, tolerance): dense / sparse / LinearOperator x numpy / scipy / lobpcg / auto x k x which x
sigma x generalized B, sizes on both sides of the backend thresholds: residuals, (B-)orthonormality,
sortedness, selection vs a dense reference; svds triplets, rsvd, estimate_rank; expm / expm_multiply /
sqrtm / norm defining equations; autoblock spectrum == direct spectrum; the `P=` subspace projector
(real and complex isometries, every backend) against the dense spectrum of P^dag A P; the remaining
optional arguments (sort=False, ncv / tol / maxiter, eigenvector-only aliases, Lazy with prefactors for
A and B, non-hermitian aliases, fallback_to_scipy, svds / norm / eigh_window keyword pass-through).
"""

import json
import math
import os
import warnings
from fractions import Fraction

# the matrices here are small: one BLAS thread is fastest and does not fight other checks for cores
for _v in ("OMP_NUM_THREADS", "OPENBLAS_NUM_THREADS", "MKL_NUM_THREADS", "NUMBA_NUM_THREADS"):
    os.environ[_v] = "1"

import numpy as np  # noqa: E402

from harness.common import blit, natlist, zlist, zlit  # noqa: E402

warnings.filterwarnings("ignore")

RULE = (
    "exact spectra: eigenvalues drawn from small integer ranges (degenerate on purpose), complex ones from "
    "Gaussian integers (Pythagorean for magnitude rules); matrices = signed-permutation / diagonal-phase conjugates "
    "of direct sums of 1x1, 2x2, 4x4, 8x8 dyadic Householder-conjugated diagonal blocks (hermitian) or complex "
    "diagonal / real rotation-like 2x2 blocks (non-hermitian); k in 1..d+1, all 11 rules in random letter case, "
    "sigma None / on an eigenvalue / half-way / quarter-way, sort on/off, values-only or vectors, dense / qarray / "
    "sparse input. Windows: dyadic w_0, w_sz (or default 1.1 away from boundary ties). Blocks: random edge lists "
    "with self loops, duplicates, asymmetric entries. Backends: d, k on both sides of d^2/k = 2000 / 10000, every "
    "representation flag. Non-trivial: k < d or a tie at the cut, window cutting the spectrum, >= 2 blocks, "
    "threshold within 3 of d."
)

RULES = ["LM", "SM", "SA", "SR", "SI", "LA", "LR", "LI", "TM", "TR", "TI"]
_STATE = {}
TOL_ROUND = 1e-7

HEADER = (
    "From Coq Require Import ZArith List Bool QArith.\n"
    "From QV Require Import C17.Model C17.Check.\nImport ListNotations.\nOpen Scope Z_scope.\n"
)


# ----------------------------------------------------------------------------- literals
def qlit(fr):
    fr = Fraction(fr)
    return f"(Qmake {zlit(fr.numerator)} {int(fr.denominator)}%positive)"


def qopt(fr):
    return "None" if fr is None else f"(Some {qlit(fr)})"


def czlit(z):
    return f"({zlit(z[0])}, {zlit(z[1])})"


def czlist(zs):
    return "[" + "; ".join(czlit(z) for z in zs) + "]"


def rule_opt(w):
    return "None" if w is None else f"(Some {w.upper()})"


def randcase(rng, w):
    return "".join(c.lower() if rng.random() < 0.4 else c for c in w)


def to_cz(vals):
    """canonicalise computed eigenvalues of an exact-spectrum matrix: nearest Gaussian integers and
    the largest deviation from them."""
    v = np.asarray(vals).astype(complex).reshape(-1)
    re = np.rint(v.real)
    im = np.rint(v.imag)
    dev = float(np.max(np.abs(v - (re + 1j * im)))) if v.size else 0.0
    return [(int(a), int(b)) for a, b in zip(re, im)], dev


# ----------------------------------------------------------------------------- exact families
def signed_perm(rng, n):
    P = np.zeros((n, n))
    p = list(range(n))
    rng.shuffle(p)
    for i, j in enumerate(p):
        P[i, j] = rng.choice([-1.0, 1.0])
    return P


def herm_exact(rng, spectrum, complex_=False, scramble=True, max_block=8):
    """Hermitian matrix with dyadic entries whose spectrum is exactly the given integers."""
    vals = list(spectrum)
    rng.shuffle(vals)
    n = len(vals)
    A = np.zeros((n, n))
    i = 0
    sizes = []
    while i < n:
        size = rng.choice([s for s in (1, 1, 2, 2, 4, 8) if s <= n - i and s <= max_block])
        d = np.diag([float(x) for x in vals[i:i + size]])
        if size == 1:
            B = d
        else:
            v = np.array([rng.choice([-1.0, 1.0]) for _ in range(size)])
            H = np.eye(size) - 2.0 * np.outer(v, v) / size
            B = H @ d @ H
        A[i:i + size, i:i + size] = B
        sizes.append(size)
        i += size
    if scramble:
        P = signed_perm(rng, n)
        A = P @ A @ P.T
    if complex_:
        ph = np.array([rng.choice([1, -1, 1j, -1j]) for _ in range(n)])
        A = (ph[:, None] * A.astype(complex)) * ph.conj()[None, :]
    return A, sizes


PYTH = [(3, 4), (4, 3), (-3, 4), (3, -4), (-4, -3), (5, 0), (-5, 0), (0, 5), (0, -5), (0, 0), (1, 0), (-1, 0),
        (0, 1), (0, -2), (2, 0), (5, 12), (-12, 5), (13, 0), (0, 3), (-4, 0), (4, 0), (0, 4), (6, 8), (10, 0)]


def nonherm_exact(rng, n, pyth, diag_only):
    """(matrix, spectrum as Gaussian integers, exact?)  exact = complex diagonal (LAPACK returns the
    diagonal itself); otherwise real 2x2 rotation-like blocks conjugated by a signed permutation."""
    spec = []
    A = np.zeros((n, n), dtype=complex)
    i = 0
    while i < n:
        two = (not diag_only) and (n - i >= 2) and rng.random() < 0.4
        if pyth:
            re, im = rng.choice(PYTH)
        else:
            re, im = rng.randint(-3, 3), rng.randint(-3, 3)
        if two:
            if im == 0:
                im = rng.choice([1, 2]) if not pyth else 0
            if im == 0:
                two = False
        if two:
            A[i:i + 2, i:i + 2] = [[re, -im], [im, re]]
            spec += [(re, im), (re, -im)]
            i += 2
        else:
            if not diag_only:
                im = 0  # keep the matrix real
            A[i, i] = complex(re, im)
            spec.append((re, im))
            i += 1
    if diag_only:
        p = list(range(n))
        rng.shuffle(p)
        A = A[np.ix_(p, p)]
        return A, spec, True
    P = signed_perm(rng, n)
    A = P @ A.real @ P.T
    return A, spec, False


def pick_sigma(rng, ints):
    base = rng.choice(ints) if ints else 0
    return Fraction(base) + rng.choice([Fraction(0), Fraction(1, 2), Fraction(1, 4), Fraction(-1, 2), Fraction(3, 4), Fraction(1)])


def as_input(rng, A, allow_sparse=True):
    import quimb as qu
    import scipy.sparse as sp

    kind = rng.choice(["ndarray", "qarray", "sparse"] if allow_sparse else ["ndarray", "qarray"])
    if kind == "qarray":
        return qu.qarray(A), kind
    if kind == "sparse":
        return sp.csr_matrix(A), kind
    return A, kind


# ----------------------------------------------------------------------------- independent references
def ref_keys(vals, which, sigma):
    """documented meaning of every rule (independent of the model and of sort_inds)."""
    v = np.asarray(vals).astype(complex)
    w = which.upper()
    s = float(sigma) if sigma is not None else None
    if w == "LM":
        return -np.abs(v)
    if w == "SM":
        return np.abs(v)
    if w in ("SA", "SR"):
        return v.real
    if w in ("LA", "LR"):
        return -v.real
    if w == "SI":
        return v.imag
    if w == "LI":
        return -v.imag
    if w == "TM":
        return np.abs(np.abs(v) - s)
    if w == "TR":
        return np.abs(v.real - s)
    if w == "TI":
        return np.abs(v.imag - s)
    raise KeyError(w)


def _selection_defect(all_vals, out, which, sigma, tol):
    """True when some eigenvalue that was left out is strictly better than a returned one (or a returned value is
    not an eigenvalue) - the pure predicate, no reporting"""
    rest = list(np.asarray(all_vals).astype(complex))
    out = np.asarray(out).astype(complex).reshape(-1)
    for x in out:
        j = int(np.argmin([abs(x - y) for y in rest])) if rest else -1
        if j < 0 or abs(rest[j] - x) > tol * max(1.0, abs(x)):
            return True
        rest.pop(j)
    if rest and out.size:
        ko = ref_keys(out, which, sigma)
        kr = ref_keys(rest, which, sigma)
        scale = max(1.0, float(np.max(np.abs(ko))), float(np.max(np.abs(kr))))
        return bool(np.max(ko) > np.min(kr) + tol * scale)
    return False


def oracle_selection(ctx, key, desc, all_vals, out_vals, which, sigma, k, tol=1e-7, backend_recheck=None):
    """direct property oracle: the returned values are k of the spectrum and none left out is strictly
    better (tolerance `tol`).  Used as the searcher when the correspondence disagrees and on every
    oracle-stream case.  `backend_recheck` (iterative backends only): a callable that runs the underlying
    solver directly; when the solver itself misses the better eigenvalue the miss is the backend's documented
    inexactness (ARPACK can skip an eigenvalue), not quimb's selection logic, and is counted, not reported."""
    all_vals = np.asarray(all_vals).astype(complex)
    out = np.asarray(out_vals).astype(complex).reshape(-1)
    want = min(k, all_vals.size)
    if out.size != want:
        ctx.violation(key + ":count", f"returned {out.size} eigenvalues, requested min(k, d) = {want}", desc)
        return False
    rest = list(all_vals)
    for x in out:
        j = int(np.argmin([abs(x - y) for y in rest])) if rest else -1
        if j < 0 or abs(rest[j] - x) > tol * max(1.0, abs(x)):
            ctx.violation(key + ":not_eigenvalue", "a returned value is not an eigenvalue of the operator (or is returned twice)", desc)
            return False
        rest.pop(j)
    if rest and out.size:
        ko = ref_keys(out, which, sigma)
        kr = ref_keys(rest, which, sigma)
        scale = max(1.0, float(np.max(np.abs(ko))), float(np.max(np.abs(kr))))
        if np.max(ko) > np.min(kr) + tol * scale:
            if backend_recheck is not None:
                try:
                    direct = backend_recheck()
                except Exception:  # noqa: BLE001
                    direct = None
                if direct is not None and _selection_defect(all_vals, direct, which, sigma, tol):
                    ctx.bump("oracle:iterative_backend_itself_missed_an_eigenvalue")
                    return False
            ctx.violation(key + ":selection", f"which={which} sigma={sigma}: a value that was left out is strictly better than a returned one", desc)
            return False
    return True


# ----------------------------------------------------------------------------- (H) sort_inds
def sort_inds_stream(ctx):
    from quimb.linalg.numpy_linalg import sort_inds

    rng = ctx.rng
    cases, info = [], {}
    for cid in range(1, ctx.n(450, 6000) + 1):
        n = rng.randint(1, 14) if rng.random() < 0.85 else rng.randint(15, 40)
        which = rng.choice(RULES)
        cplx = rng.random() < 0.45
        if cplx:
            if which in ("LM", "SM", "TM"):
                a = [rng.choice(PYTH) for _ in range(n)]
            else:
                a = [(rng.randint(-3, 3), rng.randint(-3, 3)) for _ in range(n)]
            arr = np.array([complex(x, y) for x, y in a])
        else:
            a = [(rng.randint(-4, 4), 0) for _ in range(n)]
            arr = np.array([float(x) for x, _ in a])
            if rng.random() < 0.2:
                arr = arr.astype(int)
        need = which in ("TM", "TR", "TI")
        sigma = None
        if need and rng.random() < 0.93 or (not need and rng.random() < 0.15):
            pool = [x for x, _ in a] if which != "TI" else [y for _, y in a]
            if which == "TM":
                pool = [int(round(abs(complex(x, y)))) for x, y in a]
            sigma = pick_sigma(rng, pool)
        wname = randcase(rng, which)
        try:
            with np.errstate(all="ignore"):
                inds = [int(i) for i in sort_inds(arr, wname, sigma=None if sigma is None else float(sigma))]
        except Exception as e:  # noqa: BLE001
            inds = None
            err = type(e).__name__
        ties = len(set(a)) < len(a)
        ctx.count(("sort_inds", which, tuple(a), str(sigma)), n > 1)
        ctx.bump("sort_inds:" + which)
        info[cid] = {"call": "sort_inds", "a": a, "which": wname, "sigma": str(sigma), "impl": inds if inds is not None else err,
                     "dtype": str(arr.dtype)}
        impl = "None" if inds is None else f"(Some {natlist(inds)})"
        cases.append((cid, f"sort_inds_check {which} {qopt(sigma)} {czlist(a)} {impl}"))
        if cid <= 2:
            ctx.sample(info[cid])
        if ties:
            ctx.bump("sort_inds:with_ties")
    bad = yield ("sort_inds", cases, info)
    # searcher: direct oracle on the failing cases
    for d in bad:
        if isinstance(d["impl"], list):
            vals = [complex(x, y) for x, y in d["a"]]
            ks = ref_keys(vals, d["which"], None if d["sigma"] == "None" else Fraction(d["sigma"]))
            got = [ks[i] for i in d["impl"]]
            if sorted(d["impl"]) != list(range(len(vals))) or any(got[i] > got[i + 1] + 1e-12 for i in range(len(got) - 1)):
                ctx.violation("sort_inds:" + d["which"].upper(), "sort_inds does not order by the documented rule", d)
        else:
            ctx.violation("sort_inds:raised:" + d["which"].upper(), f"sort_inds raised {d['impl']} on a valid call", d)
    # unknown rule names must be rejected
    for w in ["XX", "L", "SAA", ""]:
        try:
            sort_inds(np.array([1.0, 2.0]), w)
            ctx.violation("sort_inds:unknown_rule_accepted", f"sort_inds accepted method={w!r}", {"which": w})
        except Exception:  # noqa: BLE001
            ctx.bump("sort_inds:unknown_rejected")


# ----------------------------------------------------------------------------- (H) eigs_numpy and friends
def _spectrum(rng, n, lo=-4, hi=4):
    return [rng.randint(lo, hi) for _ in range(n)]


def _gen_problem(rng, which, quick):
    """an exact-spectrum operator: (A, spectrum as cz list, isherm, strict)"""
    n = rng.randint(1, 12) if (quick or rng.random() < 0.8) else rng.randint(13, 24)
    herm = rng.random() < 0.65
    if herm:
        spec = _spectrum(rng, n)
        A, _ = herm_exact(rng, spec, complex_=rng.random() < 0.5, scramble=rng.random() < 0.9)
        return A, [(x, 0) for x in spec], True, True
    pyth = which in ("LM", "SM", "TM")
    A, spec, exact = nonherm_exact(rng, n, pyth, diag_only=rng.random() < 0.5)
    return A, spec, False, exact


def _vec_checks(ctx, key, desc, A, lk, vk, herm, tol=1e-8):
    A = np.asarray(A.toarray() if hasattr(A, "toarray") else A)
    lk = np.asarray(lk)
    vk = np.asarray(vk)
    if vk.shape != (A.shape[0], lk.size):
        ctx.violation(key + ":shape", f"eigenvector array has shape {vk.shape}, expected {(A.shape[0], lk.size)}", desc)
        return
    if lk.size == 0:
        return
    scale = max(1.0, float(np.abs(A).max()))
    res = float(np.abs(A @ vk - vk * lk[None, :]).max())
    if not res <= tol * scale:
        ctx.violation(key + ":residual", f"max |A v - lambda v| = {res:.2e}", {**desc, "residual": res})
    if herm:
        g = float(np.abs(vk.conj().T @ vk - np.eye(lk.size)).max())
        if not g <= tol:
            ctx.violation(key + ":orthonormality", f"max |V^dag V - 1| = {g:.2e}", {**desc, "gram_defect": g})
    else:
        nrm = np.linalg.norm(vk, axis=0)
        if np.any(nrm < 1e-8):
            ctx.violation(key + ":zero_vector", "an eigenvector is zero", desc)


def eigs_stream(ctx):
    import quimb as qu
    from quimb.linalg.numpy_linalg import eigs_numpy

    rng = ctx.rng
    cases, info = [], {}
    N = ctx.n(650, 9000)
    for cid in range(1, N + 1):
        which = rng.choice(RULES)
        A, spec, herm, strict = _gen_problem(rng, which, ctx.quick)
        n = len(spec)
        need = which in ("TM", "TR", "TI")
        sigma = None
        if (need and rng.random() < 0.95) or (not need and rng.random() < 0.1):
            pool = [x for x, _ in spec] if which != "TI" else [y for _, y in spec]
            if which == "TM":
                pool = [int(round(abs(complex(x, y)))) for x, y in spec]
            sigma = pick_sigma(rng, pool)
        k = rng.randint(1, n) if rng.random() < 0.9 else n + rng.randint(0, 2)
        sort = rng.random() < 0.6
        rv = rng.random() < 0.5
        route = rng.choice(["eigs_numpy", "eigs_numpy", "partial", "partial_default", "top"])
        Ain, kind = as_input(rng, A)
        wname = randcase(rng, which)
        sig = None if sigma is None else float(sigma)
        desc = {"call": route, "spectrum": spec, "which": wname, "sigma": str(sigma), "k": k, "sort": sort, "return_vecs": rv,
                "isherm": herm, "input": kind, "A": np.asarray(A).tolist() if n <= 6 else "n>6"}
        model_which = which
        coq = "esp_check (Some {w}) {s} {k} {so} {a} {impl} {st}"
        if route == "eigs_numpy":
            coq = "eigs_check (Some {w}) {s} {k} {so} {a} {impl} {st}"
        elif route == "partial_default":
            # default `which`: SA without sigma, TR with sigma
            if sigma is None and rng.random() < 0.5:
                sigma = pick_sigma(rng, [x for x, _ in spec])
                sig = float(sigma)
                desc["sigma"] = str(sigma)
            model_which = None
            coq = "esp_check None {s} {k} {so} {a} {impl} {st}"
        try:
            with np.errstate(all="ignore"):
                if route == "eigs_numpy":
                    out = eigs_numpy(Ain, k, which=wname, sigma=sig, sort=sort, return_vecs=rv, isherm=herm)
                elif route == "partial":
                    out = qu.eigensystem_partial(Ain, k, isherm=herm, which=wname, sigma=sig, sort=sort, return_vecs=rv,
                                                 backend=rng.choice(["numpy", "NUMPY", "NumPy"]))
                elif route == "partial_default":
                    out = qu.eigensystem_partial(Ain, k, isherm=herm, sigma=sig, sort=sort, return_vecs=rv, backend="numpy")
                else:
                    # eigh / eigvalsh / eig / eigvals with k >= 0 and the automatic backend (numpy for these sizes)
                    fn = {(True, True): qu.eigh, (True, False): qu.eigvalsh, (False, True): qu.eig, (False, False): qu.eigvals}[herm, rv]
                    out = fn(Ain, k=k, which=wname, sigma=sig, sort=sort)
            if rv:
                lk, vk = out
            else:
                lk, vk = out, None
            vals, dev = to_cz(lk)
            err = None
        except Exception as e:  # noqa: BLE001
            vals, dev, err, lk, vk = None, 0.0, f"{type(e).__name__}: {str(e)[:120]}", None, None
        expect_raise = (model_which is not None and need and sigma is None)
        nontriv = (k < n) and not expect_raise
        ctx.count(("eigs", route, which, tuple(spec), str(sigma), k, sort, herm), nontriv)
        ctx.bump(f"eigs:{route}:{'herm' if herm else 'nonherm'}")
        if expect_raise:
            ctx.bump("eigs:target_rule_without_sigma")
        desc["impl"] = vals if err is None else err
        info[cid] = desc
        if cid <= 3:
            ctx.sample({k_: v for k_, v in desc.items() if k_ != "A"})
        if err is None and dev > TOL_ROUND:
            ctx.violation(f"{route}:eigenvalue_not_genuine", f"returned eigenvalue is {dev:.2e} away from the exact spectrum", desc)
            continue
        impl = "None" if vals is None else f"(Some {czlist(vals)})"
        cases.append((cid, coq.format(w=which, s=qopt(sigma), k=zlit(k), so=blit(sort), a=czlist(spec), impl=impl, st=blit(strict))))
        # vectors: genuine eigenpairs (test, tolerance)
        if err is None and vk is not None:
            _vec_checks(ctx, f"{route}:vectors", desc, A, lk, vk, herm)
        elif err is not None and not expect_raise:
            ctx.violation(f"{route}:raised", f"valid call raised {err}", desc)
    bad = yield ("eigs_selection", cases, info)
    for d in bad:
        if isinstance(d["impl"], list):
            w = d["which"].upper() if d["call"] != "partial_default" else ("SA" if d["sigma"] == "None" else "TR")
            allv = [complex(x, y) for x, y in d["spectrum"]]
            outv = [complex(x, y) for x, y in d["impl"]]
            sg = None if d["sigma"] == "None" else Fraction(d["sigma"])
            ok = oracle_selection(ctx, f"{d['call']}:{w}", d, allv, outv, w, sg, d["k"], tol=1e-9)
            if ok and d["sort"]:
                re = [x for x, _ in d["impl"]]
                if any(re[i] > re[i + 1] for i in range(len(re) - 1)):
                    ctx.violation(f"{d['call']}:not_sorted", "sort=True but the eigenvalues are not ascending", d)
            elif ok and not d["sort"]:
                ks = ref_keys(outv, w, sg)
                if any(ks[i] > ks[i + 1] + 1e-12 for i in range(len(ks) - 1)):
                    ctx.violation(f"{d['call']}:order", "sort=False but the eigenvalues are not in the rule's order", d)
        elif not (d["sigma"] == "None" and d["which"].upper() in ("TM", "TR", "TI") and d["call"] != "partial_default"):
            ctx.violation(f"{d['call']}:raised", f"valid call raised {d['impl']}", d)


# ----------------------------------------------------------------------------- (H) full spectrum, autoblock
def full_stream(ctx):
    import quimb as qu
    from quimb.linalg.numpy_linalg import eig_numpy

    rng = ctx.rng
    cases, info = [], {}
    for cid in range(1, ctx.n(200, 2500) + 1):
        herm = rng.random() < 0.7
        n = rng.randint(1, 16)
        if herm:
            spec0 = _spectrum(rng, n)
            cplx = rng.random() < 0.5
            A, _ = herm_exact(rng, spec0, complex_=cplx, scramble=rng.random() < 0.9)
            spec = [(x, 0) for x in spec0]
            strict = True
        else:
            A, spec, strict = nonherm_exact(rng, n, False, diag_only=rng.random() < 0.5)
            cplx = np.iscomplexobj(A)
        sort = rng.random() < 0.7
        rv = rng.random() < 0.5
        autoblock = herm and rng.random() < 0.5
        if autoblock and cplx and not rv and _STATE.get("autoblock_complex_vals_raises"):
            # numba fails to type this kernel (reported once below); every further call would only re-run the
            # failing compilation
            ctx.bump("full:autoblock:complex_values_only:skipped_after_first_failure")
            rv = True
        route = rng.choice(["eig_numpy", "top"])
        desc = {"call": route, "spectrum": spec, "isherm": herm, "sort": sort, "return_vecs": rv, "autoblock": autoblock,
                "complex": bool(cplx), "A": np.asarray(A).tolist() if n <= 6 else "n>6"}
        try:
            if route == "eig_numpy":
                out = eig_numpy(A, sort=sort, isherm=herm, return_vecs=rv, autoblock=autoblock)
            else:
                fn = {(True, True): qu.eigh, (True, False): qu.eigvalsh, (False, True): qu.eig, (False, False): qu.eigvals}[herm, rv]
                kw = {"autoblock": True} if autoblock else {}
                out = fn(A, sort=sort, **kw)
            lk, vk = out if rv else (out, None)
            vals, dev = to_cz(lk)
        except Exception as e:  # noqa: BLE001
            key = f"{route}:raised"
            if autoblock and cplx and not rv:
                key = "eigvalsh:autoblock:complex"
                _STATE["autoblock_complex_vals_raises"] = True
            ctx.violation(key, f"full eigendecomposition raised {type(e).__name__}: {str(e)[:160].splitlines()[0]}", desc)
            continue
        ctx.count(("full", tuple(spec), herm, sort, autoblock, rv), n > 1)
        ctx.bump(f"full:{'autoblock' if autoblock else 'direct'}:{'herm' if herm else 'nonherm'}")
        desc["impl"] = vals
        info[cid] = desc
        if dev > TOL_ROUND:
            ctx.violation(f"{route}:eigenvalue_not_genuine" + (":autoblock" if autoblock else ""),
                          f"returned eigenvalue is {dev:.2e} away from the exact spectrum", desc)
            continue
        cases.append((cid, f"full_check {blit(sort)} {blit(strict)} {czlist(spec)} {czlist(vals)}"))
        if vk is not None:
            _vec_checks(ctx, f"{route}:vectors" + (":autoblock" if autoblock else ""), desc, A, lk, vk, herm)
            if herm and np.asarray(vk).shape == A.shape:
                rec = np.asarray(vk) @ np.diag(np.asarray(lk)) @ np.asarray(vk).conj().T
                if not np.allclose(rec, A, atol=1e-8):
                    ctx.violation(f"{route}:reconstruction", "ev @ diag(el) @ ev.H != A", desc)
    bad = yield ("full_spectrum", cases, info)
    for d in bad:
        want = sorted(d["spectrum"])
        got = d["impl"]
        if sorted(got) != want:
            ctx.violation(f"{d['call']}:spectrum" + (":autoblock" if d["autoblock"] else ""),
                          "the returned eigenvalues are not the spectrum of the operator", d)
        elif d["sort"]:
            ctx.violation(f"{d['call']}:not_sorted" + (":autoblock" if d["autoblock"] else ""), "sort=True but the eigenvalues are not ascending", d)


# ----------------------------------------------------------------------------- (H) eigh_window
def window_stream(ctx):
    import quimb as qu
    import scipy.sparse as sp

    rng = ctx.rng
    cases, info = [], {}
    dy = [Fraction(i, 8) for i in range(0, 9)]
    for cid in range(1, ctx.n(260, 3000) + 1):
        n = rng.randint(2, 14)
        spec = _spectrum(rng, n, -6, 6)
        if max(spec) == min(spec):
            spec[0] += 1 + rng.randint(0, 3)
        A, _ = herm_exact(rng, spec, complex_=rng.random() < 0.4)
        w0 = rng.choice(dy)
        wsz = rng.choice([None, Fraction(1, 8), Fraction(1, 4), Fraction(1, 2), Fraction(3, 4), Fraction(1), Fraction(5, 4), Fraction(2)])
        k = rng.randint(1, n + 1)
        dense = rng.random() < 0.5
        fn = rng.choice(["eigh_window", "eigvalsh_window", "eigvecsh_window"])
        lo_, hi_ = min(spec), max(spec)
        rng_ = hi_ - lo_
        c = lo_ + w0 * rng_
        wz = Fraction(11, 10) if wsz is None else wsz
        lo_w, hi_w = c - wz * rng_ / 2, c + wz * rng_ / 2
        if wsz is None and any(abs(x - lo_w) < Fraction(1, 1000) or abs(x - hi_w) < Fraction(1, 1000) for x in spec):
            continue  # 1.1 is not a binary fraction: stay away from boundary ties
        if any(x == lo_w or x == hi_w for x in spec):
            # an eigenvalue exactly ON a boundary (strict inequality decides): use an exactly diagonal operator,
            # LAPACK then returns the integers themselves (no rounding noise that could move it across)
            sp_ = list(spec)
            rng.shuffle(sp_)
            A = np.diag([float(x) for x in sp_])
            ctx.bump("window:eigenvalue_on_boundary")
        backend = rng.choice(["AUTO", "auto", "numpy"]) if not dense else rng.choice(["AUTO", "numpy"])
        as_dense_route = dense or backend.upper() == "NUMPY"
        Ain = A if dense else sp.csr_matrix(A)
        desc = {"call": fn, "spectrum": spec, "w_0": str(w0), "w_sz": str(wsz), "k": k, "dense": dense, "backend": backend,
                "A": np.asarray(A).tolist() if n <= 6 else "n>6"}
        kw = {} if wsz is None else {"w_sz": float(wsz)}
        try:
            if fn == "eigh_window":
                lk, vk = qu.eigh_window(Ain, float(w0), k, backend=backend, **kw)
            elif fn == "eigvalsh_window":
                lk, vk = qu.eigvalsh_window(Ain, float(w0), k, backend=backend, **kw), None
            else:
                vk = qu.eigvecsh_window(Ain, float(w0), k, backend=backend, **kw)
                vk = np.asarray(vk)
                lk = np.real(np.einsum("ij,ij->j", vk.conj(), A @ vk)) if vk.size else np.zeros(0)
            vals, dev = to_cz(lk)
        except Exception as e:  # noqa: BLE001
            ctx.violation(f"{fn}:raised", f"valid call raised {type(e).__name__}: {str(e)[:120]}", desc)
            continue
        inside = [x for x in spec if lo_w < x < hi_w]
        ctx.count(("window", tuple(spec), str(w0), str(wsz), k, as_dense_route), 0 < len(inside) < n or k < len(inside))
        ctx.bump("window:" + ("dense_branch" if as_dense_route else "partial_branch"))
        out = [x for x, _ in vals]
        desc["impl"] = out
        desc["in_window"] = sorted(inside)
        info[cid] = desc
        if dev > TOL_ROUND:
            ctx.violation(f"{fn}:eigenvalue_not_genuine", f"returned eigenvalue is {dev:.2e} away from the exact spectrum", desc)
            continue
        cases.append((cid, f"negb (window_check {blit(as_dense_route)} {zlist(spec)} {qlit(w0)} {zlit(k)} {qopt(wsz)} (Some {zlist(out)}) =? 0)"))
        # direct oracle, representation independent: at most k values, all strictly inside the window, none closer left out
        if any(not (lo_w < x < hi_w) for x in out):
            ctx.violation(f"{fn}:outside_window", "a returned eigenvalue lies outside the requested window", desc)
        if len(out) > k:
            ctx.violation("eigh_window:dense:k_ignored" if as_dense_route else f"{fn}:more_than_k",
                          f"eigh_window returned {len(out)} eigenpairs for k={k} (documented: k eigenpairs; the partial branch returns at most k)", desc)
        elif len(out) < min(k, len(inside)):
            ctx.violation(f"{fn}:too_few", f"{len(inside)} eigenvalues lie in the window, k={k}, but only {len(out)} were returned", desc)
        if vk is not None and fn == "eigh_window":
            _vec_checks(ctx, f"{fn}:vectors", desc, A, lk, vk, True)
    # the arithmetic helper on its own (dyadic inputs: exact)
    from quimb.linalg.base_linalg import _rel_window_to_abs_window

    OFF = 100000
    for cid in range(OFF + 1, OFF + ctx.n(100, 1000) + 1):
        a, b = rng.randint(-20, 20), rng.randint(-20, 20)
        lo_, hi_ = min(a, b), max(a, b)
        w0 = Fraction(rng.randint(-4, 12), 8)
        wsz = rng.choice([None, Fraction(rng.randint(0, 16), 8)])
        got = _rel_window_to_abs_window(float(lo_), float(hi_), float(w0), None if wsz is None else float(wsz))
        got = [Fraction(x) for x in (got if wsz is not None else [got])]
        ctx.count(("relwin", lo_, hi_, str(w0), str(wsz)), lo_ != hi_)
        info[cid] = {"call": "_rel_window_to_abs_window", "args": [lo_, hi_, str(w0), str(wsz)], "impl": [str(x) for x in got]}
        if wsz is None:
            cases.append((cid, f"Qeq_bool (rel_window_centre {qlit(lo_)} {qlit(hi_)} {qlit(w0)}) {qlit(got[0])}"))
        else:
            cases.append((cid, f"let '(c, lo, hi) := rel_window {qlit(lo_)} {qlit(hi_)} {qlit(w0)} {qlit(wsz)} in "
                               f"Qeq_bool c {qlit(got[0])} && Qeq_bool lo {qlit(got[1])} && Qeq_bool hi {qlit(got[2])}"))
    bad = yield ("eigh_window", cases, info)
    for d in bad:
        if d["call"] == "_rel_window_to_abs_window":
            ctx.violation("_rel_window_to_abs_window", "window arithmetic differs from l_min + w_0 range -/+ w_sz range / 2", d)
        elif sorted(d["impl"]) != d["impl"]:
            ctx.violation(f"{d['call']}:not_sorted", "window eigenvalues are not ascending", d)
        elif d["dense"] and d["impl"] != d["in_window"]:
            ctx.violation(f"{d['call']}:dense:window", "dense branch does not return exactly the eigenvalues inside the window", d)


# ----------------------------------------------------------------------------- (H) compute_blocks
def ref_components(edges, d):
    parent = list(range(d))

    def find(x):
        while parent[x] != x:
            parent[x] = parent[parent[x]]
            x = parent[x]
        return x

    for i, j in edges:
        a, b = find(i), find(j)
        if a != b:
            parent[max(a, b)] = min(a, b)
    comp = {}
    for x in range(d):
        comp.setdefault(find(x), []).append(x)
    return sorted(sorted(c) for c in comp.values())


def blocks_stream(ctx):
    from quimb.linalg.autoblock import compute_blocks

    rng = ctx.rng
    cases, info = [], {}
    for cid in range(1, ctx.n(260, 3000) + 1):
        d = rng.randint(1, 14)
        mode = rng.choice(["sparse", "blocky", "sym", "dense", "empty"])
        edges = []
        if mode == "sparse":
            edges = [(rng.randrange(d), rng.randrange(d)) for _ in range(rng.randint(0, d))]
        elif mode == "blocky":
            lab = [rng.randint(0, 3) for _ in range(d)]
            edges = [(i, j) for i in range(d) for j in range(d) if lab[i] == lab[j] and rng.random() < 0.5]
        elif mode == "sym":
            e = [(rng.randrange(d), rng.randrange(d)) for _ in range(rng.randint(0, d))]
            edges = sorted(set(e + [(j, i) for i, j in e] + [(i, i) for i in range(d) if rng.random() < 0.7]))
        elif mode == "dense":
            edges = [(i, j) for i in range(d) for j in range(d) if rng.random() < 0.3]
        if mode != "sym" and rng.random() < 0.5:
            rng.shuffle(edges)
        ix = np.array([i for i, _ in edges], dtype=np.int64)
        jx = np.array([j for _, j in edges], dtype=np.int64)
        try:
            got = [[int(x) for x in g] for g in compute_blocks(ix, jx, d)]
        except Exception as e:  # noqa: BLE001
            ctx.violation("compute_blocks:raised", f"compute_blocks raised {type(e).__name__}", {"edges": edges, "d": d})
            continue
        ref = ref_components(edges, d)
        ctx.count(("blocks", tuple(edges), d), len(ref) > 1 and len(edges) > 0)
        ctx.bump("blocks:" + mode)
        info[cid] = {"call": "compute_blocks", "edges": edges, "d": d, "impl": got, "components": ref}
        if cid == 1:
            ctx.sample(info[cid])
        if got != ref:
            ctx.violation("compute_blocks:components", "compute_blocks does not return the connected components of the non-zero pattern", info[cid])
        el = "[" + "; ".join(f"({zlit(i)}, {zlit(j)})" for i, j in edges) + "]"
        bl = "[" + "; ".join(zlist(g) for g in got) + "]"
        cases.append((cid, f"blocks_check {el} {zlit(d)} {bl}"))
    yield ("compute_blocks", cases, info)


# ----------------------------------------------------------------------------- (H) backend choice / dispatch
class _Shape:
    """stand-in for a dense operator of a given size (choose_backend only reads .shape)"""

    def __init__(self, d):
        self.shape = (d, d)


def backend_stream(ctx):
    import quimb.linalg.base_linalg as bl
    import scipy.sparse as sp
    import scipy.sparse.linalg as spla

    rng = ctx.rng
    cases, info = [], {}
    cid = 0
    names = {"NUMPY": "NUMPY", "SCIPY": "SCIPY", "SLEPC": "SLEPC", "SLEPC-NOMPI": "SLEPC_NOMPI", "LOBPCG": "LOBPCG", "PRIMME": "PRIMME"}
    real_flag = bl.SLEPC4PY_FOUND
    ks = [1, 2, 3, 5, 7, 10, 50]
    try:
        for _ in range(ctx.n(350, 5000)):
            k = rng.choice(ks)
            int_eps = rng.random() < 0.5
            t = 10000 if int_eps else 2000
            d0 = math.isqrt(t * k)
            d = max(1, d0 + rng.randint(-3, 3)) if rng.random() < 0.8 else rng.randint(1, 400)
            rep = rng.choice(["dense", "sparse", "linop", "shape"])
            brep = rng.choice(["none", "none", "dense", "linop"])
            slepc = rng.random() < 0.4
            nnz = 0
            if rep == "dense":
                A = np.empty((d, d))
            elif rep == "shape":
                A = _Shape(d)
            elif rep == "sparse":
                if rng.random() < 0.5 and d >= 101:
                    m = rng.choice([99, 100, 101, 102])
                    M = np.zeros((d, d))
                    M[:m, :m] = 1.0
                    A = sp.csr_matrix(M)
                else:
                    A = sp.identity(d, format="csr")
                nnz = int(A.nnz)
            else:
                A = spla.aslinearoperator(sp.identity(d, format="csr"))
            B = None if brep == "none" else (np.empty((d, d)) if brep == "dense" else spla.aslinearoperator(sp.identity(d, format="csr")))
            kk = k if rng.random() < 0.95 else rng.choice([0, -1])
            bl.SLEPC4PY_FOUND = slepc
            try:
                got = bl.choose_backend(A, kk, int_eps, B=B)
            except ZeroDivisionError:
                got = None
            cid += 1
            ctx.count(("choose_backend", d, kk, int_eps, rep, brep, slepc, nnz), abs(d - d0) <= 3)
            ctx.bump("choose_backend:" + str(got))
            info[cid] = {"call": "choose_backend", "d": d, "k": kk, "int_eps": int_eps, "A": rep, "B": brep, "slepc_found": slepc, "nnz": nnz, "impl": got}
            impl = "None" if got is None else f"(Some {names[got]})"
            cases.append((cid, f"backend_check (choose_backend {zlit(d)} {zlit(kk)} {blit(int_eps)} {blit(rep == 'linop')} {blit(brep == 'linop')} "
                               f"{blit(slepc)} {blit(rep == 'sparse')} {zlit(nnz)}) {impl}"))
    finally:
        bl.SLEPC4PY_FOUND = real_flag
    # eigensystem_partial dispatch: which solver is actually called, with which `which`
    real = dict(bl._EIGS_METHODS)
    seen = {}

    def spy(name):
        def f(A, **kw):
            seen["name"] = name
            seen["which"] = kw.get("which")
            seen["sigma"] = kw.get("sigma")
            return np.zeros(kw.get("k", 1))
        return f

    try:
        for nm in real:
            bl._EIGS_METHODS[nm] = spy(nm)
        for _ in range(ctx.n(200, 3000)):
            k = rng.choice(ks[:5])
            sig = rng.choice([None, 0.5])
            t = 10000 if sig is not None else 2000
            d0 = math.isqrt(t * k)
            d = max(2, d0 + rng.randint(-2, 2))
            rep = rng.choice(["dense", "sparse", "linop"])
            A = np.empty((d, d)) if rep == "dense" else sp.identity(d, format="csr")
            if rep == "linop":
                A = spla.aslinearoperator(A)
            req = rng.choice([None, None, "auto", "AUTO", "numpy", "Scipy", "LOBPCG", "slepc-nompi"])
            which = rng.choice([None, None, "SA", "la", "LM", "TR", "sm"])
            seen.clear()
            try:
                bl.eigensystem_partial(A, k, isherm=True, which=which, sigma=sig, backend=req, return_vecs=False)
            except Exception as e:  # noqa: BLE001
                ctx.violation("eigensystem_partial:dispatch:raised", f"dispatch raised {type(e).__name__}", {"d": d, "k": k, "backend": req})
                continue
            cid += 1
            ctx.count(("dispatch", d, k, sig, rep, req, which), True)
            ctx.bump("dispatch:" + str(seen.get("name")))
            info[cid] = {"call": "eigensystem_partial(dispatch)", "d": d, "k": k, "sigma": sig, "A": rep, "backend": req, "which": which,
                         "impl_backend": seen.get("name"), "impl_which": seen.get("which")}
            reqlit = "None" if (req is None or req.upper() == "AUTO") else f"(Some {names[req.upper()]})"
            nnz = d if rep == "sparse" else 0
            sq = "None" if sig is None else "(Some (Qmake 1 2))"
            cases.append((cid, f"backend_check (dispatch {reqlit} {zlit(d)} {zlit(k)} {blit(sig is not None)} {blit(rep == 'linop')} false "
                               f"{blit(real_flag)} {blit(rep == 'sparse')} {zlit(nnz)}) (Some {names[seen['name']]}) "
                               f"&& rule_eqb (resolve_which {rule_opt(which)} {sq}) {str(seen['which']).upper()}"))
    finally:
        bl._EIGS_METHODS.update(real)
    # scipy's `which` conversion, observed at scipy's own entry points
    import quimb.linalg.scipy_linalg as sl

    real_eigsh, real_eigs = sl.spla.eigsh, sl.spla.eigs
    got = {}

    def fake(A, **kw):
        got.update(kw)
        return np.zeros(kw["k"])

    try:
        sl.spla.eigsh = fake
        sl.spla.eigs = fake
        for which in [None] + RULES:
            for sig in [None, Fraction(1, 2)]:
                for herm in [True, False]:
                    got.clear()
                    sl.eigs_scipy(np.eye(4), 2, which=which, sigma=None if sig is None else float(sig), isherm=herm, return_vecs=False)
                    cid += 1
                    ctx.count(("scipy_which", which, str(sig), herm), True)
                    info[cid] = {"call": "eigs_scipy(which conversion)", "which": which, "sigma": str(sig), "impl": got.get("which")}
                    cases.append((cid, f"rule_eqb (scipy_which {rule_opt(which)} {qopt(sig)}) {got['which']}"))
    finally:
        sl.spla.eigsh, sl.spla.eigs = real_eigsh, real_eigs
    # expm_multiply AUTO
    real_methods = dict(bl._EXPM_MULTIPLY_METHODS)
    try:
        for nm in real_methods:
            bl._EXPM_MULTIPLY_METHODS[nm] = (lambda nm_: (lambda mat, vec, **kw: nm_))(nm)
        for size in [1, 1023, 1024, 1025, 4096]:
            for slepc in [False, True]:
                bl.SLEPC4PY_FOUND = slepc
                r = bl.expm_multiply(None, np.zeros(size))
                cid += 1
                ctx.count(("expm_multiply_auto", size, slepc), True)
                info[cid] = {"call": "expm_multiply(AUTO)", "size": size, "slepc_found": slepc, "impl": r}
                cases.append((cid, f"backend_eqb (expm_multiply_backend {blit(slepc)} {zlit(size)}) {names[r]}"))
    finally:
        bl.SLEPC4PY_FOUND = real_flag
        bl._EXPM_MULTIPLY_METHODS.update(real_methods)
    bad = yield ("backend_choice", cases, info)
    for d in bad:
        ctx.violation("backend_choice:" + d["call"], "backend / rule chosen differs from the decision table of the model", d)


# =============================================================================
# Oracle streams (tests at tolerance; searchers for concrete failing inputs)
# =============================================================================
def _seed_libs(seed):
    """quimb's own generator (lobpcg / rsvd start vectors) and numpy's global state (scipy svds) are seeded too"""
    import quimb as qu

    qu.seed_rand(seed)
    np.random.seed(seed % (2**32))


def _rand_herm(g, d, cplx, gap=True):
    X = g.normal(size=(d, d))
    if cplx:
        X = X + 1j * g.normal(size=(d, d))
    return (X + X.conj().T) / 2


def _rand_spd(g, d, cplx):
    Y = g.normal(size=(d, d))
    if cplx:
        Y = Y + 1j * g.normal(size=(d, d))
    return Y @ Y.conj().T / d + np.eye(d)


def _as_rep(M, rep):
    import quimb as qu
    import scipy.sparse as sp
    import scipy.sparse.linalg as spla

    if M is None:
        return None
    if rep == "dense":
        return M
    if rep == "qarray":
        return qu.qarray(M)
    if rep == "sparse":
        return sp.csr_matrix(M)
    if rep == "linop":
        return spla.aslinearoperator(M)
    if rep == "lazy":
        return qu.Lazy(lambda: M, shape=M.shape)
    raise ValueError(rep)


def partial_oracle(ctx):
    import quimb as qu
    import scipy.linalg as sla
    from scipy.sparse.linalg import ArpackNoConvergence

    rng = ctx.rng
    g = np.random.default_rng(ctx.seed + 1701)
    _seed_libs(ctx.seed + 1701)
    N = ctx.n(400, 3000)
    for it in range(N):
        herm = rng.random() < 0.75
        k = rng.choice([1, 1, 2, 3, 5])
        backend = rng.choice(["numpy", "scipy", "lobpcg", None, None, "auto"]) if herm else rng.choice(["numpy", "scipy", None])
        with_sigma = herm and backend != "lobpcg" and rng.random() < 0.35
        if with_sigma:
            k = rng.choice([1, 1, 2])  # threshold d^2/k = 10000: keep d <= 143
        t = 10000 if with_sigma else 2000
        d0 = math.isqrt(t * k)
        if rng.random() < 0.6:
            d = d0 + rng.choice([-1, 0, 1, 2])  # on both sides of the automatic threshold
        else:
            d = rng.randint(max(6, 2 * k + 2), 40)
        if backend == "lobpcg":
            d = min(d, 46)
            d = max(d, 5 * k + 2)
        cplx = rng.random() < 0.5
        rep = rng.choice(["dense", "sparse", "linop", "qarray", "lazy"])
        if backend == "numpy" and rep == "linop":
            rep = "dense"  # a dense solver cannot take a matrix-free operator (explicit request): outside the domain
        brep = None
        if herm and rng.random() < 0.3 and rep != "lazy":
            brep = rng.choice(["dense", "sparse"])
        if herm:
            A = _rand_herm(g, d, cplx)
            B = _rand_spd(g, d, cplx) if brep else None
            if backend == "lobpcg":
                choices = ["SA", "LA", None]
            elif backend == "numpy":
                choices = ["SA", "LA", "LM", "SM", None] if not with_sigma else [None, "TR", "TM"]
            else:
                choices = ["SA", "LA", "LM", None] if not with_sigma else [None, "TR"]
            which = rng.choice(choices)
            if with_sigma and rep == "linop":
                rep = "sparse"  # shift-invert of a matrix-free operator needs a user supplied inverse
            if with_sigma and B is not None and backend != "numpy" and rep in ("linop",):
                rep = "dense"
            allv = sla.eigh(A, B, eigvals_only=True) if B is not None else np.linalg.eigvalsh(A)
            sigma = None
            if with_sigma:
                j = rng.randrange(d)
                sigma = float(allv[j] + 0.3 * (allv[min(j + 1, d - 1)] - allv[j]) + 1e-3)
        else:
            X = g.normal(size=(d, d)) + 1j * g.normal(size=(d, d))
            A = X
            B = None
            which = rng.choice(["LM", "LR", "SR", "LI", "SI"] + (["SM"] if backend == "numpy" or (backend is None and d * d / k < 2000) else []))
            allv = np.linalg.eigvals(A)
            sigma = None
            if rep in ("lazy",):
                rep = "dense"
        eff_which = which if which is not None else ("TR" if sigma is not None else "SA")
        rv = rng.random() < 0.7
        opts = {}
        if backend == "lobpcg":
            opts = {"maxiter": 400, "tol": 1e-10}
        use_v0 = herm and rng.random() < 0.2
        if use_v0:
            # documented: "v0 : None or 1D-array like - an initial vector guess to iterate with"
            v0 = g.normal(size=d) + (1j * g.normal(size=d) if cplx else 0)
            opts["v0"] = v0
        desc = {"call": "eigensystem_partial", "d": d, "k": k, "isherm": herm, "complex": cplx, "backend": backend, "A": rep, "B": brep,
                "which": which, "sigma": sigma, "return_vecs": rv, "v0": "1-D vector" if use_v0 else None,
                "np_seed": ctx.seed + 1701, "iteration": it}
        auto_numpy = backend in (None, "auto") and rep != "linop" and d * d / k < t
        tag = backend if backend not in (None, "auto") else ("auto->numpy" if auto_numpy else "auto->scipy")
        key = f"partial:{tag}:{rep}:{'herm' if herm else 'nonherm'}" + (f":B_{brep}" if brep else "")
        ctx.count(("partial_oracle", it), abs(d - d0) <= 2)
        ctx.bump("oracle:" + key)
        try:
            out = qu.eigensystem_partial(_as_rep(A, rep), k, isherm=herm, B=_as_rep(B, brep), which=which, sigma=sigma,
                                         return_vecs=rv, backend=backend, **opts)
        except ArpackNoConvergence:
            ctx.bump("oracle:arpack_no_convergence")
            continue
        except Exception as e:  # noqa: BLE001
            kk = key + ":raised"
            if brep == "sparse" and tag in ("numpy", "auto->numpy"):
                kk = "eigs_numpy:generalized:B_sparse"
            elif backend == "lobpcg" and use_v0 and k > 1:
                kk = "eigs_lobpcg:v0_fewer_columns_than_k"
            ctx.violation(kk, f"valid call raised {type(e).__name__}: {str(e)[:120]}", {**desc, "error": str(e)[:200]})
            continue
        lk, vk = out if rv else (out, None)
        lk = np.asarray(lk)
        tol = 1e-3 if backend == "lobpcg" else 1e-7  # lobpcg is documented as inaccurate
        recheck = None
        if tag in ("scipy", "auto->scipy"):
            def recheck(A=A, B=B, k=k, which=which, sigma=sigma, herm=herm, opts=dict(opts)):
                # the same call quimb.linalg.scipy_linalg.eigs_scipy makes (its option mapping), straight to ARPACK
                import scipy.sparse.linalg as spla_
                w = ("SA" if (which is None and sigma is None) else "LM" if (which is None or "T" in which.upper()) and sigma is not None
                     else which)
                fn = spla_.eigsh if herm else spla_.eigs
                return fn(A, k=k, M=B, which=w, sigma=sigma, return_eigenvectors=False, tol=0, **opts)
        ok = oracle_selection(ctx, key, desc, allv, lk, eff_which, sigma, k, tol=tol, backend_recheck=recheck)
        if not ok:
            continue
        # documented order: ascending
        if np.any(np.diff(lk.real) < -tol * max(1.0, float(np.abs(lk).max()))):
            ctx.violation(key + ":not_sorted", "eigenvalues are not returned in ascending order (sort=True is the default)", desc)
        if vk is not None:
            vk = np.asarray(vk)
            if vk.shape != (d, k):
                ctx.violation(key + ":shape", f"eigenvectors have shape {vk.shape}, expected {(d, k)}", desc)
                continue
            Bm = B if B is not None else np.eye(d)
            res = float(np.abs(A @ vk - (Bm @ vk) * lk[None, :]).max())
            scale = max(1.0, float(np.abs(A).max()))
            if not res <= (1e-2 if backend == "lobpcg" else 1e-7) * scale * d:
                ctx.violation(key + ":residual", f"max |A v - lambda B v| = {res:.2e}", {**desc, "residual": res})
            if herm:
                gd = float(np.abs(vk.conj().T @ Bm @ vk - np.eye(k)).max())
                if not gd <= (1e-4 if backend == "lobpcg" else 1e-7):
                    ctx.violation(key + ":orthonormality", f"max |V^dag B V - 1| = {gd:.2e}", {**desc, "gram_defect": gd})
    # fallback_to_scipy: a failing backend is retried with scipy
    A = _rand_herm(g, 30, False)
    import scipy.sparse.linalg as spla

    try:
        with warnings.catch_warnings():
            warnings.simplefilter("ignore")
            lk = qu.eigensystem_partial(spla.aslinearoperator(A), 2, isherm=True, backend="numpy", fallback_to_scipy=True, return_vecs=False)
        if not np.allclose(np.asarray(lk), np.linalg.eigvalsh(A)[:2], atol=1e-8):
            ctx.violation("partial:fallback_to_scipy:value", "fallback_to_scipy result differs from the lowest eigenvalues", {"d": 30})
    except Exception as e:  # noqa: BLE001
        ctx.violation("partial:fallback_to_scipy:raised", f"fallback_to_scipy=True still raised {type(e).__name__}", {"d": 30})
    # groundstate / groundenergy / bound_spectrum
    for rep in ("dense", "sparse"):
        A = _rand_herm(g, 46, True)
        ev = np.linalg.eigvalsh(A)
        try:
            e0 = qu.groundenergy(_as_rep(A, rep))
            psi = np.asarray(qu.groundstate(_as_rep(A, rep)))
            lo_, hi_ = qu.bound_spectrum(_as_rep(A, rep))
            okk = abs(e0 - ev[0]) < 1e-8 and abs(lo_ - ev[0]) < 1e-8 and abs(hi_ - ev[-1]) < 1e-8 and \
                np.abs(A @ psi - ev[0] * psi).max() < 1e-7 and psi.shape == (46, 1)
            if not okk:
                ctx.violation(f"groundstate:{rep}", "groundenergy / groundstate / bound_spectrum disagree with the dense spectrum", {"rep": rep})
        except Exception as e:  # noqa: BLE001
            ctx.violation(f"groundstate:{rep}:raised", f"raised {type(e).__name__}: {str(e)[:100]}", {"rep": rep})


def svd_oracle(ctx):
    import quimb as qu
    from quimb.linalg.rand_linalg import estimate_rank, rsvd

    rng = ctx.rng
    g = np.random.default_rng(ctx.seed + 1702)
    _seed_libs(ctx.seed + 1702)
    for it in range(ctx.n(200, 1500)):
        k = rng.choice([1, 2, 3, 4])
        d0 = math.isqrt(2000 * k)
        m = d0 + rng.choice([-1, 0, 1]) if rng.random() < 0.5 else rng.randint(k + 2, 40)
        n = rng.randint(k + 2, 50)
        cplx = rng.random() < 0.5
        A = g.normal(size=(m, n)) + (1j * g.normal(size=(m, n)) if cplx else 0)
        backend = rng.choice(["numpy", "scipy", "AUTO", "auto"])
        rep = rng.choice(["dense", "sparse", "linop", "qarray"])
        if backend == "numpy" and rep == "linop":
            rep = "dense"
        rv = rng.random() < 0.7
        sref = np.linalg.svd(A, compute_uv=False)
        desc = {"call": "svds", "shape": [m, n], "k": k, "backend": backend, "A": rep, "complex": cplx, "return_vecs": rv,
                "np_seed": ctx.seed + 1702, "iteration": it}
        key = f"svds:{backend.lower()}:{rep}"
        ctx.count(("svds", it), abs(m - d0) <= 1)
        ctx.bump("oracle:" + key)
        try:
            out = qu.svds(_as_rep(A, rep), k, return_vecs=rv, backend=backend)
        except Exception as e:  # noqa: BLE001
            ctx.violation(key + ":raised", f"valid call raised {type(e).__name__}: {str(e)[:120]}", desc)
            continue
        if rv:
            U, s, VH = (np.asarray(x) for x in out)
        else:
            s = np.asarray(out)
        if s.shape != (k,) or not np.allclose(s, sref[:k], rtol=1e-7, atol=1e-9):
            ctx.violation(key + ":values", "svds does not return the k largest singular values in descending order", {**desc, "got": s.tolist(), "want": sref[:k].tolist()})
            continue
        if rv:
            if U.shape != (m, k) or VH.shape != (k, n):
                ctx.violation(key + ":shape", f"singular vectors have shapes {U.shape}, {VH.shape}", desc)
                continue
            e1 = float(np.abs(A @ VH.conj().T - U * s[None, :]).max())
            e2 = float(np.abs(A.conj().T @ U - VH.conj().T * s[None, :]).max())
            e3 = float(np.abs(U.conj().T @ U - np.eye(k)).max())
            e4 = float(np.abs(VH @ VH.conj().T - np.eye(k)).max())
            if max(e1, e2, e3, e4) > 1e-7 * max(1.0, s[0]):
                ctx.violation(key + ":triplets", "A v = s u, A^dag u = s v, orthonormality violated", {**desc, "defects": [e1, e2, e3, e4]})
    # full svd, norms
    for it in range(ctx.n(40, 300)):
        m, n = rng.randint(1, 12), rng.randint(1, 12)
        cplx = rng.random() < 0.5
        A = g.normal(size=(m, n)) + (1j * g.normal(size=(m, n)) if cplx else 0)
        sref = np.linalg.svd(A, compute_uv=False)
        ctx.count(("svd_norms", it), True)
        try:
            U, s, VH = (np.asarray(x) for x in qu.svd(A))
            if not np.allclose(U @ np.diag(s) @ VH, A, atol=1e-10) or not np.allclose(s, sref):
                ctx.violation("svd:full", "U diag(s) VH != A", {"shape": [m, n]})
            import scipy.sparse as sp

            chk = {
                "2:dense": (qu.norm(A, 2), sref[0]), "spectral:dense": (qu.norm(A, "spectral"), sref[0]),
                "fro:dense": (qu.norm(A, "fro"), math.sqrt(float((np.abs(A) ** 2).sum()))),
                "f:sparse": (qu.norm(sp.csr_matrix(A), "f"), math.sqrt(float((np.abs(A) ** 2).sum()))),
                "trace:dense": (qu.norm(A, "trace"), float(sref.sum())), "nuc:dense": (qu.norm(A, "nuc"), float(sref.sum())),
            }
            if min(m, n) >= 3:
                chk["2:sparse"] = (qu.norm(sp.csr_matrix(A), 2), sref[0])
            if m == n:
                H = (A + A.conj().T) / 2
                chk["tr:herm"] = (qu.norm(H, "tr", isherm=True), float(np.abs(np.linalg.eigvalsh(H)).sum()))
            for nm, (got, want) in chk.items():
                if not abs(got - want) <= 1e-8 * max(1.0, abs(want)):
                    ctx.violation("norm:" + nm, f"norm differs from its definition: {got} vs {want}", {"shape": [m, n], "complex": cplx, "ntype": nm})
        except Exception as e:  # noqa: BLE001
            ctx.violation("norm:raised", f"svd / norm raised {type(e).__name__}: {str(e)[:120]}", {"shape": [m, n]})
    # randomized SVD on exactly low-rank operators
    for it in range(ctx.n(30, 300)):
        m, n = rng.randint(12, 60), rng.randint(12, 60)
        r = rng.randint(1, 6)
        cplx = rng.random() < 0.5
        L = g.normal(size=(m, r)) + (1j * g.normal(size=(m, r)) if cplx else 0)
        R = g.normal(size=(r, n)) + (1j * g.normal(size=(r, n)) if cplx else 0)
        A = L @ R
        sref = np.linalg.svd(A, compute_uv=False)
        mode = rng.choice(["k", "eps:adapt+block", "eps:adapt"])
        desc = {"call": "rsvd", "shape": [m, n], "rank": r, "complex": cplx, "mode": mode, "np_seed": ctx.seed + 1702}
        ctx.count(("rsvd", it), True)
        ctx.bump("oracle:rsvd:" + mode)
        try:
            if mode == "k":
                U, s, VH = rsvd(A, r)
            else:
                U, s, VH = rsvd(A, 1e-8, mode=mode.split(":")[1])
            U, s, VH = np.asarray(U), np.asarray(s), np.asarray(VH)
            err = float(np.abs(U @ np.diag(s) @ VH - A).max())
            if err > 1e-6 * sref[0]:
                ctx.violation("rsvd:" + mode, f"U diag(s) VH differs from the rank-{r} operator by {err:.1e}", desc)
            if not np.allclose(s[:r], sref[:r], rtol=1e-6):
                ctx.violation("rsvd:values:" + mode, "leading singular values differ from the exact ones", desc)
            for sli in (True, False):
                rk = estimate_rank(A, 1e-8, use_sli=sli)
                if not (r <= rk <= min(m, n)):
                    ctx.violation("estimate_rank", f"estimate_rank = {rk} for an operator of exact rank {r}", {**desc, "use_sli": sli})
        except Exception as e:  # noqa: BLE001
            ctx.violation("rsvd:raised", f"rsvd / estimate_rank raised {type(e).__name__}: {str(e)[:120]}", desc)


def matfun_oracle(ctx):
    import quimb as qu
    import scipy.linalg as sla
    import scipy.sparse as sp

    rng = ctx.rng
    g = np.random.default_rng(ctx.seed + 1703)
    _seed_libs(ctx.seed + 1703)
    for it in range(ctx.n(120, 1000)):
        d = rng.randint(1, 14)
        cplx = rng.random() < 0.6
        herm = rng.random() < 0.5
        A = _rand_herm(g, d, cplx) if herm else (g.normal(size=(d, d)) + (1j * g.normal(size=(d, d)) if cplx else 0)) / max(1, d) ** 0.5
        t = rng.choice([1.0, -0.5, 1j, -0.3j]) if cplx else rng.choice([1.0, -0.5])
        M = t * A
        ref = sla.expm(M)
        desc = {"call": "expm", "d": d, "complex": cplx, "herm_input": herm, "factor": str(t), "np_seed": ctx.seed + 1703, "iteration": it}
        ctx.count(("matfun", it), d > 1)
        ctx.bump("oracle:expm")
        scale = max(1.0, float(np.abs(ref).max()))
        try:
            E1 = np.asarray(qu.expm(M))
            E2 = qu.expm(sp.csr_matrix(M))
            E2 = E2.toarray() if sp.issparse(E2) else np.asarray(E2)
            if not np.allclose(E1, ref, atol=1e-9 * scale):
                ctx.violation("expm:dense", "expm(A) differs from the matrix exponential", desc)
            if not np.allclose(E2, ref, atol=1e-9 * scale):
                ctx.violation("expm:sparse", "expm(sparse A) differs from the matrix exponential", desc)
            if herm and t in (1.0, -0.5):
                E3 = np.asarray(qu.expm(M, herm=True))
                if not np.allclose(E3, ref, atol=1e-9 * scale):
                    ctx.violation("expm:herm", "expm(A, herm=True) differs from the matrix exponential", desc)
            if not np.allclose(E1 @ np.asarray(qu.expm(-M)), np.eye(d), atol=1e-8 * scale):
                ctx.violation("expm:inverse", "expm(A) expm(-A) != 1", desc)
            v = g.normal(size=(d, 1)) + (1j * g.normal(size=(d, 1)) if cplx else 0)
            for rep in ("dense", "sparse", "linop"):
                w = np.asarray(qu.expm_multiply(_as_rep(M, rep), v, backend=rng.choice(["AUTO", "SCIPY", "scipy"])))
                if w.shape != v.shape or not np.allclose(w, ref @ v, atol=1e-8 * scale * max(1.0, float(np.abs(v).max()))):
                    ctx.violation("expm_multiply:" + rep, "expm_multiply(A, v) differs from expm(A) @ v", {**desc, "A": rep})
        except Exception as e:  # noqa: BLE001
            ctx.violation("expm:raised", f"expm / expm_multiply raised {type(e).__name__}: {str(e)[:120]}", desc)
        # square roots
        try:
            P = _rand_spd(g, d, cplx) - 0.5 * np.eye(d)
            S = np.asarray(qu.sqrtm(P))
            if not np.allclose(S @ S, P, atol=1e-9 * max(1.0, float(np.abs(P).max()))) or not np.allclose(S, S.conj().T, atol=1e-9):
                ctx.violation("sqrtm:herm", "sqrtm(A, herm=True)^2 != A (or the root is not hermitian)", {**desc, "call": "sqrtm"})
            if np.linalg.eigvalsh((S + S.conj().T) / 2).min() < -1e-9:
                ctx.violation("sqrtm:herm:principal", "sqrtm of a positive operator is not the positive root", {**desc, "call": "sqrtm"})
            G = np.eye(d) * (d + 2) + A / max(1.0, float(np.abs(A).max()))
            S2 = np.asarray(qu.sqrtm(G, herm=False))
            if not np.allclose(S2 @ S2, G, atol=1e-8):
                ctx.violation("sqrtm:general", "sqrtm(A, herm=False)^2 != A", {**desc, "call": "sqrtm"})
            # negative eigenvalues: the root is complex and still squares to A
            Hn = _rand_herm(g, d, cplx)
            S3 = np.asarray(qu.sqrtm(Hn))
            if not np.allclose(S3 @ S3, Hn, atol=1e-8 * max(1.0, float(np.abs(Hn).max()))):
                ctx.violation("sqrtm:herm:indefinite", "sqrtm(A)^2 != A for an indefinite hermitian A", {**desc, "call": "sqrtm"})
            try:
                qu.sqrtm(sp.csr_matrix(P))
                ctx.violation("sqrtm:sparse_accepted", "sqrtm of a sparse operator must be rejected (NotImplementedError)", {"d": d})
            except NotImplementedError:
                ctx.bump("oracle:sqrtm_sparse_rejected")
        except Exception as e:  # noqa: BLE001
            ctx.violation("sqrtm:raised", f"sqrtm raised {type(e).__name__}: {str(e)[:120]}", desc)
    # IdentityLinearOperator
    from quimb.linalg.base_linalg import IdentityLinearOperator

    for f in (1, 1 / 3, -2.5):  # documented: factor is a float
        I3 = IdentityLinearOperator(7, f)
        v = g.normal(size=7) + 1j * g.normal(size=7)
        Mx = g.normal(size=(7, 3))
        if not (np.allclose(I3 @ v, f * v) and np.allclose(I3.matmat(Mx), f * Mx) and np.allclose(I3.rmatvec(v), f * v)):
            ctx.violation("IdentityLinearOperator", "does not act as factor * identity", {"factor": str(f)})


def autoblock_oracle(ctx):
    import quimb as qu

    rng = ctx.rng
    g = np.random.default_rng(ctx.seed + 1704)
    _seed_libs(ctx.seed + 1704)
    for it in range(ctx.n(120, 1000)):
        nb = rng.randint(1, 5)
        sizes = [rng.randint(1, 5) for _ in range(nb)]
        d = sum(sizes)
        cplx = rng.random() < 0.5
        A = np.zeros((d, d), dtype=complex if cplx else float)
        i = 0
        for s in sizes:
            A[i:i + s, i:i + s] = _rand_herm(g, s, cplx)
            if rng.random() < 0.3 and s > 1:
                A[i, i + 1] = A[i + 1, i] = 0.0  # possibly splits a block further
            i += s
        p = list(range(d))
        rng.shuffle(p)
        A = A[np.ix_(p, p)]
        ref = np.linalg.eigvalsh(A)
        rv = rng.random() < 0.6
        if cplx and not rv and _STATE.get("autoblock_complex_vals_raises"):
            rv = True
        sort = rng.random() < 0.8
        desc = {"call": "eigh(autoblock=True)" if rv else "eigvalsh(autoblock=True)", "block_sizes": sizes, "complex": cplx, "sort": sort,
                "np_seed": ctx.seed + 1704, "iteration": it}
        ctx.count(("autoblock", it), nb > 1)
        ctx.bump("oracle:autoblock:" + ("vecs" if rv else "vals") + (":complex" if cplx else ":real"))
        try:
            if rv:
                el, ev = qu.eigh(A, autoblock=True, sort=sort)
            else:
                el, ev = qu.eigvalsh(A, autoblock=True, sort=sort), None
        except Exception as e:  # noqa: BLE001
            key = "eigvalsh:autoblock:complex" if (cplx and not rv) else "autoblock:raised"
            if cplx and not rv:
                _STATE["autoblock_complex_vals_raises"] = True
            ctx.violation(key, f"autoblocked eigendecomposition raised {type(e).__name__}: {str(e)[:100].splitlines()[0]}", desc)
            continue
        el = np.asarray(el)
        if not np.allclose(np.sort(el), ref, atol=1e-9 * max(1.0, float(np.abs(ref).max()))):
            ctx.violation("autoblock:spectrum", "autoblocked spectrum differs from the direct spectrum", desc)
            continue
        if sort and np.any(np.diff(el) < -1e-12):
            ctx.violation("autoblock:not_sorted", "autoblocked eigenvalues are not ascending", desc)
        if ev is not None:
            _vec_checks(ctx, "autoblock:vectors", desc, A, el, ev, True)


def spectral_oracle(ctx):
    """approx_spectral: the deterministic core.  With a full Krylov space (k = d, tau = 0) and a given start vector v0
    the Lanczos quadrature is exact: approx_spectral_function(A, f, v0=v0) = d <v0| f(A) |v0>; the lazy partial-trace
    (and partial-transpose) linear operators act as the explicit reduced operators.  The stochastic estimators
    (tr_*_approx with random vectors) are documented as approximate and are not asserted."""
    import quimb as qu
    import scipy.linalg as sla
    from quimb.linalg.approx_spectral import approx_spectral_function, lazy_ptr_linop, lazy_ptr_ppt_linop

    rng = ctx.rng
    g = np.random.default_rng(ctx.seed + 1705)
    for it in range(ctx.n(40, 400)):
        d = rng.randint(2, 24)
        cplx = rng.random() < 0.5
        P = _rand_spd(g, d, cplx) - 0.5 * np.eye(d)
        v0 = g.normal(size=(d, 1)) + (1j * g.normal(size=(d, 1)) if cplx else 0)
        v0 /= np.linalg.norm(v0)
        name = rng.choice(["exp", "sqrt", "id", "xlogx"])
        f, F = {"exp": (np.exp, lambda: sla.expm(P)), "sqrt": (np.sqrt, lambda: sla.sqrtm(P)), "id": (lambda x: x, lambda: P),
                "xlogx": (lambda x: x * np.log2(x), lambda: P @ sla.logm(P) / math.log(2))}[name]
        want = d * float(np.real(v0.conj().T @ F() @ v0)[0, 0])
        rep = rng.choice(["dense", "sparse", "linop"])
        desc = {"call": "approx_spectral_function", "d": d, "f": name, "A": rep, "complex": cplx, "np_seed": ctx.seed + 1705, "iteration": it}
        ctx.count(("lanczos_quadrature", it), True)
        ctx.bump("oracle:lanczos_quadrature:" + rep)
        try:
            got = approx_spectral_function(_as_rep(P, rep), f, v0=v0.copy(), tol=0, tau=0, k_min=d, k_max=d, single_precision=False)
            if not abs(got - want) <= 1e-7 * max(1.0, abs(want)):
                ctx.violation("approx_spectral:lanczos_quadrature", f"full-space Lanczos quadrature {got} != d <v0|f(A)|v0> = {want}", desc)
        except Exception as e:  # noqa: BLE001
            ctx.violation("approx_spectral:raised", f"raised {type(e).__name__}: {str(e)[:120]}", desc)
    for it in range(ctx.n(30, 300)):
        n = rng.randint(2, 4)
        dims = [rng.randint(2, 3) for _ in range(n)]
        D = int(np.prod(dims))
        psi = g.normal(size=(D, 1)) + 1j * g.normal(size=(D, 1))
        psi /= np.linalg.norm(psi)
        sysa = sorted(rng.sample(range(n), rng.randint(1, n - 1)))
        ctx.count(("lazy_ptr", it), True)
        desc = {"call": "lazy_ptr_linop", "dims": dims, "sysa": sysa}
        try:
            L = lazy_ptr_linop(psi, dims, sysa)
            rho = np.asarray(qu.ptr(psi, dims, sysa))
            v = g.normal(size=rho.shape[0]) + 1j * g.normal(size=rho.shape[0])
            if L.shape != rho.shape or not np.allclose(L @ v, rho @ v, atol=1e-10):
                ctx.violation("lazy_ptr_linop", "lazy partial-trace operator differs from the reduced density operator", desc)
            rest = [i for i in range(n) if i not in sysa]
            if rest and len(sysa) >= 1:
                sysb = sorted(rng.sample(rest, rng.randint(1, len(rest))))
                keep = sorted(sysa + sysb)
                L2 = lazy_ptr_ppt_linop(psi, dims, sysa, sysb)
                rab = np.asarray(qu.ptr(psi, dims, keep)) if len(keep) < n else psi @ psi.conj().T
                sub = [dims[i] for i in keep]
                pt = np.asarray(qu.partial_transpose(rab, sub, [keep.index(i) for i in sysa]))
                v = g.normal(size=pt.shape[0]) + 1j * g.normal(size=pt.shape[0])
                if L2.shape != pt.shape or not np.allclose(L2 @ v, pt @ v, atol=1e-10):
                    ctx.violation("lazy_ptr_ppt_linop", "lazy partial-transpose operator differs from the explicit one", {**desc, "sysb": sysb})
        except Exception as e:  # noqa: BLE001
            ctx.violation("lazy_ptr_linop:raised", f"raised {type(e).__name__}: {str(e)[:120]}", desc)


def _rand_iso(g, d, m, cplx):
    """tall d x m matrix with orthonormal columns (Q of a QR; complex ones carry generic phases)"""
    X = g.normal(size=(d, m))
    if cplx:
        X = X + 1j * g.normal(size=(d, m))
    Q, _ = np.linalg.qr(X)
    return Q


def projector_oracle(ctx):
    """the `P=` argument: eigensolve restricted to the subspace spanned by the columns of an isometry P.  Returned
    values must be eigenvalues of P^dag A P (dense reference) selected by the rule, returned vectors live in the full
    space, are orthonormal, lie in range(P) and satisfy the projected eigen-equation P^dag A v = lambda P^dag v."""
    import quimb as qu
    from scipy.sparse.linalg import ArpackNoConvergence

    rng = ctx.rng
    g = np.random.default_rng(ctx.seed + 1706)
    _seed_libs(ctx.seed + 1706)
    for it in range(ctx.n(220, 2200)):
        k = rng.choice([1, 1, 2, 3])
        backend = rng.choice(["numpy", "scipy", "scipy", "lobpcg", None, "auto"])
        with_sigma = backend != "lobpcg" and rng.random() < 0.25
        d0 = math.isqrt((10000 if with_sigma else 2000) * k)
        d = d0 + rng.choice([-1, 0, 1]) if (rng.random() < 0.35 and d0 < 110) else rng.randint(5 * k + 6, 48)
        m = rng.randint(5 * k + 3, d - 1)
        a_cplx = rng.random() < 0.5
        p_cplx = rng.random() < 0.6
        arep = rng.choice(["dense", "sparse", "linop", "qarray"])
        if backend == "numpy" and arep == "linop":
            arep = "dense"
        prep = rng.choice(["dense", "dense", "sparse", "qarray", "lazy"])
        A = _rand_herm(g, d, a_cplx)
        P = _rand_iso(g, d, m, p_cplx)
        M = P.conj().T @ A @ P
        M = (M + M.conj().T) / 2
        allv = np.linalg.eigvalsh(M)
        if backend == "lobpcg":
            which = rng.choice(["SA", "LA", None])
        elif with_sigma:
            which = rng.choice([None, "TR"])
        else:
            which = rng.choice(["SA", "LA", "LM", None])
        sigma = None
        if with_sigma:
            j = rng.randrange(m)
            sigma = float(allv[j] + 0.3 * (allv[min(j + 1, m - 1)] - allv[j]) + 1e-3)
        eff = which if which is not None else ("TR" if sigma is not None else "SA")
        rv = rng.random() < 0.75
        entry = rng.choice(["eigensystem_partial", "eigh/eigvalsh"])
        opts = {"maxiter": 400, "tol": 1e-10} if backend == "lobpcg" else {}
        v0kind = None
        if backend in ("lobpcg", "scipy") and rng.random() < 0.25:
            # lobpcg documents that a full-space guess is projected too; scipy gets a guess in the subspace
            v0kind = rng.choice(["full", "subspace"]) if backend == "lobpcg" else "subspace"
            n0 = d if v0kind == "full" else m
            v0 = g.normal(size=n0) + (1j * g.normal(size=n0) if (a_cplx or p_cplx) else 0)
            opts["v0"] = v0 if backend == "scipy" else v0.reshape(-1, 1)
            if backend == "lobpcg" and k > 1:
                opts["v0"] = np.hstack([opts["v0"], g.normal(size=(n0, k - 1)) + (1j * g.normal(size=(n0, k - 1)) if (a_cplx or p_cplx) else 0)])
        auto_numpy = backend in (None, "auto") and arep != "linop" and d * d / k < (10000 if with_sigma else 2000)
        tag = backend if backend not in (None, "auto") else ("auto->numpy" if auto_numpy else "auto->scipy")
        key = f"projector:{tag}:P_{'complex' if p_cplx else 'real'}"
        desc = {"call": entry, "d": d, "m": m, "k": k, "backend": backend, "A": arep, "A_complex": a_cplx, "P": prep, "P_complex": p_cplx,
                "which": which, "sigma": sigma, "return_vecs": rv, "v0": v0kind, "np_seed": ctx.seed + 1706, "iteration": it}
        ctx.count(("projector", it), p_cplx)
        ctx.bump("oracle:" + key)
        try:
            if entry == "eigensystem_partial":
                out = qu.eigensystem_partial(_as_rep(A, arep), k, isherm=True, P=_as_rep(P, prep), which=which, sigma=sigma,
                                             return_vecs=rv, backend=backend, **opts)
            else:
                fn = qu.eigh if rv else qu.eigvalsh
                out = fn(_as_rep(A, arep), k=k, P=_as_rep(P, prep), which=which, sigma=sigma, backend=backend, **opts)
        except ArpackNoConvergence:
            ctx.bump("oracle:arpack_no_convergence")
            continue
        except Exception as e:  # noqa: BLE001
            ctx.violation(key + ":raised", f"valid call with P= raised {type(e).__name__}: {str(e)[:120]}", {**desc, "error": str(e)[:200]})
            continue
        lk, vk = out if rv else (out, None)
        lk = np.asarray(lk)
        lob = backend == "lobpcg"
        if np.iscomplexobj(lk) and np.abs(lk.imag).max() > 1e-8:
            ctx.violation(key + ":complex_eigenvalue", "hermitian problem in a subspace returned a complex eigenvalue", desc)
            continue
        if not oracle_selection(ctx, key, desc, allv, lk.real, eff, sigma, k, tol=1e-3 if lob else 1e-7):
            continue
        if np.any(np.diff(lk.real) < -1e-7 * max(1.0, float(np.abs(lk).max()))):
            ctx.violation(key + ":not_sorted", "eigenvalues are not ascending (sort=True is the default)", desc)
        if vk is not None:
            vk = np.asarray(vk)
            if vk.shape != (d, k):
                ctx.violation(key + ":shape", f"eigenvectors have shape {vk.shape}, expected full-space {(d, k)}", desc)
                continue
            scale = max(1.0, float(np.abs(A).max())) * d
            gd = float(np.abs(vk.conj().T @ vk - np.eye(k)).max())
            res = float(np.abs(P.conj().T @ (A @ vk) - (P.conj().T @ vk) * lk.real[None, :]).max())
            out_of = float(np.abs(P @ (P.conj().T @ vk) - vk).max())
            if not gd <= (1e-4 if lob else 1e-7):
                ctx.violation(key + ":orthonormality", f"max |V^dag V - 1| = {gd:.2e}", {**desc, "gram_defect": gd})
            if not res <= (1e-2 if lob else 1e-7) * scale:
                ctx.violation(key + ":residual", f"max |P^dag A v - lambda P^dag v| = {res:.2e}", {**desc, "residual": res})
            if not out_of <= 1e-7:
                ctx.violation(key + ":outside_subspace", f"returned vectors leave range(P) by {out_of:.2e}", desc)


def options_oracle(ctx):
    """optional arguments the other streams do not reach: sort=False, ncv / tol / maxiter pass-through, the
    eigenvector-only and ground-state aliases, Lazy operators with a prefactor (A and B), non-hermitian partial solves
    through every alias, fallback_to_scipy, keyword pass-through of svds / norm / eigh_window."""
    import quimb as qu
    import scipy.linalg as sla
    import scipy.sparse as sp
    from quimb.linalg.base_linalg import eigenvectors as bl_eigenvectors

    rng = ctx.rng
    g = np.random.default_rng(ctx.seed + 1707)
    _seed_libs(ctx.seed + 1707)
    for it in range(ctx.n(60, 600)):
        d = rng.choice([43, 44, 45, 46]) if rng.random() < 0.4 else rng.randint(14, 40)
        k = rng.choice([1, 2, 3])
        cplx = rng.random() < 0.5
        A = _rand_herm(g, d, cplx)
        ev = np.linalg.eigvalsh(A)
        backend = rng.choice(["numpy", "scipy", "lobpcg", None])
        lob = backend == "lobpcg"
        base = {"maxiter": 400, "tol": 1e-10} if lob else {}
        tol = 1e-3 if lob else 1e-7
        which = rng.choice(["SA", "LA"])
        desc = {"d": d, "k": k, "complex": cplx, "backend": backend, "which": which, "np_seed": ctx.seed + 1707, "iteration": it}
        tag = str(backend).lower()
        ctx.count(("options", it), True)
        ctx.bump("oracle:options:" + tag)
        case = "?"
        try:
            # sort=False: same values (order is the rule's order only for the dense solver)
            case = "sort=False"
            lk = np.asarray(qu.eigvalsh(A, k=k, which=which, sort=False, backend=backend, **base))
            if oracle_selection(ctx, f"options:{tag}:sort_false", {**desc, "call": "eigvalsh(sort=False)"}, ev, lk, which, None, k, tol=tol) and backend == "numpy":
                ks = ref_keys(lk, which, None)
                if np.any(np.diff(ks) < -1e-9):
                    ctx.violation("options:numpy:sort_false:order", "sort=False: values are not in the rule's order", {**desc, "call": "eigvalsh(sort=False)"})
            # solver options are passed through (or dropped) without changing the answer
            case = "ncv/tol/maxiter"
            o2 = {"ncv": min(d - 1, max(2 * k + 2, 20)), "tol": 1e-10, "maxiter": 2000 if not lob else 400}
            lk = np.asarray(qu.eigvalsh(A, k=k, which=which, backend=backend, **o2))
            oracle_selection(ctx, f"options:{tag}:solver_opts", {**desc, "call": "eigvalsh(ncv, tol, maxiter)"}, ev, lk, which, None, k, tol=tol)
            # eigenvector-only aliases
            case = "eigvecsh"
            for nm, V in (("eigvecsh", qu.eigvecsh(A, k=k, which=which, backend=backend, **base)),
                          ("eigenvectors", bl_eigenvectors(A, isherm=True, k=k, which=which, backend=backend, **base))):
                V = np.asarray(V)
                want = ev[:k] if which == "SA" else ev[-k:]
                rq = np.real(np.einsum("ij,ij->j", V.conj(), A @ V)) if V.shape == (d, k) else None
                if V.shape != (d, k) or not np.allclose(rq, want, atol=(1e-3 if lob else 1e-7) * max(1.0, float(np.abs(ev).max()))) \
                        or np.abs(A @ V - V * rq[None, :]).max() > (1e-2 if lob else 1e-7) * d * max(1.0, float(np.abs(A).max())):
                    ctx.violation(f"options:{tag}:{nm}", f"{nm} does not return the requested eigenvectors", {**desc, "call": nm})
            case = "groundstate"
            psi = np.asarray(qu.groundstate(A, backend=backend, **base))
            e0 = qu.groundenergy(A, backend=backend, **base)
            if psi.shape != (d, 1) or abs(e0 - ev[0]) > tol * max(1.0, abs(ev[0])) or np.abs(A @ psi - ev[0] * psi).max() > (1e-2 if lob else 1e-7) * d:
                ctx.violation(f"options:{tag}:groundstate", "groundstate / groundenergy disagree with the dense spectrum", {**desc, "call": "groundstate"})
            # Lazy operator with prefactors (the constructor must return a fresh array: it is scaled in place)
            case = "Lazy"
            f1 = rng.choice([2.0, -1.0, 0.5])
            Lz = f1 * qu.Lazy(lambda A=A: A.copy(), shape=A.shape)
            if rng.random() < 0.5:
                Lz = Lz * 0.5
                f1 = f1 * 0.5
            lk = np.asarray(qu.eigvalsh(Lz, k=k, which=which, backend=backend, **base))
            oracle_selection(ctx, f"options:{tag}:lazy_factor", {**desc, "call": "eigvalsh(factor * Lazy)", "factor": f1}, f1 * ev, lk, which, None, k, tol=tol)
            if backend in ("numpy", "scipy"):
                case = "Lazy B"
                B = _rand_spd(g, d, cplx)
                gev = sla.eigh(A, B, eigvals_only=True)
                lk = np.asarray(qu.eigvalsh(A, k=k, which=which, backend=backend, B=qu.Lazy(lambda B=B: B.copy(), shape=B.shape)))
                oracle_selection(ctx, f"options:{tag}:lazy_B", {**desc, "call": "eigvalsh(B=Lazy)"}, gev, lk, which, None, k, tol=tol)
        except Exception as e:  # noqa: BLE001
            ctx.violation(f"options:{tag}:raised", f"valid call ({case}) raised {type(e).__name__}: {str(e)[:120]}", {**desc, "case": case})
    # non-hermitian partial solves through every alias
    for it in range(ctx.n(30, 300)):
        d = rng.choice([44, 45]) if rng.random() < 0.3 else rng.randint(12, 40)
        k = rng.choice([1, 2, 3])
        N = g.normal(size=(d, d)) + 1j * g.normal(size=(d, d))
        en = np.linalg.eigvals(N)
        backend = rng.choice(["numpy", "scipy", None])
        which = rng.choice(["LM", "LR", "SR", "LI", "SI"])
        rep = rng.choice(["dense", "sparse", "linop"]) if backend != "numpy" else rng.choice(["dense", "sparse"])
        desc = {"d": d, "k": k, "backend": backend, "which": which, "A": rep, "np_seed": ctx.seed + 1707, "iteration": it}
        tag = str(backend).lower()
        ctx.count(("options_nonherm", it), True)
        try:
            l1 = np.asarray(qu.eigvals(_as_rep(N, rep), k=k, which=which, backend=backend))
            l2, V = qu.eig(_as_rep(N, rep), k=k, which=which, backend=backend)
            V2 = np.asarray(qu.eigvecs(_as_rep(N, rep), k=k, which=which, backend=backend))
            l2, V = np.asarray(l2), np.asarray(V)
            recheck = None
            if backend != "numpy":
                def recheck(N=N, k=k, which=which):
                    # what eigs_scipy asks ARPACK for (non-hermitian, no shift); only consulted after a selection failure
                    import scipy.sparse.linalg as spla_
                    return spla_.eigs(N, k=k, which=which, return_eigenvectors=False, tol=0)
            ok = oracle_selection(ctx, f"options:{tag}:nonherm:eigvals", {**desc, "call": "eigvals(k)"}, en, l1, which, None, k,
                                  backend_recheck=recheck)
            ok = ok and oracle_selection(ctx, f"options:{tag}:nonherm:eig", {**desc, "call": "eig(k)"}, en, l2, which, None, k,
                                         backend_recheck=recheck)
            if ok:
                for nm, W in (("eig", V), ("eigvecs", V2)):
                    if W.shape != (d, k) or np.abs(N @ W - W * l2[None, :]).max() > 1e-7 * d * max(1.0, float(np.abs(N).max())):
                        # eigvecs come from an independent solve: match them to the values by Rayleigh quotient
                        rq = np.einsum("ij,ij->j", W.conj(), N @ W) / np.einsum("ij,ij->j", W.conj(), W) if W.shape == (d, k) else None
                        if rq is None or np.abs(N @ W - W * rq[None, :]).max() > 1e-7 * d * max(1.0, float(np.abs(N).max())):
                            ctx.violation(f"options:{tag}:nonherm:{nm}:residual", "returned vectors are not eigenvectors", {**desc, "call": nm})
        except Exception as e:  # noqa: BLE001
            from scipy.sparse.linalg import ArpackNoConvergence

            if isinstance(e, ArpackNoConvergence):
                ctx.bump("oracle:arpack_no_convergence")
            else:
                ctx.violation(f"options:{tag}:nonherm:raised", f"valid call raised {type(e).__name__}: {str(e)[:120]}", desc)
    # fallback_to_scipy: lobpcg cannot do LM -> with the flag scipy answers, without it the error surfaces
    for it in range(ctx.n(4, 20)):
        d = rng.randint(20, 46)
        A = _rand_herm(g, d, rng.random() < 0.5)
        ev = np.linalg.eigvalsh(A)
        ctx.count(("options_fallback", it), True)
        try:
            with warnings.catch_warnings():
                warnings.simplefilter("ignore")
                lk = np.asarray(qu.eigvalsh(A, k=2, which="LM", backend="lobpcg", fallback_to_scipy=True))
            oracle_selection(ctx, "options:fallback_to_scipy", {"call": "eigvalsh(backend='lobpcg', which='LM', fallback_to_scipy=True)", "d": d}, ev, lk, "LM", None, 2)
        except Exception as e:  # noqa: BLE001
            ctx.violation("options:fallback_to_scipy:raised", f"fallback_to_scipy=True still raised {type(e).__name__}", {"d": d})
        try:
            qu.eigvalsh(A, k=2, which="LM", backend="lobpcg")
            ctx.violation("options:no_fallback:accepted", "lobpcg with which='LM' must raise when fallback_to_scipy is off", {"d": d})
        except Exception:  # noqa: BLE001
            ctx.bump("oracle:options:lobpcg_LM_rejected")
    # keyword pass-through: svds(ncv), norm(backend=), eigh_window(backend='scipy')
    for it in range(ctx.n(20, 200)):
        m, n = rng.randint(20, 60), rng.randint(20, 60)
        R = g.normal(size=(m, n)) + (1j * g.normal(size=(m, n)) if rng.random() < 0.5 else 0)
        sr = np.linalg.svd(R, compute_uv=False)
        ctx.count(("options_svd", it), True)
        try:
            s1 = np.asarray(qu.svds(sp.csr_matrix(R), 2, ncv=14, backend="scipy", return_vecs=False))
            n1 = qu.norm(R, 2, backend="scipy")
            n2 = qu.norm(sp.csr_matrix(R), "2", backend="numpy")
            n3 = qu.norm(sp.csr_matrix(R), "spectral")
            if not (np.allclose(s1, sr[:2], rtol=1e-7) and abs(n1 - sr[0]) < 1e-7 * sr[0] and abs(n2 - sr[0]) < 1e-7 * sr[0] and abs(n3 - sr[0]) < 1e-7 * sr[0]):
                ctx.violation("options:svds_norm_kwargs", "svds(ncv=) / norm(backend=) differ from the dense singular values", {"shape": [m, n]})
        except Exception as e:  # noqa: BLE001
            ctx.violation("options:svds_norm_kwargs:raised", f"raised {type(e).__name__}: {str(e)[:120]}", {"shape": [m, n]})
        d = rng.randint(20, 46)
        A = _rand_herm(g, d, rng.random() < 0.5)
        ev = np.linalg.eigvalsh(A)
        w0 = rng.choice([0.25, 0.5, 0.75])
        wsz = rng.choice([0.2, 0.4, 1.0])
        k = rng.randint(1, 5)
        c = ev[0] + w0 * (ev[-1] - ev[0])
        lo_, hi_ = c - wsz * (ev[-1] - ev[0]) / 2, c + wsz * (ev[-1] - ev[0]) / 2
        c2 = c + (ev[-1] - ev[0]) / 104729
        near = np.sort(ev[np.argsort(np.abs(ev - c2))[:k]])
        want = near[(near > lo_) & (near < hi_)]
        bk = rng.choice(["scipy", "AUTO", "numpy"])
        desc = {"call": "eigh_window", "d": d, "w_0": w0, "w_sz": wsz, "k": k, "backend": bk, "np_seed": ctx.seed + 1707, "iteration": it}
        try:
            lk, vk = qu.eigh_window(sp.csr_matrix(A), w0, k, w_sz=wsz, backend=bk)
            lk, vk = np.asarray(lk), np.asarray(vk)
            if bk == "numpy" and lk.size > k:
                ctx.violation("eigh_window:dense:k_ignored", f"eigh_window returned {lk.size} eigenpairs for k={k}", desc)
            elif lk.shape != want.shape or not np.allclose(lk, want, atol=1e-7 * max(1.0, float(np.abs(ev).max()))):
                ctx.violation(f"options:eigh_window:{bk.lower()}", "sparse eigh_window differs from 'the k eigenvalues nearest the centre, cut to the window'",
                              {**desc, "got": lk.tolist(), "want": want.tolist()})
            elif lk.size:
                _vec_checks(ctx, f"options:eigh_window:{bk.lower()}:vectors", desc, A, lk, vk, True, tol=1e-7)
        except Exception as e:  # noqa: BLE001
            ctx.violation(f"options:eigh_window:{bk.lower()}:raised", f"raised {type(e).__name__}: {str(e)[:120]}", desc)


MODULES = ["C17/Model.vo", "C17/SortProofs.vo", "C17/KeyProofs.vo", "C17/SelectProofs.vo", "C17/WindowProofs.vo",
           "C17/BlocksProofs.vo", "C17/Check.vo", "C17/CheckProofs.vo", "C17/Props.v"]


def check_props(ctx):
    ctx.check_props(MODULES)


def corpus_stage(ctx):
    """minimised past failures (corpus/C17/*.json), run first: each is a direct reproduction with a fixed input"""
    import glob

    for path in sorted(glob.glob(os.path.join(os.path.dirname(os.path.dirname(os.path.abspath(__file__))), "corpus", "C17", "*.json"))):
        with open(path) as f:
            entry = json.load(f)
        ctx.bump("corpus")
        ctx.count(("corpus", os.path.basename(path)), True)
        what = _reproduce(entry)
        if what is not None:
            ctx.violation(entry["key"], what, {"corpus": os.path.basename(path), **entry})


def _reproduce(entry):
    """returns a description of the failure, or None when the behaviour is as documented"""
    import quimb as qu
    import scipy.sparse as sp

    kind = entry["kind"]
    try:
        if kind == "window_k":
            A = np.diag(np.arange(float(entry["d"])))
            if not entry["dense"]:
                A = sp.csr_matrix(A)
            out = np.asarray(qu.eigvalsh_window(A, entry["w_0"], k=entry["k"]))
            if out.size > entry["k"]:
                return f"eigvalsh_window returned {out.size} eigenvalues for k={entry['k']}"
            want = entry.get("want")
            if want is not None and not np.allclose(out, want):
                return f"eigvalsh_window returned {out.tolist()}, documented {want}"
        elif kind == "autoblock_complex_values":
            A = np.diag([1.0, 2.0, 3.0]).astype(complex)
            A[0, 1], A[1, 0] = 1j, -1j
            out = np.asarray(qu.eigvalsh(A, autoblock=True))
            if not np.allclose(out, np.linalg.eigvalsh(A)):
                return "eigvalsh(autoblock=True) differs from the direct spectrum"
        elif kind == "numpy_sparse_B":
            A = np.diag(np.arange(6.0)) + 0.5 * (np.eye(6, k=1) + np.eye(6, k=-1))
            B = sp.identity(6, format="csr") * 2.0
            out = np.asarray(qu.eigvalsh(A, k=2, B=B, backend=entry.get("backend")))
            if not np.allclose(out, np.linalg.eigvalsh(A / 2.0)[:2]):
                return "generalized eigenvalues differ from the dense reference"
        elif kind == "lobpcg_v0":
            g = np.random.default_rng(5)
            X = g.normal(size=(30, 30))
            A = (X + X.T) / 2
            out = np.asarray(qu.eigvalsh(A, k=2, backend="lobpcg", v0=np.ones(30), maxiter=400, tol=1e-10))
            if not np.allclose(out, np.linalg.eigvalsh(A)[:2], atol=1e-5):
                return "lobpcg eigenvalues differ from the dense reference"
        elif kind == "projector":
            g = np.random.default_rng(11)
            d, m, k = 24, 10, 3
            A = _rand_herm(g, d, entry.get("A_complex", False))
            P = _rand_iso(g, d, m, entry.get("P_complex", True))
            ref = np.linalg.eigvalsh(P.conj().T @ A @ P)[:k]
            opts = {"maxiter": 400, "tol": 1e-10} if entry.get("backend") == "lobpcg" else {}
            lk, vk = qu.eigh(A, k=k, P=P, backend=entry.get("backend"), **opts)
            lk, vk = np.asarray(lk), np.asarray(vk)
            if not np.allclose(lk, ref, atol=1e-5):
                return "eigenvalues in the subspace of a (complex) isometry P differ from those of P^dag A P"
            if np.abs(vk.conj().T @ vk - np.eye(k)).max() > 1e-4 or np.abs(P.conj().T @ (A @ vk) - (P.conj().T @ vk) * lk[None, :]).max() > 1e-3:
                return "vectors returned with P= are not orthonormal eigenvectors of the projected operator"
        else:
            return None
    except Exception as e:  # noqa: BLE001
        return f"raised {type(e).__name__}: {str(e)[:120].splitlines()[0]}"
    return None


def _timed(ctx, fn):
    import time

    t, c = time.time(), time.process_time()
    ctx.stage(fn)
    ctx.extra.setdefault("stage_wall_s", {})[fn.__name__] = round(time.time() - t, 1)
    ctx.extra.setdefault("stage_python_cpu_s", {})[fn.__name__] = round(time.process_time() - c, 1)


def _correspondence(ctx, streams):
    """Every correspondence stream is a generator: it runs the implementation, yields
    (label, cases, info) and is resumed with the cases whose model / implementation comparison failed
    inside Coq (its searcher then looks for a concrete violation).  All cases of all streams are
    evaluated together, spread over at most 8 coqc processes."""
    import time
    import traceback

    live = []
    for fn in streams:
        t, c = time.time(), time.process_time()
        try:
            gen = fn(ctx)
            label, cases, info = next(gen)
            live.append((fn.__name__, gen, label, cases, info))
        except Exception:  # noqa: BLE001
            ctx.broken_obligation("stage:" + fn.__name__, traceback.format_exc()[-2500:])
        ctx.extra.setdefault("stage_wall_s", {})[fn.__name__] = round(time.time() - t, 1)
        ctx.extra.setdefault("stage_python_cpu_s", {})[fn.__name__] = round(time.process_time() - c, 1)
    BIG = 1000000
    merged = [(si * BIG + cid, expr) for si, (_, _, _, cases, _) in enumerate(live) for cid, expr in cases]
    t = time.time()
    failed, errors = ctx.coq_cases("all", HEADER, merged, shard=min(500, max(60, -(-len(merged) // 8))))
    ctx.extra["correspondence_coq_wall_s"] = round(time.time() - t, 1)
    ctx.extra["correspondence_cases"] = {label: len(cases) for _, _, label, cases, _ in live}
    for path, err in errors:
        ctx.broken_obligation("correspondence:coqc:" + path.split("/")[-1], err)
    for si, (name, gen, label, cases, info) in enumerate(live):
        mine = [f - si * BIG for f in failed if f // BIG == si]
        for cid in mine[:5]:
            ctx.broken_obligation(f"correspondence:{label}_model_vs_impl", info[cid])
        try:
            gen.send([info[cid] for cid in mine])
        except StopIteration:
            pass
        except Exception:  # noqa: BLE001
            ctx.broken_obligation("stage:" + name + ":searcher", traceback.format_exc()[-2500:])


def run(ctx):
    _STATE.clear()
    ctx.extra["rule"] = RULE
    ctx.trusted_base += [
        "hand-written model coq/C17/Model.v of the selection layer (sort_inds keys, trim, re-sort, default which, "
        "choose_backend, window arithmetic, eigh_window branches, compute_blocks); tie = correspondence evaluated in Coq "
        "(checkers coq/C17/Check.v, soundness of the selection checker proved in CheckProofs.v) on values observed in the "
        "running implementation (public functions called directly; dispatch observed by rebinding _EIGS_METHODS / "
        "scipy.sparse.linalg.eigsh / _EXPM_MULTIPLY_METHODS / SLEPC4PY_FOUND at run time)",
        "canonicalisation: eigenvalues of exact-spectrum matrices are rounded to the nearest (Gaussian) integer after "
        "checking they are within 1e-7 of one; LAPACK / ARPACK / LOBPCG / scipy expm, sqrtm, svd are not modelled - "
        "their results are only tested (residuals, orthonormality, defining equations) at tolerance",
        "harness generators, the independent Python references (ref_keys, ref_components, dense numpy/scipy "
        "decompositions) and numpy's argsort (modelled as: some ordering consistent with the keys; ties arbitrary)",
    ]
    ctx.assumptions += [
        "float keys of sort_inds are modelled in exact extended-rational arithmetic (-1/0 = -inf); exact for the integer / "
        "dyadic inputs used, monotone rounding assumed elsewhere",
        "|a| of a complex eigenvalue is modelled only when it is an integer (real, imaginary, Pythagorean); other inputs "
        "to LM / SM / TM are reported Unmodelled by the model and are covered by the tolerance oracle only",
        "choose_backend's float comparison d**2 / k < T is modelled by the integer comparison d*d < T*k (k > 0)",
        "iterative backends' accuracy (ARPACK, LOBPCG, randomized SVD) and expm / sqrtm accuracy: tests only",
    ]
    only = [x for x in os.environ.get("C17_STAGES", "").split(",") if x]  # development aid: run a subset of the stages

    def want(fn):
        return not only or fn.__name__ in only

    if want(check_props):
        check_props(ctx)
    _timed(ctx, corpus_stage)
    _correspondence(ctx, [f for f in (sort_inds_stream, eigs_stream, full_stream, window_stream, blocks_stream, backend_stream) if want(f)])
    for fn in (partial_oracle, projector_oracle, options_oracle, svd_oracle, matfun_oracle, autoblock_oracle, spectral_oracle):
        if want(fn):
            _timed(ctx, fn)


def replay(ctx, path):
    """re-run one recorded failure: corpus-style entries and the directly re-playable calls are re-executed on their
    own, anything else re-runs the whole (deterministic, seeded) check"""
    with open(path) as f:
        rec = json.load(f)
    r = rec.get("replay", rec)
    ctx.extra["rule"] = "replay of " + os.path.basename(path)
    if "kind" in r:
        what = _reproduce(r)
        ctx.count(("replay", path), True)
        if what is not None:
            ctx.violation(rec.get("key", r.get("key", "replay")), what, r)
        return
    if r.get("call") == "compute_blocks":
        from quimb.linalg.autoblock import compute_blocks

        e = [tuple(x) for x in r["edges"]]
        got = [[int(x) for x in gq] for gq in compute_blocks(np.array([i for i, _ in e], dtype=np.int64), np.array([j for _, j in e], dtype=np.int64), r["d"])]
        ctx.count(("replay", path), True)
        if got != ref_components(e, r["d"]):
            ctx.violation(rec.get("key", "compute_blocks:components"), "compute_blocks does not return the connected components", r)
        return
    if r.get("call") == "sort_inds" and isinstance(r.get("a"), list):
        from quimb.linalg.numpy_linalg import sort_inds

        vals = np.array([complex(x, y) for x, y in r["a"]])
        sg = None if r["sigma"] == "None" else Fraction(r["sigma"])
        ctx.count(("replay", path), True)
        try:
            with np.errstate(all="ignore"):
                inds = [int(i) for i in sort_inds(vals if np.any(vals.imag) else vals.real, r["which"], sigma=None if sg is None else float(sg))]
            ks = ref_keys(vals, r["which"], sg)
            got = [ks[i] for i in inds]
            if sorted(inds) != list(range(len(vals))) or any(got[i] > got[i + 1] + 1e-12 for i in range(len(got) - 1)):
                ctx.violation(rec.get("key", "sort_inds"), "sort_inds does not order by the documented rule", r)
        except Exception as e:  # noqa: BLE001
            if not (sg is None and r["which"].upper() in ("TM", "TR", "TI")):
                ctx.violation(rec.get("key", "sort_inds:raised"), f"sort_inds raised {type(e).__name__}", r)
        return
    run(ctx)

"""C06 - applying a gate equals multiplying by the operator, in every application mode.

Proof part (coq/C06): over ANY commutative ring, on the shared network semantics
(coq/Base/TN.v): lazy gating (gate tensor + relabelling to fresh bond labels) of
any number of target labels in any order denotes sum_beta G[s(inds),beta] *
value(s[inds:=beta]); transposed wiring; eager contraction along any path;
Tensor.gate; exact factorisations interleaved with contractions (the splitting
modes relative to the exact-split contract); swaps; sandwich.  Bookkeeping model
(dispatch of gate_TN_1D / tensor_network_gate_inds, fresh labels, outer labels,
tag propagation) with its theorems.
Tie (H), exact, evaluated inside Coq: integer / Gaussian-integer states and
operators on MPS (open / periodic), PEPS, random graphs, MPO / PEPO; every mode
that performs no floating decomposition.  The implementation's output network is
compared (a) with the expected network built here (original tensors relabelled +
gate tensor with explicit labels) by `same_value_expr`, and (b) with `op_dense`,
the executed right-hand side of the theorem on the ORIGINAL network.  Labels,
tags and the dispatched routine are compared with the model.
Oracle (test, tolerance 1e-9): all splitting / swapping / sub-operator modes
against a plain numpy embedding; modes a geometry / arity does not accept must
raise.
"""

import itertools
import json
import random
import re
import warnings

import numpy as np

from harness import tnmodel as tm
from harness.common import natlist

RULE = (
    "states: integer / Gaussian-integer MPS open+periodic (L 2-5), PEPS 2x2 / 2x3, random connected graphs (<= 6 sites), "
    "MPO / PEPO; physical dims mixed from {2,3}; bond dims {1,2,3}; stored exponent {0,1,2}. gates: integer non-unitary, "
    "Gaussian-integer, signed permutations, Paulis, CNOT, SWAP, diag(+-1,+-i), given as matrix or tensor; 1-3 target sites in "
    "every order incl. distant; plain / transpose / dagger. exact stream: contract False / True, gate_inds, "
    "gate_inds_with_tn, Tensor.gate, sandwich / upper / lower. oracle stream: every splitting, swapping and sub-operator mode with "
    "cutoff=0. Round 3: every (transpose, dagger) pair on every 1D mode incl. 'swap+split' / 'nonlocal' / 'auto-mps' on adjacent, "
    "distant (both orders) and three-site targets; MPO sandwich with automatic swaps (gate_sandwich_with_auto_swap: weakly "
    "correlated dyadic MPOs L 3-5, dagger, contract, swap_back, strip_exponent, absorb, inplace, info) and pair-splitting "
    "sandwich / upper / lower gates; networks with their own naming (site_ind_id / site_tag_id other than 'k{}' / 'I{}') and "
    "open / inner labels named like the library's internal labels (b, l0, l1, r0, r1, __tmp__); operators handed over as "
    "networks (gate_with_op_lazy, gate_{upper,lower,sandwich}_with_op_lazy, apply). Non-trivial: the gate is not the "
    "identity and the state is not zero; distinct = distinct (geometry, dims, gate class, targets, mode, options)."
)

MODES = [False, True, "split", "reduce-split", "split-gate", "swap-split-gate", "auto-split-gate",
         "swap+split", "nonlocal", "auto-mps"]
CM = {"False": "CFalse", "True": "CTrue", "split": "CSplit", "reduce-split": "CReduceSplit",
      "split-gate": "CSplitGate", "swap-split-gate": "CSwapSplitGate", "auto-split-gate": "CAutoSplitGate",
      "swap+split": "CSwapPlusSplit", "nonlocal": "CNonlocal", "auto-mps": "CAutoMps"}
PM = {"sites": "PSites", "register": "PRegister", "False": "PFalse", "True": "PTrue"}
LAZY = (False, "split-gate", "swap-split-gate", "auto-split-gate")

HEADER = (
    "From Coq Require Import ZArith Arith List Bool.\n"
    "From QV Require Import Base.Sums Base.TN Base.TNExec C06.Model C06.Gate C06.Exec.\n"
    "Import ListNotations.\n"
)


def mkey(c):
    return str(c)


# ----------------------------------------------------------------------------
# generators


def rand_array(rng, shape, cplx, lo=-2, hi=2):
    n = int(np.prod(shape)) if len(shape) else 1
    if cplx:
        v = np.array([complex(rng.randint(lo, hi), rng.randint(lo, hi)) for _ in range(n)])
    else:
        v = np.array([float(rng.randint(lo, hi)) for _ in range(n)])
    return v.reshape(shape)


def refill(tn, rng, cplx, size_of):
    """replace every tensor's data by exact integers; `size_of(ind)` gives the wanted dimension of a label"""
    for t in tn.tensors:
        shp = tuple(size_of(ix) for ix in t.inds)
        a = rand_array(rng, shp, cplx)
        if not np.any(a):
            a.reshape(-1)[0] = 1
        t.modify(data=a)


def weaken(tn, eps):
    """make the state weakly entangled across every bond: on one tensor of each inner label the slices 1.. are
    scaled by eps (a power of two: the data stay exact dyadics), slice 0 is made non-zero -> Schmidt values (1, ~eps, ..)"""
    for ix in tn.inner_inds():
        if tn.ind_size(ix) < 2:
            continue
        tids = sorted(tn.ind_map[ix])
        for k, tid in enumerate(tids):
            t = tn.tensor_map[tid]
            ax = t.inds.index(ix)
            d = np.array(t.data, dtype=complex if np.iscomplexobj(t.data) else float)
            d = np.moveaxis(d, ax, 0)
            if not np.any(d[0]):
                d[0].reshape(-1)[0] = 1
            if k == 0:
                d[1:] *= eps
            t.modify(data=np.ascontiguousarray(np.moveaxis(d, 0, ax)))


WEAK_EPS = [2.0 ** -10, 2.0 ** -13, 2.0 ** -17, 2.0 ** -20, 2.0 ** -23]  # 1e-3 .. 1e-7


def build_state(rng, kind=None, big=True, weak=None, ids=None):
    """returns dict(tn, kind, sites, phys={site: dim}, is1d, cyclic); ids(kind) -> constructor keywords
    site_ind_id / site_tag_id (the network's naming scheme; default: quimb's 'k{}' / 'I{}')"""
    import quimb.tensor as qtn

    kind = kind or rng.choice(["mps", "mps", "mps_cyclic", "peps", "graph", "graph"])
    cplx = rng.random() < 0.35
    idkw = ids(kind) if ids is not None else {}
    if kind in ("mps", "mps_cyclic"):
        L = rng.randint(2, 5) if kind == "mps" else rng.randint(3, 5)
        tn = qtn.MPS_rand_state(L, 2, phys_dim=2, cyclic=(kind == "mps_cyclic"), seed=rng.randint(0, 10**6), **idkw)
        sites = list(range(L))
        bond_choices = [1, 2, 2, 3] if L <= 4 else [1, 2, 2]
    elif kind == "peps":
        Lx, Ly = rng.choice([(2, 2), (2, 2), (2, 3)] if big else [(2, 2)])
        tn = qtn.PEPS.rand(Lx, Ly, bond_dim=2, phys_dim=2, seed=rng.randint(0, 10**6), **idkw)
        sites = list(tn.sites)
        bond_choices = [1, 2, 2, 2] if Lx * Ly > 4 else [1, 2, 2, 3]
    else:
        n = rng.randint(2, 6 if big else 4)
        nodes = list(range(n))
        edges = []
        for v in range(1, n):  # random spanning tree, then a few extra edges
            edges.append((rng.randrange(v), v))
        extra = [(a, b) for a in nodes for b in nodes if a < b and (a, b) not in edges]
        rng.shuffle(extra)
        edges += extra[: rng.randint(0, min(2, len(extra)))]
        tn = qtn.TN_from_edges_rand(edges, D=2, phys_dim=2, seed=rng.randint(0, 10**6), **idkw)
        sites = list(tn.sites)
        bond_choices = [1, 2, 2, 3] if n <= 4 else [1, 2, 2]
    phys = {s: rng.choice([2, 2, 3]) for s in sites}
    if len(sites) >= 6:
        phys = {s: (d if i < 2 else 2) for i, (s, d) in enumerate(phys.items())}
    site_of_ind = {tn.site_ind(s): s for s in sites}
    bsize = {}

    def size_of(ix):
        if ix in site_of_ind:
            return phys[site_of_ind[ix]]
        if ix not in bsize:
            bsize[ix] = rng.choice(bond_choices)
        return bsize[ix]

    refill(tn, rng, cplx, size_of)
    if weak is not None:
        weaken(tn, weak)
    e0 = rng.choice([0, 0, 0, 1, 2])
    tn.exponent = e0
    return {"tn": tn, "kind": kind, "sites": sites, "phys": phys, "is1d": kind in ("mps", "mps_cyclic"),
            "cplx": cplx, "e0": e0}


def build_operator(rng):
    import quimb.tensor as qtn

    kind = rng.choice(["mpo", "mpo", "pepo"])
    cplx = rng.random() < 0.35
    if kind == "mpo":
        L = rng.randint(2, 4)
        tn = qtn.MPO_rand(L, 2, phys_dim=2, seed=rng.randint(0, 10**6))
        sites = list(range(L))
    else:
        tn = qtn.PEPO.rand(2, 2, bond_dim=2, phys_dim=2, seed=rng.randint(0, 10**6))
        sites = list(tn.sites)
    phys = {s: rng.choice([2, 2, 3]) if kind == "mpo" else 2 for s in sites}
    pmap = {}
    for s in sites:
        pmap[tn.upper_ind(s)] = phys[s]
        pmap[tn.lower_ind(s)] = phys[s]
    bsize = {}

    def size_of(ix):
        if ix in pmap:
            return pmap[ix]
        if ix not in bsize:
            bsize[ix] = rng.choice([1, 2, 2])
        return bsize[ix]

    refill(tn, rng, cplx, size_of)
    return {"tn": tn, "kind": kind, "sites": sites, "phys": phys, "cplx": cplx, "e0": 0}


PAULI = {
    "X": np.array([[0, 1], [1, 0]], dtype=complex),
    "Y": np.array([[0, -1j], [1j, 0]], dtype=complex),
    "Z": np.array([[1, 0], [0, -1]], dtype=complex),
    "I": np.eye(2, dtype=complex),
}


def build_gate(rng, dims, cplx_ok=True, gclass=None):
    """(matrix D x D, class name, is_unitary)"""
    D = int(np.prod(dims))
    classes = ["int", "int", "gauss", "gauss", "perm", "diag", "diagperm"]
    if all(d == 2 for d in dims):
        classes += ["pauli", "pauli"]
    if list(dims) == [2, 2]:
        classes += ["cnot", "swap", "cz"]
    elif len(dims) == 2 and dims[0] == dims[1]:
        classes += ["swap"]
    if len(dims) == 2:
        classes += ["product", "lowrank"]
    if not cplx_ok:
        classes = [c for c in classes if c not in ("gauss", "diagperm")]
    gclass = gclass or rng.choice(classes)
    if gclass == "int":
        G = rand_array(rng, (D, D), False)
    elif gclass == "gauss":
        G = rand_array(rng, (D, D), True)
    elif gclass == "perm":
        p = list(range(D))
        rng.shuffle(p)
        G = np.zeros((D, D))
        for r, c in enumerate(p):
            G[r, c] = rng.choice([1.0, -1.0])
    elif gclass == "diagperm":  # exact complex unitary that is neither symmetric nor real
        p = list(range(D))
        rng.shuffle(p)
        G = np.zeros((D, D), dtype=complex)
        for r, c in enumerate(p):
            G[r, c] = rng.choice([1, -1, 1j, -1j])
    elif gclass == "diag":
        G = np.diag([rng.choice([1, -1, 1j, -1j]) if cplx_ok else rng.choice([1.0, -1.0]) for _ in range(D)])
    elif gclass == "pauli":
        G = np.array([[1.0 + 0j]])
        for _ in dims:
            G = np.kron(G, PAULI[rng.choice("XYZ" if cplx_ok else "XZ")])
    elif gclass == "cnot":
        G = np.array([[1, 0, 0, 0], [0, 1, 0, 0], [0, 0, 0, 1], [0, 0, 1, 0]], dtype=float)
    elif gclass == "cz":
        G = np.diag([1.0, 1.0, 1.0, -1.0])
    elif gclass == "swap":
        d = dims[0]
        G = np.zeros((d * d, d * d))
        for a in range(d):
            for b in range(d):
                G[a * d + b, b * d + a] = 1.0
    elif gclass == "product":
        G = np.kron(rand_array(rng, (dims[0], dims[0]), False), rand_array(rng, (dims[1], dims[1]), False))
    elif gclass == "lowrank":
        G = np.kron(rand_array(rng, (dims[0], dims[0]), False), rand_array(rng, (dims[1], dims[1]), False))
        G = G + np.kron(rand_array(rng, (dims[0], dims[0]), False), rand_array(rng, (dims[1], dims[1]), False))
    else:
        raise ValueError(gclass)
    G = np.asarray(G)
    if not np.iscomplexobj(G) or not np.any(G.imag):
        G = np.asarray(G.real, dtype=float)
    unitary = np.allclose(G.conj().T @ G, np.eye(D))
    return G, gclass, unitary


def pick_where(rng, sites, k=None):
    k = k or rng.choice([1, 1, 2, 2, 2, 3])
    k = min(k, len(sites))
    return tuple(rng.sample(sites, k))


# ----------------------------------------------------------------------------
# plain numpy reference


def apply_on_axes(G, dims_all, pos, vec):
    """operator G (D x D over the positions `pos`, in that order) applied to the tensor vec[dims_all]"""
    n, k = len(dims_all), len(pos)
    dw = [dims_all[p] for p in pos]
    T = np.asarray(vec).reshape(dims_all)
    Gt = np.asarray(G).reshape(dw + dw)
    out = np.tensordot(Gt, T, axes=(list(range(k, 2 * k)), list(pos)))
    rest = [p for p in range(n) if p not in pos]
    cur = list(pos) + rest
    return np.transpose(out, [cur.index(p) for p in range(n)]).reshape(-1)


def eff_gate(G, dagger=False, transpose=False):
    G = np.asarray(G)
    if dagger:
        return G.conj().T
    if transpose:
        return G.T
    return G


VARIANTS = ["plain", "transpose", "dagger", "both"]  # every (transpose, dagger) pair


def kw_of(variant):
    return {"plain": {}, "transpose": {"transpose": True}, "dagger": {"dagger": True},
            "both": {"transpose": True, "dagger": True}}[variant]


def asym_gate(rng, dims, G, gclass, unitary):
    """for the non-plain variants the gate must tell G, G^T, conj G and G^dagger apart"""
    def distinct(M):
        return not (np.allclose(M, M.T) or np.allclose(M, M.conj()) or np.allclose(M, M.conj().T))
    tries = 0
    while not distinct(G) and tries < 20:
        G, gclass, unitary = build_gate(rng, dims, gclass=("gauss" if tries % 2 == 0 else "diagperm"))
        tries += 1
    return G, gclass, unitary


def dense_of(tn, outs):
    """independent dense form (einsum over the dumped arrays), flattened over `outs`"""
    ts = tm.qtn_tensors(tn)
    labels = {i for inds, _ in ts for i in inds}
    if len(labels) <= 18:
        return tm.np_dense(ts, outs, float(tn.exponent)).reshape(-1)
    # many labels (operator networks with lazily attached operator networks): same einsum, pairwise instead of
    # one joint loop over all labels
    namer = tm.Namer()
    args = []
    for inds, arr in ts:
        args += [np.asarray(arr), [namer(i) for i in inds]]
    return (np.einsum(*args, [namer(o) for o in outs], optimize="greedy") * (10.0 ** float(tn.exponent))).reshape(-1)


# ----------------------------------------------------------------------------
# observation of the dispatched routine


class Spy:
    def __enter__(self):
        import quimb.tensor as qtn
        import quimb.tensor.gating as g

        self.ev = []
        self.saved = []

        def patch(obj, name, tag, rec=lambda a, k: None):
            f = getattr(obj, name)
            self.saved.append((obj, name, obj.__dict__[name] if isinstance(obj, type) else f))

            def w(*a, **k):
                self.ev.append((tag, rec(a, k)))
                return f(*a, **k)

            setattr(obj, name, w)

        patch(g, "_tensor_network_gate_inds_basic", "basic", lambda a, k: a[5] if len(a) > 5 else k.get("contract"))
        patch(g, "_tensor_network_gate_inds_lazy_split", "lazy_split", lambda a, k: a[5] if len(a) > 5 else k.get("contract"))
        patch(g, "_tensor_network_gate_inds_eager_split", "eager_split")
        patch(g, "_tensor_network_gate_sandwich_inds_eager_split", "sandwich_eager_split")
        patch(qtn.MatrixProductState, "gate_with_auto_swap", "auto_swap")
        patch(qtn.MatrixProductState, "gate_nonlocal", "nonlocal")
        patch(qtn.Tensor, "gate_", "tgate")
        patch(qtn.Tensor, "split", "tsplit", lambda a, k: {kk: k[kk] for kk in ("cutoff", "max_bond", "absorb") if kk in k})
        return self

    def __exit__(self, *exc):
        for obj, name, f in reversed(self.saved):
            setattr(obj, name, f)
        return False


def observed_action(ev, raised, before, after, inds):
    names = [e[0] for e in ev]
    if raised:
        return "ARejected"
    if "auto_swap" in names:
        return "AAutoSwap"
    if "nonlocal" in names:
        return "ANonlocal"
    if "lazy_split" in names:
        new = [tid for tid in after.tensor_map if tid not in before.tensor_map]
        if len(new) == 1:
            return "ALazy"
        (h0,) = [tid for tid in new if inds[0] in after.tensor_map[tid].inds]
        (holder0,) = before.ind_map[inds[0]]
        for ix in after.tensor_map[h0].inds:
            for tid in after.ind_map[ix]:
                if tid in before.tensor_map:
                    return "ALazySplitGate" if tid == holder0 else "ALazySwapSplitGate"
        return "A?"
    if "basic" in names:
        c = [e[1] for e in ev if e[0] == "basic"][0]
        if "tgate" in names:
            return "ASingleSite"
        if "eager_split" in names:
            i = names.index("eager_split")
            ns = names[i:].count("tsplit")
            return {1: "ASplit", 3: "AReduceSplit"}.get(ns, "A?")
        if c is False:
            return "ALazy"
        return "AContractAll"
    return "A?"


def geometry_facts(tn, inds, G=None):
    """what the dispatch looks at (computed here with plain set operations)"""
    tids = []
    for ix in inds:
        for tid in tn.ind_map[ix]:
            if tid not in tids:
                tids.append(tid)
    f = {"ntids": len(tids), "shared": 0, "nleft": 0, "nright": 0, "spat": 0, "swap": 0, "full": 0}
    if len(inds) == 2 and len(tids) == 2:
        tl = tn.tensor_map[next(iter(tn.ind_map[inds[0]]))]
        tr = tn.tensor_map[next(iter(tn.ind_map[inds[1]]))]
        f["shared"] = len([i for i in tl.inds if i in tr.inds])
        f["nleft"] = len([i for i in tl.inds if i not in tr.inds])
        f["nright"] = len([i for i in tr.inds if i not in tl.inds])
    if len(inds) == 2 and G is not None:
        d0, d1 = tn.ind_size(inds[0]), tn.ind_size(inds[1])
        T = np.asarray(G).reshape(d0, d1, d0, d1)
        rk = lambda M: int(np.linalg.matrix_rank(M, tol=1e-8 * max(1.0, np.abs(M).max())))
        f["spat"] = rk(T.transpose(0, 2, 1, 3).reshape(d0 * d0, d1 * d1))
        f["swap"] = rk(T.transpose(0, 3, 1, 2).reshape(d0 * d1, d1 * d0))
        f["full"] = d0 * d1
    return f


def well_conditioned(G, dims):
    """every non-zero singular value of both reshufflings of a two-site gate is far from the default cutoff"""
    d0, d1 = dims
    T = np.asarray(G).reshape(d0, d1, d0, d1)
    for M in (T.transpose(0, 2, 1, 3).reshape(d0 * d0, d1 * d1), T.transpose(0, 3, 1, 2).reshape(d0 * d1, d1 * d0)):
        sv = np.linalg.svd(M, compute_uv=False)
        if sv[0] == 0:
            return False
        nz = sv[sv > 1e-9 * sv[0]]
        if nz.min() < 1e-2 * sv[0]:
            return False
    return True


def must_reject(is1d, contract, ng, f):
    """documented acceptance rule (direct oracle for the 'must raise' stream; the Coq model gate_action says the same)"""
    if contract not in MODES:
        return True
    mps_only = contract in ("swap+split", "nonlocal", "auto-mps")
    if mps_only and not is1d:
        return True
    if ng == 1:
        return False
    if contract == "swap+split" or (contract == "auto-mps" and ng == 2):
        return ng != 2
    if mps_only:
        return False
    if contract in ("split-gate", "swap-split-gate"):
        return ng > 2
    if contract in ("split", "reduce-split") and f["ntids"] > 1:
        return ng != 2 or f["shared"] != 1
    return False


def geom_lit(f):
    return (f"(Build_geom {f['ntids']} {f['shared']} {f['nleft']} {f['nright']} {f['spat']} {f['swap']} {f['full']})")


# ----------------------------------------------------------------------------


_GPAIR = re.compile(r"\(\((-?\d+)\)%Z, \((-?\d+)\)%Z\)")


class Collector:
    def __init__(self):
        self.cases = []
        self.info = {}
        self.route_seen = set()

    def add(self, desc, expr, kind):
        cid = len(self.cases) + 1
        # the case files open Z_scope: drop the per-entry scope delimiters (halves Coq's parsing time)
        expr = _GPAIR.sub(r"(\1,\2)", expr)
        self.cases.append((cid, expr))
        self.info[cid] = {**desc, "check": kind}


def jsonable(x):
    return json.loads(json.dumps(x, default=str))


def tags_lit(namer, tags):
    return natlist([namer(t) for t in tags])


def check_structure(ctx, desc, before, after, act, keyp):
    """outer labels, site tags, exponent: exact comparisons on the implementation's networks"""
    ob, oa = set(before.outer_inds()), set(after.outer_inds())
    if ob != oa:
        ctx.violation(f"{keyp}:outer_labels", f"outer labels changed: {sorted(ob ^ oa)}", desc)
    if hasattr(before, "site_tags"):
        for st in before.site_tags:
            if st in before.tag_map and st not in after.tag_map:
                ctx.violation(f"{keyp}:site_tag_lost", f"site tag {st} disappeared", desc)
    # every tensor's tags survive on a tensor that still carries one of its labels (tids may be re-used after a contraction)
    for t in before.tensors:
        if not any(set(t.tags) <= set(u.tags) and (set(t.inds) & set(u.inds)) for u in after.tensors):
            ctx.violation(f"{keyp}:tags_lost", f"the tags {sorted(t.tags)} of a gated / untouched tensor are no longer on a tensor carrying its labels", desc)
            break
    if act in ("ASingleSite", "ASplit", "AReduceSplit", "AAutoSwap"):
        # structure preserving: same tensors, each keeps its label set
        same = set(before.tensor_map) == set(after.tensor_map) and all(
            set(before.tensor_map[t].inds) == set(after.tensor_map[t].inds) for t in before.tensor_map)
        if not same:
            ctx.violation(f"{keyp}:structure", f"{act} changed the label structure of the network", desc)


# ----------------------------------------------------------------------------
# the exact stream: vector-like networks


def vector_case(ctx, col, stream, n, forced=None):
    import quimb.tensor as qtn

    rng = random.Random(f"{ctx.seed}:{stream}:{n}")
    st = build_state(rng, big=(n % 3 != 0))
    tn, sites, phys = st["tn"], st["sites"], st["phys"]
    api = rng.choice(["gate", "gate", "gate", "gate_inds", "gate_inds", "with_tn", "tensor_gate"])
    where = pick_where(rng, sites, k=1 if api == "tensor_gate" else None)
    ng = len(where)
    dims = [phys[s] for s in where]
    G, gclass, unitary = build_gate(rng, dims, cplx_ok=True)
    as_tensor = rng.random() < 0.5
    rng.choice(VARIANTS)
    variant = VARIANTS[n % 4]  # all four (transpose, dagger) pairs, evenly
    if variant != "plain":
        G, gclass, unitary = asym_gate(rng, dims, G, gclass, unitary)
    gate_factors = None
    if api == "with_tn" and ng == 2 and rng.random() < 0.6:
        # the gate as a two-tensor network joined by a bond of size r: G = sum_x A_x (x) B_x
        r = rng.choice([1, 2])
        As = rand_array(rng, (r, dims[0], dims[0]), st["cplx"])
        Bs = rand_array(rng, (r, dims[1], dims[1]), False)
        G = sum(np.kron(As[x], Bs[x]) for x in range(r))
        gclass, unitary, variant, gate_factors = f"network_r{r}", False, "plain", (As, Bs)
    Gin = G.reshape(dims + dims) if as_tensor else G
    contract = rng.choice([False, True])
    ptag = rng.choice(["sites", "register", False, True])
    user_tags = rng.choice([None, ["G"], ["G", "ROUND_1"]])
    if api == "gate" and st["is1d"] and ng == 1 and rng.random() < 0.4:
        contract = rng.choice(["split", "reduce-split", "swap+split", "nonlocal", "auto-mps", "split-gate",
                               "swap-split-gate", "auto-split-gate"])
    if api == "gate" and not st["is1d"] and ng == 1 and rng.random() < 0.3:
        contract = rng.choice(["split", "reduce-split", "split-gate", "swap-split-gate", "auto-split-gate"])
    if api in ("gate", "gate_inds") and ng == 3 and rng.random() < 0.3:
        contract = "auto-split-gate"  # degrades to lazy for 3+ sites
    if api == "tensor_gate":
        contract, variant = True, ("transpose" if variant in ("dagger", "both") else variant)
    if api == "with_tn":
        contract = False
    inds = tuple(tn.site_ind(s) for s in where)
    outs = tuple(tn.site_ind(s) for s in sites)
    desc = {"stream": stream, "n": n, "geometry": st["kind"], "sites": len(sites), "phys": [phys[s] for s in sites],
            "where": [str(w) for w in where], "gate": gclass, "unitary": bool(unitary), "as_tensor": as_tensor,
            "api": api, "variant": variant, "contract": mkey(contract), "propagate_tags": mkey(ptag),
            "tags": user_tags, "exponent": st["e0"], "complex": st["cplx"]}
    keyp = f"{api}:{st['kind']}:contract={mkey(contract)}"
    nontrivial = not np.allclose(G, np.eye(G.shape[0]))
    ctx.count((st["kind"], tuple(phys[s] for s in sites), gclass, tuple(map(str, where)), api, variant, mkey(contract),
               mkey(ptag), as_tensor, n), nontrivial)
    ctx.bump("geom:" + st["kind"])
    ctx.bump(f"arity:{ng}")
    ctx.bump("api:" + api)
    ctx.bump("gate:" + gclass)
    ctx.bump("variant:" + variant)
    ctx.bump("contract:" + mkey(contract))
    if n < 3:
        ctx.sample(desc)

    kw = kw_of(variant)
    before = tn.copy()
    Geff = eff_gate(G, **kw)
    ev, raised, after = [], None, None
    try:
        with Spy() as spy:
            if api == "gate":
                opts = dict(kw)
                if user_tags is not None:
                    opts["tags"] = user_tags
                with warnings.catch_warnings():
                    warnings.simplefilter("ignore")
                    after = tn.gate(Gin, where if ng > 1 or rng.random() < 0.5 else where[0], contract=contract,
                                    propagate_tags=ptag, **opts)
            elif api == "gate_inds":
                opts = dict(kw)
                if user_tags is not None:
                    opts["tags"] = user_tags
                after = tn.gate_inds(Gin, inds, contract=contract, **opts)
            elif api == "with_tn":
                # the gate handed over as a tensor / a small network with its own labels
                lix = [f"out{i}" for i in range(ng)]
                rix = [f"in{i}" for i in range(ng)]
                if gate_factors is not None:
                    As, Bs = gate_factors
                    gate_net = qtn.TensorNetwork([qtn.Tensor(As, ["x", lix[0], rix[0]], tags=["GA"]),
                                                  qtn.Tensor(Bs, ["x", lix[1], rix[1]], tags=["GB"])])
                else:
                    gate_net = qtn.Tensor(Geff.reshape(dims + dims), lix + rix, tags=["GT"])
                after = tn.gate_inds_with_tn(inds, gate_net, rix, lix)
            else:  # Tensor.gate on the single tensor carrying the label
                after = tn.copy()
                (t,) = after._inds_get(inds[0])
                t.gate_(G, inds[0], transpose=(variant == "transpose"), preserve_inds=rng.random() < 0.5)
            ev = spy.ev
    except Exception as e:  # a documented mode raised on a valid input
        raised = e
    if raised is not None:
        ctx.violation(f"{keyp}:raised", f"{api} raised {type(raised).__name__}: {str(raised)[:160]}", desc)
        return
    act = observed_action(ev, False, before, after, inds) if api in ("gate", "gate_inds") else (
        "ALazy" if api == "with_tn" else "ASingleSite")
    desc["action"] = act
    ctx.bump("action:" + act)
    check_structure(ctx, desc, before, after, act, keyp)

    # ---- numpy oracle (always; the replay of a Coq mismatch)
    pos = [sites.index(s) for s in where]
    dall = [phys[s] for s in sites]
    d0v = dense_of(before, outs)
    want = apply_on_axes(Geff, dall, pos, d0v)
    try:
        got = dense_of(after, outs)
        ok = got.shape == want.shape and np.allclose(got, want, rtol=1e-9, atol=1e-9)
    except Exception as e:
        ok, got = False, None
        desc["oracle_error"] = f"{type(e).__name__}: {str(e)[:120]}"
    if not ok:
        ctx.violation(f"{keyp}:value", f"dense(after) != (operator on sites {list(map(str, where))}) @ dense(before)", desc)
        return

    # ---- exact comparison inside Coq
    try:
        base = tm.qtn_tensors(before)
        ren = {ix: ix + "@in" for ix in inds}
        expected = [(tuple(ren.get(i, i) for i in ii), arr) for ii, arr in base]
        expected.append((tuple(inds) + tuple(ren[i] for i in inds), Geff.reshape(dims + dims)))
        ea = float(after.exponent)
        if abs(ea - round(ea)) > 1e-12:
            raise tm.NotExact("non-integer exponent")
        if n % 2 == 0:
            # expected network built here (original tensors relabelled + gate tensor with explicit labels)
            col.add(desc, tm.same_value_expr(expected, st["e0"], tm.qtn_tensors(after), int(round(ea)), outs), "value:expected_network")
        else:
            # the executed right-hand side of the theorem on the ORIGINAL network (transposed wiring uses the original array)
            col.add(desc, op_dense_expr(base, st["e0"], outs, inds, G, dims, variant, tm.qtn_tensors(after), int(round(ea))),
                    "value:op_dense")
    except (tm.NotExact, ValueError) as e:
        ctx.bump("inexact_case_oracle_only")

    # ---- bookkeeping model: labels, tags, dispatch
    if api in ("gate", "gate_inds"):
        facts = geometry_facts(before, inds, Geff if variant == "plain" else G)
        col.add(desc, f"action_eqb (gate_action {'true' if (st['is1d'] and api == 'gate') else 'false'} {CM[mkey(contract)]} "
                      f"{ng} false {geom_lit(facts)}) {act}", "dispatch")
    if act == "ALazy" and api in ("gate", "gate_inds"):
        labels_case(col, desc, before, after, inds, transposed=(variant != "plain"))
        if api == "gate":
            tags_case(ctx, col, desc, before, after, inds, where, contract, ptag, user_tags)
        flag_check(ctx, desc, after, before, G, unitary, keyp)
    if api in ("gate", "gate_inds"):
        nettags_case(ctx, col, desc, before, after, inds, act, user_tags)


def op_dense_expr(base, e0, outs, inds, G, dims, variant, after_tensors, e_after):
    """check_gate dims ts outs inds tr gshape gdata e dims' ts' e'"""
    namer = tm.Namer()
    for o in outs:
        namer(o)
    dl, tl, _ = tm.net_literal(base, namer)
    ol = tm.nlist([namer(o) for o in outs])
    il = tm.nlist([namer(i) for i in inds])
    Garr = np.asarray(G)
    kw = kw_of(variant)
    tr = "true" if kw.get("transpose") else "false"
    dg = "true" if kw.get("dagger") else "false"
    gshape = tm.nlist(list(dims) + list(dims))
    gdata = tm.glist(Garr.reshape(-1))
    dl2, tl2, _ = tm.net_literal(after_tensors, namer)
    m = min(int(e0), int(e_after))
    # the options are handled INSIDE Coq as the code handles them (Model.gate_opts); the array is the caller's G
    return (f"check_gate_opts {dl} {tl} {ol} {il} {tr} {dg} {gshape} {gdata} ({int(e0) - m})%Z {dl2} {tl2} ({int(e_after) - m})%Z")


def labels_case(col, desc, before, after, inds, transposed):
    """canonicalised label structure of the lazily gated network == model gate_lazy_labels"""
    namer = tm.Namer()
    tn_l = []
    for tid, t in before.tensor_map.items():
        tn_l.append([namer(i) for i in t.inds])
    new = [tid for tid in after.tensor_map if tid not in before.tensor_map]
    if len(new) != 1:
        return
    gt = after.tensor_map[new[0]]
    base = len(namer.ids)  # model: fresh labels start above every label in use
    bnds = [i for i in gt.inds if i not in inds]
    fresh = {b: base + k for k, b in enumerate(bnds)}
    # the model orders the fresh labels like the targets: bnds[k] replaces inds[k]
    lab = lambda i: fresh[i] if i in fresh else namer.ids[i]
    impl = [[lab(i) for i in gt.inds]] + [[lab(i) for i in after.tensor_map[tid].inds] for tid in before.tensor_map]
    lit = lambda ll: "[" + "; ".join(natlist(l) for l in ll) + "]"
    col.add(desc, f"nll_eqb (gate_lazy_labels {'true' if transposed else 'false'} {lit(tn_l)} "
                  f"{natlist([namer.ids[i] for i in inds])}) {lit(impl)}", "labels")


def tags_case(ctx, col, desc, before, after, inds, where, contract, ptag, user_tags):
    """tags of the new gate tensor(s): model (in Coq) and the documented rule (direct oracle here)"""
    namer = tm.Namer()
    new = [tid for tid in after.tensor_map if tid not in before.tensor_map]
    touched = []
    for ix in inds:
        for tid in before.ind_map[ix]:
            if tid not in touched:
                touched.append(tid)
    site_tags = [t for t in before.site_tags]
    old = set()
    for t in touched:
        old |= set(before.tensor_map[t].tags)
    for gtid in new:
        gt = after.tensor_map[gtid]
        wh = [before.site_tag(s) for s, ix in zip(where, inds) if ix in gt.inds]
        want = set(user_tags or [])
        if ptag is True:
            want |= old
        elif ptag == "sites":
            want |= {t for t in old if t in site_tags}
        elif ptag == "register":
            want |= set(wh)
        if set(gt.tags) != want:
            ctx.violation(f"gate:tags:propagate_tags={mkey(ptag)}:contract={mkey(contract)}",
                          f"gate tensor tagged {sorted(gt.tags)}, documented rule gives {sorted(want)}", desc)
        col.add(desc, f"seteq (register_tags {PM[mkey(ptag)]} (gate_tags {CM[mkey(contract)]} {PM[mkey(ptag)]} "
                      f"{tags_lit(namer, user_tags or [])} "
                      f"[{'; '.join(tags_lit(namer, before.tensor_map[t].tags) for t in touched)}] "
                      f"{tags_lit(namer, site_tags)}) {tags_lit(namer, wh)}) {tags_lit(namer, gt.tags)}", "tags")


def nettags_case(ctx, col, desc, before, after, inds, act, user_tags):
    """tag lists of the whole network afterwards == model tags_after (as a set of sets)"""
    if not act.startswith("A") or act in ("A?", "ARejected"):
        return
    if user_tags and act not in ("AAutoSwap", "ANonlocal"):
        holders = [t for t in after.tensors if set(user_tags) <= set(t.tags)]
        if not holders or not any(set(t.inds) & set(inds) for t in holders):
            ctx.violation(f"gate:user_tags_dropped:{act}", f"the tags {user_tags} given for the gate are not on the tensor(s) "
                          "carrying the gated labels afterwards", desc)
    namer = tm.Namer()
    touched = set()
    for ix in inds:
        touched |= set(before.ind_map[ix])
    tn = "[" + "; ".join(f"({'true' if tid in touched else 'false'}, {tags_lit(namer, t.tags)})"
                         for tid, t in before.tensor_map.items()) + "]"
    gt = []
    if act in ("ALazy", "ALazySplitGate", "ALazySwapSplitGate"):
        gt = [after.tensor_map[tid].tags for tid in after.tensor_map if tid not in before.tensor_map]
    gl = "[" + "; ".join(tags_lit(namer, g) for g in gt) + "]"
    impl = "[" + "; ".join(tags_lit(namer, t.tags) for t in after.tensors) + "]"
    col.add(desc, f"sets_eq (tags_after {act} {gl} {tags_lit(namer, user_tags or [])} {tn}) {impl}", "network_tags")


def flag_check(ctx, desc, after, before, G, unitary, keyp):
    """DESIGN F16: the lazy gate tensor claims left_inds (isometry) although G is not an isometry"""
    new = [tid for tid in after.tensor_map if tid not in before.tensor_map]
    for tid in new:
        t = after.tensor_map[tid]
        if t.left_inds is not None and not unitary:
            ctx.bump("flag:left_inds_on_nonunitary")
            ctx.violation("gate_inds:lazy:left_inds_flag:nonunitary",
                          "lazy gate tensor created with left_inds although the gate is not an isometry", desc)


# ----------------------------------------------------------------------------
# operator-like networks: upper / lower / sandwich


def operator_case(ctx, col, stream, n):
    rng = random.Random(f"{ctx.seed}:{stream}:{n}")
    st = build_operator(rng)
    tn, sites, phys = st["tn"], st["sites"], st["phys"]
    where = pick_where(rng, sites, k=rng.choice([1, 1, 2, 2, 3]))
    ng = len(where)
    dims = [phys[s] for s in where]
    G, gclass, unitary = build_gate(rng, dims)
    which = rng.choice([None, "upper", "lower", "sandwich", "both"])
    rng.choice(VARIANTS)
    variant = VARIANTS[n % 4]
    if variant != "plain":
        G, gclass, unitary = asym_gate(rng, dims, G, gclass, unitary)
    contract = rng.choice([False, True])
    api = rng.choice(["gate", "gate", "gate_sandwich_inds"])
    kw = kw_of(variant)
    desc = {"stream": stream, "n": n, "geometry": st["kind"], "sites": len(sites), "phys": [phys[s] for s in sites],
            "where": [str(w) for w in where], "gate": gclass, "which": str(which), "variant": variant,
            "contract": mkey(contract), "api": api}
    keyp = f"opgate:{st['kind']}:which={which}:contract={mkey(contract)}"
    ctx.count((st["kind"], tuple(phys[s] for s in sites), gclass, tuple(map(str, where)), str(which), variant, mkey(contract), api, n),
              not np.allclose(G, np.eye(G.shape[0])))
    ctx.bump("geom:" + st["kind"])
    ctx.bump("which:" + str(which))
    before = tn.copy()
    up = tuple(tn.upper_ind(s) for s in where)
    lo = tuple(tn.lower_ind(s) for s in where)
    try:
        if api == "gate_sandwich_inds":
            which = "sandwich"
            after = tn.gate_sandwich_inds(G, up, lo, contract=contract, tags=["G"], tags_upper=["GU"], tags_lower=["GL"], **kw)
        else:
            after = tn.gate(G, where, which=which, contract=contract, **kw)
    except Exception as e:
        ctx.violation(f"{keyp}:raised", f"operator gate raised {type(e).__name__}: {str(e)[:160]}", desc)
        return
    check_structure(ctx, desc, before, after, "?", keyp)
    outs = tuple(tn.upper_ind(s) for s in sites) + tuple(tn.lower_ind(s) for s in sites)
    nS = len(sites)
    dall = [phys[s] for s in sites] * 2
    pos_u = [sites.index(s) for s in where]
    pos_l = [nS + p for p in pos_u]
    Ge = eff_gate(G, **kw)
    if variant == "plain":
        U, Lw = G, G.conj()
    elif variant == "transpose":
        U, Lw = G.T, G.conj().T
    else:  # dagger, with or without transpose: G^dagger X G
        U, Lw = G.conj().T, G.T
    v = dense_of(before, outs)
    gates = []  # (labels acted on, effective matrix)
    if which in (None, "sandwich", "both"):
        want = apply_on_axes(Lw, dall, pos_l, apply_on_axes(U, dall, pos_u, v))
        gates = [(up, U), (lo, Lw)]
    elif which == "upper":
        want = apply_on_axes(Ge, dall, pos_u, v)
        gates = [(up, Ge)]
    else:
        want = apply_on_axes(Ge, dall, pos_l, v)
        gates = [(lo, Ge)]
    got = dense_of(after, outs)
    if got.shape != want.shape or not np.allclose(got, want, rtol=1e-9, atol=1e-9):
        ctx.violation(f"{keyp}:value", "operator network after gating is not G X (G^dagger) of the network before", desc)
        return
    try:
        base = tm.qtn_tensors(before)
        ren = {ix: ix + "@in" for ix in up + lo if any(ix in g[0] for g in gates)}
        expected = [(tuple(ren.get(i, i) for i in ii), arr) for ii, arr in base]
        for labs, M in gates:
            expected.append((tuple(labs) + tuple(ren[i] for i in labs), np.asarray(M).reshape(dims + dims)))
        col.add(desc, tm.same_value_expr(expected, 0, tm.qtn_tensors(after), int(round(float(after.exponent))), outs),
                "value:expected_network")
    except (tm.NotExact, ValueError):
        ctx.bump("inexact_case_oracle_only")


# ----------------------------------------------------------------------------
# oracle stream: splitting / swapping / sub-operator modes (tolerance), dispatch, rejection


def oracle_case(ctx, col, stream, n):
    import quimb.tensor as qtn

    rng = random.Random(f"{ctx.seed}:{stream}:{n}")
    weak = rng.choice(WEAK_EPS) if n % 3 == 1 else None  # every third case: Schmidt values (1, ~eps): a truncation
    st = build_state(rng, big=(n % 4 == 0), weak=weak)   # at ANY library default instead of the caller's 0 shows
    tn, sites, phys = st["tn"], st["sites"], st["phys"]
    is1d = st["is1d"]
    ng = rng.choice([1, 2, 2, 2, 2, 3])
    ng = min(ng, len(sites))
    where = None
    want_far = is1d and len(sites) >= 4 and rng.random() < 0.35
    if ng == 2 and want_far:
        a, b = rng.sample(sites, 2)
        while abs(sites.index(a) - sites.index(b)) < 2:
            a, b = rng.sample(sites, 2)
        where = (a, b)
    elif ng == 2 and rng.random() < 0.6:
        # prefer connected pairs so that the pair-splitting modes are reachable
        pairs = []
        for a in sites:
            for b in sites:
                if a != b and set(tn[tn.site_tag(a)].inds) & set(tn[tn.site_tag(b)].inds):
                    pairs.append((a, b))
        if pairs:
            where = rng.choice(pairs)
    where = where or pick_where(rng, sites, k=ng)
    ng = len(where)
    dims = [phys[s] for s in where]
    G, gclass, unitary = build_gate(rng, dims)
    modes = MODES if is1d else MODES[:7] + ([rng.choice(MODES[7:])] if rng.random() < 0.3 else [])
    contract = rng.choice(modes[2:]) if rng.random() < 0.9 else rng.choice(modes[:2])
    if want_far and ng == 2 and rng.random() < 0.7:
        contract = rng.choice(["swap+split", "swap+split", "auto-mps", "nonlocal"])
    opts = {"cutoff": 0.0}
    if contract == "auto-split-gate" and ng == 2 and rng.random() < 0.6 and well_conditioned(G, dims):
        opts = {}  # default cutoff: only exactly-zero singular values are discarded (rank detection of 'auto')
    api = "gate"
    variant = "plain"
    if contract in (False, True, "split", "reduce-split", "split-gate", "swap-split-gate", "auto-split-gate") and rng.random() < 0.4:
        variant = rng.choice(["transpose", "dagger", "both"])
        G, gclass, unitary = asym_gate(rng, dims, G, gclass, unitary)
    if is1d and ng == 2 and contract == "swap+split" and rng.random() < 0.5:
        api = "gate_with_auto_swap"
        opts["swap_back"] = rng.random() < 0.5
    if is1d and contract == "nonlocal" and ng >= 2 and rng.random() < 0.5:
        api = rng.choice(["gate_nonlocal", "gate_with_submpo"])
        if rng.random() < 0.4:
            variant = "transpose"
    if is1d and ng == 2 and contract == "split" and rng.random() < 0.3 and abs(sites.index(where[0]) - sites.index(where[1])) == 1:
        api = "gate_split"
    ptag = rng.choice(["sites", "register", False, True])
    # (transpose, dagger) on the MPS routes too (own generator: the older draws keep their values)
    rng3 = random.Random(f"{ctx.seed}:{stream}:{n}:mps_route_variant")
    if api == "gate" and is1d and ng >= 2 and variant == "plain" and contract in ("swap+split", "nonlocal", "auto-mps") \
            and rng3.random() < 0.5:
        submpo = contract == "nonlocal" or (contract == "auto-mps" and ng >= 3)
        variant = rng3.choice(VARIANTS[1:] if (not submpo or nonlocal_reads_dagger()) else ["transpose"])
        G, gclass, unitary = asym_gate(rng3, dims, G, gclass, unitary)
    inds = tuple(tn.site_ind(s) for s in where)
    outs = tuple(tn.site_ind(s) for s in sites)
    kw = kw_of(variant)
    if "cutoff" in opts and rng.random() < 0.5:
        opts["max_bond"] = None  # "no truncation" spelled out both ways
    desc = {"stream": stream, "n": n, "geometry": st["kind"], "sites": len(sites), "phys": [phys[s] for s in sites],
            "where": [str(w) for w in where], "gate": gclass, "api": api, "variant": variant, "contract": mkey(contract),
            "opts": {k: v for k, v in opts.items()}, "propagate_tags": mkey(ptag), "exponent": st["e0"],
            "weak_entanglement_eps": weak}
    keyp = f"{api}:{st['kind']}:contract={mkey(contract)}"
    ctx.count((st["kind"], tuple(phys[s] for s in sites), gclass, tuple(map(str, where)), api, variant, mkey(contract),
               json.dumps(opts, sort_keys=True), n), not np.allclose(G, np.eye(G.shape[0])))
    ctx.bump("geom:" + st["kind"])
    ctx.bump(f"arity:{ng}")
    ctx.bump("contract:" + mkey(contract))
    ctx.bump("api:" + api)
    before = tn.copy()
    Geff = eff_gate(G, **kw)
    raised, after, ev = None, None, []
    try:
        with Spy() as spy, warnings.catch_warnings():
            warnings.simplefilter("ignore")
            if api == "gate":
                after = tn.gate(G, where if ng > 1 else where[0], contract=contract, propagate_tags=ptag, tags=["G"], **opts, **kw)
            elif api == "gate_split":
                after = tn.gate_split(G, where, **opts, **kw)  # forwards to gate_inds: dagger / transpose offered
            elif api == "gate_with_auto_swap":
                after = tn.gate_with_auto_swap(G, where, **opts)
            elif api == "gate_nonlocal":
                after = tn.gate_nonlocal(G, where, cutoff=0.0, transpose=(variant == "transpose"))
            else:
                mpo = qtn.MatrixProductOperator.from_dense(G, dims=dims, sites=where, L=len(sites))
                after = tn.gate_with_submpo(mpo, where=where if rng.random() < 0.5 else None, cutoff=0.0,
                                            transpose=(variant == "transpose"),
                                            method=rng.choice(["direct", "direct", "lazy"]))
            ev = spy.ev
    except Exception as e:
        raised = e
    act = observed_action(ev, raised is not None, before, after, inds) if api == "gate" else api
    desc["action"] = act
    ctx.bump("action:" + act)
    if api == "gate":
        facts = geometry_facts(before, inds, Geff if variant == "plain" else G)
        # ranks are only looked at by 'auto-split-gate' with a rank-revealing cutoff
        if "cutoff" in opts and ng == 2:
            # no truncation at all: the bond sizes are those of a full-rank factorisation
            facts["spat"], facts["swap"] = min(dims[0] ** 2, dims[1] ** 2), dims[0] * dims[1]
        col.add(desc, f"action_eqb (gate_action {'true' if is1d else 'false'} {CM[mkey(contract)]} {ng} false {geom_lit(facts)}) {act}",
                "dispatch")
    if raised is not None:
        desc["raised"] = f"{type(raised).__name__}: {str(raised)[:120]}"
        if api != "gate" or not must_reject(is1d, contract, ng, facts):
            ctx.violation(f"{keyp}:arity={ng}:raised", f"{api} raised {desc['raised']} on a mode / arity the geometry accepts", desc)
        ctx.bump("rejected")
        return
    check_structure(ctx, desc, before, after, act if api == "gate" else
                    ("AAutoSwap" if api in ("gate_split",) or (api == "gate_with_auto_swap" and opts.get("swap_back")) else "?"), keyp)
    pos = [sites.index(s) for s in where]
    dall = [phys[s] for s in sites]
    want = apply_on_axes(Geff, dall, pos, dense_of(before, outs))
    got = dense_of(after, outs)
    if api == "gate_with_auto_swap" and not opts["swap_back"] and abs(pos[0] - pos[1]) > 1:
        # documented: for i<j site j stays at i+1, sites between are shifted one up
        i, j = sorted(pos)
        order = list(range(len(sites)))
        order.remove(j)
        order.insert(i + 1, j)  # position p now holds original site order[p]
        T = want.reshape(dall)
        want = np.transpose(T, order).reshape(-1)
        col.add(desc, f"nl_eqb (auto_swap_order {len(sites)} {pos[0]} {pos[1]} false) {natlist(order)}", "swap_order")
        dperm = [dall[o] for o in order]
        if [after.ind_size(o) for o in outs] != dperm:
            ctx.violation(f"{keyp}:swap_back=False:dims", "physical dimensions after the un-swapped gate are not the shifted ones", desc)
            return
    if api in ("gate", "gate_with_auto_swap") and (act == "AAutoSwap" or api == "gate_with_auto_swap"):
        forwarding_case(col, desc, ev, pos, opts)
    # no truncation was requested (cutoff=0): the result is exact up to double-precision round-off of the
    # decompositions, so the tolerance is scaled to that (1e-11 of the largest amplitude), not to a cutoff
    if got.shape != want.shape or not np.allclose(got, want, rtol=0.0, atol=1e-11 * max(1.0, np.abs(want).max())):
        ctx.violation(f"{keyp}:value", f"dense(after) != (operator on sites {list(map(str, where))}) @ dense(before) "
                                       f"[max err {float(np.abs(got - want).max()) if got.shape == want.shape else 'shape'}]", desc)
        return
    if api == "gate" and act in ("ALazySplitGate", "ALazySwapSplitGate"):
        tags_case(ctx, col, desc, before, after, inds, where, contract, ptag, ["G"])
        split_labels_case(col, desc, before, after, inds, act == "ALazySwapSplitGate")
    if api == "gate":
        nettags_case(ctx, col, desc, before, after, inds, act, ["G"])
    if api == "gate" and act == "ALazy":
        flag_check(ctx, desc, after, before, G, unitary, keyp)


def forwarding_case(col, desc, ev, pos, opts):
    """every split gate_with_auto_swap performs must work with the caller's compression options
    (model: auto_swap_splits; 1 = the caller's cutoff / max_bond arrived, 0 = something else)"""
    obs = []
    for tag, k in ev:
        if tag != "tsplit" or not isinstance(k, dict):
            continue
        same = k.get("cutoff", "absent") == opts.get("cutoff", "absent") and ("max_bond" in k) == ("max_bond" in opts)
        obs.append(f"({'true' if k.get('absorb') == 'left' else 'false'}, {1 if same else 0}%nat)")
    sb = "true" if opts.get("swap_back", True) else "false"
    col.add({**desc, "splits_observed": obs},
            f"bn_eqb (auto_swap_splits {pos[0]}%nat {pos[1]}%nat {sb} 1%nat) [{'; '.join(obs)}]", "option_forwarding")


def weak_swap_stream(ctx, col):
    """swap+split family on NON-adjacent sites of weakly entangled MPS with truncation switched off: exact"""
    for n in range(ctx.n(40, 400)):
        weak_swap_case(ctx, col, n)


def weak_swap_case(ctx, col, n):
    if True:
        rng = random.Random(f"{ctx.seed}:weakswap:{n}")
        eps = WEAK_EPS[n % len(WEAK_EPS)]
        st = build_state(rng, kind=rng.choice(["mps", "mps", "mps_cyclic"]), big=True, weak=eps)
        while len(st["sites"]) < 4:
            st = build_state(rng, kind="mps", big=True, weak=eps)
        tn, sites, phys = st["tn"], st["sites"], st["phys"]
        a, b = rng.sample(sites, 2)
        while abs(a - b) < 2:
            a, b = rng.sample(sites, 2)
        where = (a, b)
        dims = [phys[s] for s in where]
        G, gclass, _ = build_gate(rng, dims, gclass=rng.choice(["perm", "diagperm", "cnot" if dims == [2, 2] else "perm", "int", "gauss"]))
        mode = rng.choice(["swap+split", "auto-mps", "gate_with_auto_swap", "gate_with_auto_swap:noback"])
        opts = {"cutoff": 0.0}
        if rng.random() < 0.5:
            opts["max_bond"] = None
        outs = tuple(tn.site_ind(s) for s in sites)
        dall = [phys[s] for s in sites]
        desc = {"stream": "weakswap", "n": n, "geometry": st["kind"], "phys": dall, "where": list(where), "gate": gclass,
                "mode": mode, "opts": dict(opts), "weak_entanglement_eps": eps, "api": "gate"}
        ctx.count(("weakswap", st["kind"], tuple(dall), where, gclass, mode, json.dumps(opts), n), True)
        ctx.bump("weakswap:" + mode)
        before = tn.copy()
        try:
            with Spy() as spy, warnings.catch_warnings():
                warnings.simplefilter("ignore")
                if mode in ("swap+split", "auto-mps"):
                    after = tn.gate(G, where, contract=mode, **opts)
                else:
                    opts["swap_back"] = not mode.endswith("noback")
                    after = tn.gate_with_auto_swap(G, where, **opts)
                ev = spy.ev
        except Exception as e:
            ctx.violation(f"gate:{st['kind']}:contract=swap+split:weak:raised", f"{mode} raised {type(e).__name__}: {str(e)[:140]}", desc)
            return
        forwarding_case(col, desc, ev, list(where), opts)
        want = apply_on_axes(G, dall, list(where), dense_of(before, outs))
        if not opts.get("swap_back", True):
            i, j = sorted(where)
            order = list(range(len(sites)))
            order.remove(j)
            order.insert(i + 1, j)
            want = np.transpose(want.reshape(dall), order).reshape(-1)
        got = dense_of(after, outs)
        if got.shape != want.shape or not np.allclose(got, want, rtol=0.0, atol=1e-11 * max(1.0, np.abs(want).max())):
            err = float(np.abs(got - want).max() / max(1.0, np.abs(want).max())) if got.shape == want.shape else "shape"
            ctx.violation(f"gate:{st['kind']}:contract=swap+split:cutoff=0:weakly_entangled:value",
                          f"{mode} with truncation switched off is not exact on a weakly entangled state (relative error {err})", desc)


# ----------------------------------------------------------------------------
# naming: the network's own naming scheme and labels that coincide with names the library uses internally

KEY_SPLIT_GATE_B = "gate_inds:lazy_split_gate:outer_label_named_b:outer_labels"
KEY_NONLOCAL_SITE_TAGS = "gate_nonlocal:site_tag_id=custom:submpo_left_uncontracted"
INTERNAL_NAMES = ["b", "l0", "l1", "r0", "r1", "__tmp__"]  # fixed names in gating.py / tn1d/core.py
IND_IDS = {1: ["k{}", "q{}", "b{}", "phys{}", "l{}"], 2: ["k{},{}", "q{},{}", "b{},{}"]}
TAG_IDS = {1: ["I{}", "S{}", "Q{}", "G{}"], 2: ["I{},{}", "S{},{}"]}


def split_labels_case(col, desc, before, after, inds, swap):
    """label structure of the lazily attached SPLIT gate == model split_gate_labels, with the bond label the
    implementation actually used (theorem C06_split_gate_outer_preserved needs that label to be unused)"""
    new = [tid for tid in after.tensor_map if tid not in before.tensor_map]
    if len(new) != 2 or len(inds) != 2:
        return None
    g0 = [tid for tid in new if inds[0] in after.tensor_map[tid].inds]
    g1 = [tid for tid in new if inds[1] in after.tensor_map[tid].inds]
    if len(g0) != 1 or len(g1) != 1 or g0 == g1:
        return None
    t0, t1 = after.tensor_map[g0[0]], after.tensor_map[g1[0]]
    common = [i for i in t0.inds if i in t1.inds]
    if len(common) != 1:
        return None
    bond = common[0]
    namer = tm.Namer()
    tn_l = [[namer(i) for i in t.inds] for t in before.tensor_map.values()]
    base = len(namer.ids)
    # fresh label k = the new label on the old holder of target k
    fresh = {}
    for k, ix in enumerate(inds):
        (holder,) = before.ind_map[ix]
        newl = [i for i in after.tensor_map[holder].inds if i not in before.tensor_map[holder].inds]
        if len(newl) != 1:
            return None
        fresh[newl[0]] = base + k
    bid = namer.ids[bond] if bond in namer.ids else base + 2
    lab = lambda i: fresh[i] if i in fresh else (bid if i == bond else namer.ids[i])
    try:
        impl = [[lab(i) for i in t0.inds], [lab(i) for i in t1.inds]] + \
               [[lab(i) for i in after.tensor_map[tid].inds] for tid in before.tensor_map]
    except KeyError:
        return None
    lit = lambda ll: "[" + "; ".join(natlist(l) for l in ll) + "]"
    col.add({**desc, "split_gate_bond_label": bond},
            f"sets_eq (split_gate_labels {'true' if swap else 'false'} {bid} {lit(tn_l)} {namer.ids[inds[0]]} {namer.ids[inds[1]]}) "
            f"{lit(impl)}", "split_gate_labels")
    return bond


def naming_stream(ctx, col):
    for n in range(ctx.n(240, 2400)):
        naming_case(ctx, col, n)


def naming_case(ctx, col, n):
    """the property quantifies over networks, not over quimb's default names: site_ind_id / site_tag_id other than
    'k{}' / 'I{}', and extra labels (a dangling open label, or a renamed bond) that coincide with names the library
    hard-codes internally.  Every mode the geometry accepts; oracle = numpy embedding (1e-9, a test); outer labels,
    naming scheme and - for the MPS routes - the MPS form (one tensor per site, no foreign tags) compared exactly."""
    rng = random.Random(f"{ctx.seed}:naming:{n}")
    rng_id = random.Random(f"{ctx.seed}:naming:{n}:ids")
    chosen = {}

    def ids(kind):
        nph = 2 if kind == "peps" else 1
        chosen["nph"] = nph
        if n % 4 == 0:   # default scheme, only the extra label is unusual
            chosen["ids"] = (IND_IDS[nph][0], TAG_IDS[nph][0])
        else:
            chosen["ids"] = (rng_id.choice(IND_IDS[nph]), rng_id.choice(TAG_IDS[nph]))
        return {"site_ind_id": chosen["ids"][0], "site_tag_id": chosen["ids"][1]}

    st = build_state(rng, big=False, ids=ids)
    tn, sites, phys, is1d = st["tn"], st["sites"], st["phys"], st["is1d"]
    nph = chosen["nph"]
    ind_id, tag_id = chosen["ids"]
    ng = min(rng.choice([1, 2, 2, 2, 3]), len(sites))
    where = None
    if ng == 2 and rng.random() < 0.6:
        where = _connected_pair(rng, tn, sites)
    where = where or pick_where(rng, sites, k=ng)
    ng = len(where)
    inds = tuple(tn.site_ind(s_) for s_ in where)
    dims = [phys[s_] for s_ in where]
    G, gclass, unitary = build_gate(rng, dims)
    variant = rng.choice(VARIANTS) if rng.random() < 0.4 else "plain"
    if variant != "plain":
        G, gclass, unitary = asym_gate(rng, dims, G, gclass, unitary)
    api = rng.choice(["gate", "gate", "gate_inds"])
    facts = geometry_facts(tn, inds, G)
    modes = [c for c in (MODES if (is1d and api == "gate") else MODES[:7])
             if not must_reject(is1d and api == "gate", c, ng, facts)]
    contract = rng.choice(modes)
    mps_modes = [c for c in modes if c in ("swap+split", "nonlocal", "auto-mps")]
    if mps_modes and ng >= 2 and rng.random() < 0.4:
        contract = rng.choice(mps_modes)
    mps_route = is1d and api == "gate" and ng >= 2 and contract in ("swap+split", "nonlocal", "auto-mps")
    submpo = mps_route and (contract == "nonlocal" or (contract == "auto-mps" and ng >= 3))
    if submpo and variant in ("dagger", "both") and not nonlocal_reads_dagger():
        variant = "transpose"   # registered separately (KEY_NONLOCAL_DAGGER, options stream)
    # the extra label
    extra_kind = rng.choice(["dangling", "dangling", "bond", None])
    if mps_route and extra_kind == "dangling":
        extra_kind = "bond"     # the MPS routes are documented for matrix product states (no further open labels)
    free = [x for x in INTERNAL_NAMES if x not in tn.ind_map]   # (site_ind_id 'l{}' makes l0, l1 site labels)
    name = rng.choice(free) if free else None
    if name is None:
        extra_kind = None
    extra = None
    if extra_kind == "dangling":
        t = rng.choice(list(tn.tensors))
        d = rng.choice([2, 3])
        coef = [1.0, -1.0, 2.0][:d]
        t.modify(data=np.stack([np.asarray(t.data) * c for c in coef], axis=-1), inds=(*t.inds, name))
        extra = (name, d)
    elif extra_kind == "bond":
        inner = sorted(tn.inner_inds())
        if inner:
            tn.reindex_({rng.choice(inner): name})
        else:
            extra_kind = None
    kw = kw_of(variant)
    outs = tuple(tn.site_ind(s_) for s_ in sites) + ((extra[0],) if extra else ())
    dall = [phys[s_] for s_ in sites] + ([extra[1]] if extra else [])
    pos = [sites.index(s_) for s_ in where]
    desc = {"stream": "naming", "n": n, "geometry": st["kind"], "phys": [phys[s_] for s_ in sites], "where": [str(w) for w in where],
            "site_ind_id": ind_id, "site_tag_id": tag_id, "extra_label": name if extra_kind else None, "extra_label_kind": extra_kind,
            "gate": gclass, "api": api, "variant": variant, "contract": mkey(contract)}
    keyp = f"{api}:{st['kind']}:contract={mkey(contract)}:naming"
    ctx.count(("naming", json.dumps(desc, sort_keys=True, default=str)), not np.allclose(G, np.eye(G.shape[0])))
    ctx.bump("naming:ids:" + ("default" if (ind_id, tag_id) == (IND_IDS[nph][0], TAG_IDS[nph][0]) else "custom"))
    ctx.bump("naming:extra:" + str(extra_kind))
    ctx.bump("contract:" + mkey(contract))
    before = tn.copy()
    want = apply_on_axes(eff_gate(G, **kw), dall, pos, dense_of(before, outs))
    try:
        with Spy() as spy, warnings.catch_warnings():
            warnings.simplefilter("ignore")
            if api == "gate":
                after = tn.gate(G, where if ng > 1 else where[0], contract=contract, cutoff=0.0, **kw)
            else:
                after = tn.gate_inds(G, inds, contract=contract, cutoff=0.0, **kw)
            ev = spy.ev
    except Exception as e:
        ctx.violation(f"{keyp}:raised", f"{api} raised {type(e).__name__}: {str(e)[:160]}", desc)
        return
    act = observed_action(ev, False, before, after, inds)
    desc["action"] = act
    bond = None
    if act in ("ALazySplitGate", "ALazySwapSplitGate"):
        bond = split_labels_case(col, desc, before, after, inds, act == "ALazySwapSplitGate")
    ob, oa = set(before.outer_inds()), set(after.outer_inds())
    if ob != oa:
        if bond is not None and bond in before.ind_map and (ob ^ oa) == {bond}:
            # the bond label of the split gate is a FIXED name that the network already uses for an open label
            ctx.violation(KEY_SPLIT_GATE_B if bond == "b" else f"{keyp}:split_gate_bond_label_in_use:outer_labels",
                          f"the split gate's bond is named {bond!r}, which is an open label of the network: it is no longer open", desc)
        else:
            ctx.violation(f"{keyp}:outer_labels", f"outer labels changed: {sorted(ob ^ oa)}", desc)
        return
    if after.site_ind_id != ind_id or after.site_tag_id != tag_id or \
            any(after.site_ind(s_) not in oa or before.site_tag(s_) not in after.tag_map for s_ in sites):
        ctx.violation(f"{keyp}:naming_scheme", "site_ind_id / site_tag_id or a site's label / tag is not preserved", desc)
        return
    if act in ("AAutoSwap", "ANonlocal", "ASingleSite", "ASplit", "AReduceSplit"):
        # structure-preserving modes: still one tensor per site, nothing but the network's own tags
        ok = after.num_tensors == before.num_tensors and set(after.tags) <= set(before.tags) and \
            all(len(after.select_tensors(before.site_tag(s_))) == len(before.select_tensors(before.site_tag(s_))) for s_ in sites)
        if not ok:
            stray = sorted(set(after.tags) - set(before.tags))
            if act == "ANonlocal" and tag_id != "I{}" and stray and all(re.fullmatch(r"I\d+", t_) for t_ in stray):
                ctx.violation(KEY_NONLOCAL_SITE_TAGS, f"the sub-MPO built with the default site_tag_id stays uncontracted "
                              f"({after.num_tensors} tensors, stray tags {stray}) on an MPS with site_tag_id={tag_id!r}", desc)
            else:
                ctx.violation(f"{keyp}:structure", f"{act}: {before.num_tensors} -> {after.num_tensors} tensors, stray tags {stray}", desc)
            # the dense form is still compared below
    try:
        got = dense_of(after, outs)
        ok = got.shape == want.shape and np.allclose(got, want, rtol=1e-9, atol=1e-9 * max(1.0, np.abs(want).max()))
    except Exception as e:
        ok = False
        desc["oracle_error"] = f"{type(e).__name__}: {str(e)[:120]}"
    if not ok:
        ctx.violation(f"{keyp}:value", f"dense(after) != (operator on sites {list(map(str, where))}) @ dense(before)", desc)


def op_lazy_stream(ctx):
    """the operator handed over as a NETWORK (sub-operator on the target sites, or an operator of matching structure):
    gate_with_op_lazy / apply on vectors, gate_{upper,lower,sandwich}_with_op_lazy / apply on operators, with
    transpose / dagger / contract / inplace.  Oracle: dense matrices (1e-9, a test).  Sub-operators covering fewer
    sites are only drawn for vectors: for operator targets the documentation asks for matching structure."""
    import quimb.tensor as qtn

    TF = (False, True)
    for n in range(ctx.n(5, 60)):
        rng = random.Random(f"{ctx.seed}:oplazy:{n}")
        st = build_weak_mpo(rng, None)
        X, sites, phys = st["tn"], st["sites"], st["phys"]
        L = len(sites)
        dl = [phys[s_] for s_ in sites]
        D = int(np.prod(dl))
        A = qtn.MPO_rand(L, 2, phys_dim=2, seed=rng.randint(0, 10**6))
        pm = {}
        for s_ in sites:
            pm[A.upper_ind(s_)] = pm[A.lower_ind(s_)] = phys[s_]
        refill(A, rng, True, lambda ix: pm.get(ix, 2))
        psi = qtn.MPS_rand_state(L, 2, seed=rng.randint(0, 10**6))
        refill(psi, rng, rng.random() < 0.5, lambda ix: phys[int(ix[1:])] if ix.startswith("k") else 2)
        ul = tuple(X.upper_ind(s_) for s_ in sites) + tuple(X.lower_ind(s_) for s_ in sites)
        ks = tuple(psi.site_ind(s_) for s_ in sites)
        Ad = dense_of(A, ul).reshape(D, D)
        Xd = dense_of(X, ul).reshape(D, D)
        xd = dense_of(psi, ks)
        # a sub-operator on some of the sites, any order
        where = pick_where(rng, sites, k=rng.choice([1, 2, 2, 3]))
        dims = [phys[s_] for s_ in where]
        G, gclass, _ = asym_gate(rng, dims, *build_gate(rng, dims, gclass="gauss"))
        sub = qtn.MatrixProductOperator.from_dense(G, dims=dims, sites=where, L=L, cutoff=0.0)
        pos = [sites.index(s_) for s_ in where]
        base = {"stream": "oplazy", "n": n, "phys": dl, "where": list(where)}

        def run(api, desc, obj, call, outs, want, ip):
            _opt_call(ctx, api, {**base, **desc, "api": api}, obj, call, ip, outs, want, f"{api}:options:" +
                      ":".join(f"{k}={v}" for k, v in desc.items() if k != "inplace"))

        for tr, ip in itertools.product(TF, TF):
            run("gate_with_op_lazy", {"operator": "matching", "transpose": tr, "inplace": ip}, psi.copy(),
                lambda t, tr=tr, ip=ip: t.gate_with_op_lazy(A, transpose=tr, inplace=ip), ks, (Ad.T if tr else Ad) @ xd, ip)
            run("gate_with_op_lazy", {"operator": "sub", "transpose": tr, "inplace": ip}, psi.copy(),
                lambda t, tr=tr, ip=ip: t.gate_with_op_lazy(sub, transpose=tr, inplace=ip), ks,
                apply_on_axes(G.T if tr else G, dl, pos, xd), ip)
            run("gate_upper_with_op_lazy", {"transpose": tr, "inplace": ip}, X.copy(),
                lambda t, tr=tr, ip=ip: t.gate_upper_with_op_lazy(A, transpose=tr, inplace=ip), ul,
                ((Ad.T if tr else Ad) @ Xd).reshape(-1), ip)
            run("gate_lower_with_op_lazy", {"transpose": tr, "inplace": ip}, X.copy(),
                lambda t, tr=tr, ip=ip: t.gate_lower_with_op_lazy(A, transpose=tr, inplace=ip), ul,
                (Xd @ (Ad.T if tr else Ad)).reshape(-1), ip)
            run("gate_sandwich_with_op_lazy", {"dagger": tr, "inplace": ip}, X.copy(),
                lambda t, tr=tr, ip=ip: t.gate_sandwich_with_op_lazy(A, dagger=tr, inplace=ip), ul,
                ((Ad.conj().T @ Xd @ Ad) if tr else (Ad @ Xd @ Ad.conj().T)).reshape(-1), ip)
        for ct in TF:
            # apply: `inplace` consumes the OPERATOR that acts, the target is never modified
            run("apply", {"target": "vector", "operator": "matching", "contract": ct, "inplace": False}, psi.copy(),
                lambda t, ct=ct: A.apply(t, contract=ct), ks, Ad @ xd, False)
            run("apply", {"target": "vector", "operator": "sub", "contract": ct, "inplace": False}, psi.copy(),
                lambda t, ct=ct: sub.apply(t, contract=ct), ks, apply_on_axes(G, dl, pos, xd), False)
            run("apply", {"target": "operator", "operator": "matching", "contract": ct, "inplace": False}, X.copy(),
                lambda t, ct=ct: A.apply(t, contract=ct), ul, (Ad @ Xd).reshape(-1), False)


def build_weak_mpo(rng, eps):
    """integer / dyadic open MPO, L 3-5, mixed physical dims; eps: operator-Schmidt values (1, ~eps, ..) across every bond"""
    import quimb.tensor as qtn

    L = rng.randint(3, 5)
    cplx = rng.random() < 0.35
    tn = qtn.MPO_rand(L, 2, phys_dim=2, seed=rng.randint(0, 10**6))
    sites = list(range(L))
    phys = {s_: rng.choice([2, 2, 3]) for s_ in sites}
    if L >= 5:
        phys = {s_: (d if i < 2 else 2) for i, (s_, d) in enumerate(phys.items())}
    pmap = {}
    for s_ in sites:
        pmap[tn.upper_ind(s_)] = phys[s_]
        pmap[tn.lower_ind(s_)] = phys[s_]
    bsize = {}

    def size_of(ix):
        if ix in pmap:
            return pmap[ix]
        if ix not in bsize:
            bsize[ix] = rng.choice([1, 2, 2, 3] if L <= 4 else [1, 2, 2])
        return bsize[ix]

    refill(tn, rng, cplx, size_of)
    if eps is not None:
        weaken(tn, eps)
    return {"tn": tn, "kind": "mpo", "sites": sites, "phys": phys, "cplx": cplx}


def mpo_swap_stream(ctx, col):
    """operator-like 1D networks through the structure-preserving sandwich modes, truncation switched off"""
    for n in range(ctx.n(90, 900)):
        mpo_swap_case(ctx, col, n)


def mpo_swap_case(ctx, col, n):
    """MatrixProductOperator.gate_sandwich_with_auto_swap (swap together, sandwich, split, swap back) and the
    pair-splitting sandwich / upper / lower gates on adjacent sites, on MPOs whose correlations are weak
    (operator-Schmidt values 1, 2^-10 .. 2^-23: a truncation at any library default instead of the caller's
    cutoff=0 shows) or O(1).  Oracle: dense numpy embedding IG X IG^dagger, tolerance 1e-11 of the largest entry
    (round-off of the decompositions) - a test, not a theorem; the forwarding of the options to every split and the
    site permutation without swap_back are compared exactly with the model inside Coq."""
    rng = random.Random(f"{ctx.seed}:mposwap:{n}")
    eps = WEAK_EPS[n % len(WEAK_EPS)] if n % 4 else None
    st = build_weak_mpo(rng, eps)
    tn, sites, phys = st["tn"], st["sites"], st["phys"]
    L = len(sites)
    a, b = rng.sample(sites, 2)
    while (abs(a - b) < 2) != (n % 3 == 2):  # every third case: neighbours (no swaps), else distant, either order
        a, b = rng.sample(sites, 2)
    where = (a, b)
    adjacent = abs(a - b) == 1
    dims = [phys[a], phys[b]]
    G, gclass, _ = build_gate(rng, dims, gclass=rng.choice(["int", "gauss", "perm", "diagperm", "lowrank", "product"]))
    dagger = rng.random() < 0.5
    if dagger:
        G, gclass, _ = asym_gate(rng, dims, G, gclass, False)
    api = "gate_sandwich_with_auto_swap"
    if adjacent and rng.random() < 0.5:
        api = rng.choice(["gate_sandwich", "gate:upper", "gate:lower"])
    contract = rng.choice(["split", "reduce-split"])
    swap_back = rng.random() < 0.7
    strip = rng.random() < 0.3
    inplace = rng.random() < 0.3
    absorb = rng.choice([None, None, "left", "right"])
    opts = {"cutoff": 0.0}
    if rng.random() < 0.5:
        opts["max_bond"] = None
    info = rng.choice([None, {}, {"cur_orthog": "calc"}])
    desc = {"stream": "mposwap", "n": n, "geometry": "mpo", "phys": [phys[s_] for s_ in sites], "where": list(where),
            "gate": gclass, "api": api, "dagger": dagger, "contract": contract, "opts": dict(opts),
            "weak_correlation_eps": eps, "complex": st["cplx"]}
    if api == "gate_sandwich_with_auto_swap":
        desc.update({"swap_back": swap_back, "strip_exponent": strip, "inplace": inplace, "absorb": absorb,
                     "info": None if info is None else dict(info)})
    keyp = f"{api}:mpo:contract={contract}"
    ctx.count(("mposwap", json.dumps(desc, sort_keys=True, default=str)), True)
    ctx.bump("mposwap:" + api + (":adjacent" if adjacent else ":distant"))
    outs = tuple(tn.upper_ind(s_) for s_ in sites) + tuple(tn.lower_ind(s_) for s_ in sites)
    dall = [phys[s_] for s_ in sites] * 2
    pu = [sites.index(s_) for s_ in where]
    pl = [L + p_ for p_ in pu]
    v0 = dense_of(tn, outs)
    U = G.conj().T if dagger else G
    if api in ("gate_sandwich_with_auto_swap", "gate_sandwich"):
        want = apply_on_axes(U.conj(), dall, pl, apply_on_axes(U, dall, pu, v0))    # U X U^dagger
    elif api == "gate:upper":
        want = apply_on_axes(U, dall, pu, v0)                                       # U X
    else:
        want = apply_on_axes(U, dall, pl, v0)                                       # X U^T
    before = tn.copy()
    call_opts = dict(opts)
    if absorb is not None and api == "gate_sandwich_with_auto_swap":
        call_opts["absorb"] = absorb
    try:
        with Spy() as spy, warnings.catch_warnings():
            warnings.simplefilter("ignore")
            if api == "gate_sandwich_with_auto_swap":
                kws = dict(dagger=dagger, swap_back=swap_back, strip_exponent=strip, contract=contract, inplace=inplace, **call_opts)
                if info is not None:
                    kws["info"] = info
                after = tn.gate_sandwich_with_auto_swap(G, where, **kws)
            elif api == "gate_sandwich":
                after = tn.gate_sandwich(G, where, contract=contract, dagger=dagger, **call_opts)
            else:
                after = tn.gate(G, where, which=api.split(":")[1], contract=contract, dagger=dagger, **call_opts)
            ev = spy.ev
    except Exception as e:
        ctx.violation(f"{keyp}:raised", f"{api} raised {type(e).__name__}: {str(e)[:160]}", desc)
        return
    if api == "gate_sandwich_with_auto_swap":
        if inplace and after is not tn:
            ctx.violation(f"{keyp}:inplace_returns_other_object", "inplace=True did not return the object it modified", desc)
            return
        if not inplace and (after is tn or not np.array_equal(dense_of(tn, outs), v0) or tn.exponent != before.exponent):
            ctx.violation(f"{keyp}:input_modified", "inplace=False modified / returned its input", desc)
            return
        # every split works with the caller's options and one absorb choice (model: sandwich_auto_swap_splits)
        obs = []
        for tag, k in ev:
            if tag != "tsplit" or not isinstance(k, dict):
                continue
            same = k.get("cutoff", "absent") == opts.get("cutoff", "absent") and ("max_bond" in k) == ("max_bond" in opts)
            obs.append(f"({'true' if k.get('absorb') == 'left' else 'false'}, {1 if same else 0}%nat)")
        user = "None" if absorb is None else f"(Some {'true' if absorb == 'left' else 'false'})"
        col.add({**desc, "splits_observed": obs},
                f"bn_eqb (sandwich_auto_swap_splits {where[0]}%nat {where[1]}%nat {user} {'true' if swap_back else 'false'} 1%nat) "
                f"[{'; '.join(obs)}]", "option_forwarding")
        if not strip and float(after.exponent) != float(before.exponent):
            ctx.violation(f"{keyp}:exponent", "stored exponent changed without strip_exponent", desc)
    if set(after.outer_inds()) != set(outs):
        ctx.violation(f"{keyp}:outer_labels", f"outer labels changed: {sorted(set(after.outer_inds()) ^ set(outs))}", desc)
        return
    if after.num_tensors != L or any(len(after.select_tensors(before.site_tag(s_))) != 1 for s_ in sites) \
            or not set(after.tags) <= set(before.tags):
        ctx.violation(f"{keyp}:mpo_form", "the result is no longer one tensor per site carrying that site's tag", desc)
        return
    if any(set(after[s_].inds) & set(outs) != {after.upper_ind(s_), after.lower_ind(s_)} for s_ in sites):
        ctx.violation(f"{keyp}:site_labels", "a site tensor does not carry exactly its own upper / lower label", desc)
        return
    if api == "gate_sandwich_with_auto_swap" and not swap_back and not adjacent:
        i, j = sorted(pu)
        order = list(range(L))
        order.remove(j)
        order.insert(i + 1, j)  # position p now holds original site order[p]
        want = np.transpose(want.reshape(dall), order + [L + o for o in order]).reshape(-1)
        col.add(desc, f"nl_eqb (auto_swap_order {L} {pu[0]} {pu[1]} false) {natlist(order)}", "swap_order")
        if [after.ind_size(o) for o in outs] != [dall[o] for o in order] * 2:
            ctx.violation(f"{keyp}:swap_back=False:dims", "physical dimensions after the un-swapped gate are not the shifted ones", desc)
            return
    got = dense_of(after, outs)
    if got.shape != want.shape or not np.allclose(got, want, rtol=0.0, atol=1e-11 * max(1.0, np.abs(want).max())):
        err = float(np.abs(got - want).max() / max(1.0, np.abs(want).max())) if got.shape == want.shape else "shape"
        ctx.violation(f"{keyp}:cutoff=0:{'weakly_correlated:' if eps else ''}value",
                      f"{api} with truncation switched off is not IG X IG^dagger (relative error {err})", desc)


def simple_case(ctx, stream, n):
    """simple-update gate (gate_simple): the state is the network with the gauges inserted"""
    rng = random.Random(f"{ctx.seed}:{stream}:{n}")
    st = build_state(rng, big=(n % 4 == 0))
    tn, sites, phys = st["tn"], st["sites"], st["phys"]
    tn.exponent = 0.0
    where = pick_where(rng, sites, k=rng.choice([1, 2, 2, 2]))
    dims = [phys[s] for s in where]
    G, gclass, _ = build_gate(rng, dims)
    variant = VARIANTS[n % 4]
    if variant != "plain":
        G, gclass, _ = asym_gate(rng, dims, G, gclass, False)
    kw = kw_of(variant)
    gauges = {}
    for ix in tn.inner_inds():
        if rng.random() < 0.5:
            gauges[ix] = np.array([rng.choice([1.0, 2.0, 0.5]) for _ in range(tn.ind_size(ix))])
    desc = {"stream": stream, "n": n, "geometry": st["kind"], "sites": len(sites), "phys": [phys[s] for s in sites],
            "where": [str(w) for w in where], "gate": gclass, "variant": variant, "gauged_bonds": len(gauges), "api": "gate_simple"}
    keyp = f"gate_simple:{st['kind']}:arity={len(where)}"
    ctx.count((st["kind"], tuple(phys[s] for s in sites), gclass, tuple(map(str, where)), "gate_simple", variant, n),
              not np.allclose(G, np.eye(G.shape[0])))
    ctx.bump("api:gate_simple")
    ctx.bump("geom:" + st["kind"])
    outs = tuple(tn.site_ind(s) for s in sites)
    f0 = tn.copy()
    f0.gauge_simple_insert(gauges)
    d0 = dense_of(f0, outs)
    g2 = {k: v.copy() for k, v in gauges.items()}
    q = tn.copy()
    bare = len(where) == 1 and rng.random() < 0.5  # documented: `where : node or sequence[node]`
    desc["where_given_as"] = "node" if bare else "sequence"
    try:
        with warnings.catch_warnings():
            warnings.simplefilter("ignore")
            q.gate_simple_(G, where[0] if bare else where, g2, max_bond=None, cutoff=0.0, renorm=False, **kw)
    except Exception as e:
        if bare and isinstance(where[0], tuple):
            ctx.violation("gate_simple:where=bare_tuple_node:raised",
                          f"gate_simple(G, node) with a tuple-valued node raised {type(e).__name__}: {str(e)[:120]}", desc)
        else:
            ctx.violation(f"{keyp}:raised", f"gate_simple raised {type(e).__name__}: {str(e)[:160]}", desc)
        return
    if set(q.outer_inds()) != set(outs):
        ctx.violation(f"{keyp}:outer_labels", "gate_simple changed the outer labels", desc)
        return
    f1 = q.copy()
    f1.gauge_simple_insert(g2)
    got = dense_of(f1, outs)
    want = apply_on_axes(eff_gate(G, **kw), [phys[s] for s in sites], [sites.index(s) for s in where], d0)
    if not np.any(want):
        # the operator annihilates the state: every new singular value is 0 and simple update divides by them
        # (0/0 -> NaN); an exactly zero state has no gauge form - documented edge, outside the domain of this stream
        ctx.bump("simple_update_of_annihilated_state_skipped")
        return
    if got.shape != want.shape or not np.allclose(got, want, rtol=1e-9, atol=1e-9 * max(1.0, np.abs(want).max())):
        ctx.violation(f"{keyp}:value", "state (network with gauges inserted) after gate_simple != operator @ state before", desc)


def _connected_pair(rng, tn, sites):
    pairs = [(a, b) for a in sites for b in sites if a != b and
             len(set(tn[tn.site_tag(a)].inds) & set(tn[tn.site_tag(b)].inds)) == 1]
    return rng.choice(pairs) if pairs else None


def _opt_call(ctx, api, desc, obj, call, inplace, outs, want, keyp, tol_scale=1.0, expect_raise=False, alt=None):
    """one call of an entry point with one full option assignment: value, outer labels, in-place semantics.
    Returns the dense result (None if there is none).  `alt` = (key, vector): a result equal to that vector
    (and not to `want`) is reported under `key` (a registered defect class) instead of `keyp`:value"""
    ctx.count((api, json.dumps(desc, sort_keys=True, default=str)), True)
    ctx.bump("options:" + api)
    d_before = dense_of(obj, outs)
    nt = obj.num_tensors
    try:
        with warnings.catch_warnings():
            warnings.simplefilter("ignore")
            res = call(obj)
    except Exception as e:
        if not expect_raise:
            ctx.violation(f"{keyp}:raised", f"{api} raised {type(e).__name__}: {str(e)[:140]}", desc)
        return
    if expect_raise:
        got = dense_of(res, outs)
        if got.shape != want.shape or not np.allclose(got, want, rtol=1e-9, atol=1e-9 * max(1.0, np.abs(want).max())):
            ctx.violation(f"{keyp}:misapplied", f"{api}: a mode this geometry / arity does not accept neither raised nor applied the operator", desc)
        return
    if inplace:
        if res is not obj:
            ctx.violation(f"{keyp}:inplace_returns_other_object", f"{api}(inplace=True) did not return the object it modified", desc)
            return
    else:
        if res is obj or obj.num_tensors != nt or not np.array_equal(dense_of(obj, outs), d_before):
            ctx.violation(f"{keyp}:input_modified", f"{api}(inplace=False) modified / returned its input", desc)
            return
    if set(res.outer_inds()) != set(outs):
        ctx.violation(f"{keyp}:outer_labels", f"{api} changed the outer labels", desc)
        return
    got = dense_of(res, outs)
    if got.shape != want.shape or not np.allclose(got, want, rtol=1e-9, atol=1e-9 * tol_scale * max(1.0, np.abs(want).max())):
        err = float(np.abs(got - want).max()) if got.shape == want.shape else "shape"
        if alt is not None and got.shape == alt[1].shape and np.allclose(got, alt[1], rtol=1e-9, atol=1e-9 * max(1.0, np.abs(want).max())):
            ctx.violation(alt[0], f"{api}: {alt[2]} [max err {err}]", desc)
        else:
            ctx.violation(f"{keyp}:value", f"{api}: dense(after) != effective operator @ dense(before) [max err {err}]", desc)
    return got


KEY_NONLOCAL_DAGGER = "gate:mps:contract=nonlocal:dagger=True:ignored"
OPK = {"plain": "OpG", "transpose": "OpGT", "conj": "OpGconj", "dagger": "OpGdag"}


def nonlocal_reads_dagger():
    """does MatrixProductState.gate_nonlocal have a `dagger` parameter (model flag nl_dagger)?"""
    import inspect

    import quimb.tensor as qtn

    try:
        return "dagger" in inspect.signature(qtn.MatrixProductState.gate_nonlocal).parameters
    except (TypeError, ValueError):
        return False


def route_case(ctx, col, desc, c, ng, v, got, cands):
    """which of G, G^T, conj G, G^dagger did gate_TN_1D apply?  == model gate_1d_op (exact, inside Coq)"""
    if got is None:
        return
    tol = 1e-9 * max(1.0, max(float(np.abs(w).max()) for w in cands.values()))
    obs = [k for k, w in cands.items() if got.shape == w.shape and np.allclose(got, w, rtol=0.0, atol=tol)]
    if len(obs) != 1:
        return  # no / ambiguous operator: the value oracle has already reported it
    kw = kw_of(v)
    sig = (mkey(c), ng, v, obs[0])
    ctx.bump("route_options:" + ("documented_operator" if obs[0] == ("dagger" if v == "both" else v) else "as_coded_differs_from_documented"))
    if sig in col.route_seen:  # the model only looks at (mode, arity, flags): one Coq case per distinct observation
        return
    col.route_seen.add(sig)
    col.add({**desc, "operator_applied": obs[0]},
            f"opkind_eqb (gate_1d_op {'true' if nonlocal_reads_dagger() else 'false'} {CM[mkey(c)]} {ng} "
            f"{'true' if kw.get('transpose') else 'false'} {'true' if kw.get('dagger') else 'false'}) {OPK[obs[0]]}",
            "route_options")


def options_stream(ctx, col):
    """EVERY combination of the boolean / enum options of each gating entry point, with complex gates that
    tell G, G^T, conj G and G^dagger apart (oracle: plain numpy embedding, tolerance 1e-9, cutoff=0)"""
    import quimb.tensor as qtn

    TF = (False, True)
    nl_dagger = nonlocal_reads_dagger()
    for rep in range(ctx.n(1, 5)):
        rng = random.Random(f"{ctx.seed}:options:{rep}")
        # ---- vector-like networks
        for kind in ("mps", "mps_cyclic", "peps", "graph"):
            st = build_state(rng, kind=kind, big=False)
            while len(st["sites"]) < 3:
                st = build_state(rng, kind=kind, big=False)
            tn0, sites, phys, is1d = st["tn"], st["sites"], st["phys"], st["is1d"]
            outs = tuple(tn0.site_ind(s) for s in sites)
            dall = [phys[s] for s in sites]
            d0 = dense_of(tn0, outs)
            for ng in (1, 2):
                where = (rng.choice(sites),) if ng == 1 else _connected_pair(rng, tn0, sites)
                if where is None:
                    continue
                dims = [phys[s] for s in where]
                G, gclass, _ = asym_gate(rng, dims, *build_gate(rng, dims, gclass="gauss"))
                pos = [sites.index(s) for s in where]
                inds = tuple(tn0.site_ind(s) for s in where)
                wants = {v: apply_on_axes(eff_gate(G, **kw_of(v)), dall, pos, d0) for v in VARIANTS}
                base = {"stream": "options", "rep": rep, "geometry": kind, "phys": dall, "where": [str(w) for w in where], "gate": gclass}
                facts = geometry_facts(tn0, inds, G)
                # gate_inds: contract x transpose x dagger x tags x inplace
                for c, v, tags, ip in itertools.product(MODES[:7], VARIANTS, (None, ["G"]), TF):
                    desc = {**base, "api": "gate_inds", "contract": mkey(c), "variant": v, "tags": tags, "inplace": ip}
                    _opt_call(ctx, "gate_inds", desc, tn0.copy(),
                              lambda t, c=c, v=v, tags=tags, ip=ip: t.gate_inds(G, inds, contract=c, tags=tags, inplace=ip, cutoff=0.0, **kw_of(v)),
                              ip, outs, wants[v], f"gate_inds:options:variant={v}:contract={mkey(c)}")
                # gate: contract x transpose x dagger x propagate_tags x tags x inplace - EVERY mode of the geometry
                # with every (transpose, dagger) pair, the MPS routes ('swap+split', 'nonlocal', 'auto-mps') included:
                # the flags reach them inside the compress_opts keywords (model: route_opts)
                cands = {**{k: wants[k] for k in ("plain", "transpose", "dagger")},
                         "conj": apply_on_axes(np.conj(G), dall, pos, d0)}
                for c in (MODES if is1d else MODES[:7]):
                    for v, ptag, tags, ip in itertools.product(VARIANTS, ("sites", "register", False, True), (None, ["G"]), TF):
                        desc = {**base, "api": "gate", "contract": mkey(c), "variant": v, "propagate_tags": mkey(ptag), "tags": tags, "inplace": ip}
                        got = _opt_call(ctx, "gate", desc, tn0.copy(),
                                        lambda t, c=c, v=v, ptag=ptag, tags=tags, ip=ip: t.gate(
                                            G, where if ng > 1 else where[0], contract=c, propagate_tags=ptag, tags=tags, inplace=ip,
                                            cutoff=0.0, **kw_of(v)),
                                        ip, outs, wants[v], f"gate:options:variant={v}:contract={mkey(c)}",
                                        expect_raise=must_reject(is1d, c, ng, facts),
                                        alt=_nonlocal_dagger_alt(is1d, c, ng, v, wants, nl_dagger))
                        if is1d and ptag == "sites" and tags is None and not must_reject(is1d, c, ng, facts):
                            route_case(ctx, col, desc, c, ng, v, got, cands)
                # 1D: the same on a DISTANT pair in either order and on three sites (swaps / sub-MPO really needed)
                if is1d and ng == 2:
                    for wf in _far_wheres(rng, sites):
                        dimsf = [phys[s_] for s_ in wf]
                        Gf, gclassf, _ = asym_gate(rng, dimsf, *build_gate(rng, dimsf, gclass="gauss"))
                        posf = [sites.index(s_) for s_ in wf]
                        wantsf = {v: apply_on_axes(eff_gate(Gf, **kw_of(v)), dall, posf, d0) for v in VARIANTS}
                        candsf = {**{k: wantsf[k] for k in ("plain", "transpose", "dagger")},
                                  "conj": apply_on_axes(np.conj(Gf), dall, posf, d0)}
                        basef = {**base, "where": [str(w) for w in wf], "gate": gclassf}
                        for c, v, ip in itertools.product((False, True, "swap+split", "nonlocal", "auto-mps"), VARIANTS, TF):
                            if c == "swap+split" and len(wf) != 2:
                                continue
                            desc = {**basef, "api": "gate", "contract": mkey(c), "variant": v, "inplace": ip}
                            got = _opt_call(ctx, "gate", desc, tn0.copy(),
                                            lambda t, c=c, v=v, ip=ip, Gf=Gf, wf=wf: t.gate(Gf, wf, contract=c, inplace=ip, cutoff=0.0, **kw_of(v)),
                                            ip, outs, wantsf[v], f"gate:options:variant={v}:contract={mkey(c)}",
                                            alt=_nonlocal_dagger_alt(True, c, len(wf), v, wantsf, nl_dagger))
                            route_case(ctx, col, desc, c, len(wf), v, got, candsf)
                # gate_simple: transpose x dagger x inplace (gauges empty: the state is the network itself)
                for v, ip in itertools.product(VARIANTS, TF):
                    desc = {**base, "api": "gate_simple", "variant": v, "inplace": ip}
                    if np.any(wants[v]):
                        _opt_call(ctx, "gate_simple", desc, tn0.copy(),
                                  lambda t, v=v, ip=ip: _simple_with_gauges(t, G, where, ip, kw_of(v)),
                                  ip, outs, wants[v], f"gate_simple:options:variant={v}", tol_scale=10.0)
                # gate_inds_with_tn: inplace; Tensor.gate: transpose x preserve_inds x inplace
                for ip in TF:
                    gt = qtn.Tensor(G.reshape(dims + dims), [f"o{i}" for i in range(ng)] + [f"i{i}" for i in range(ng)])
                    desc = {**base, "api": "gate_inds_with_tn", "inplace": ip}
                    _opt_call(ctx, "gate_inds_with_tn", desc, tn0.copy(),
                              lambda t, ip=ip, gt=gt: t.gate_inds_with_tn(inds, gt, [f"i{i}" for i in range(ng)], [f"o{i}" for i in range(ng)], inplace=ip),
                              ip, outs, wants["plain"], "gate_inds_with_tn:options")
                if ng == 1:
                    for tr, pres, ip in itertools.product(TF, TF, TF):
                        desc = {**base, "api": "Tensor.gate", "transpose": tr, "preserve_inds": pres, "inplace": ip}
                        ctx.count(("Tensor.gate", json.dumps(desc, sort_keys=True)), True)
                        t2 = tn0.copy()
                        (t,) = t2._inds_get(inds[0])
                        told = t.data.copy()
                        r = t.gate(G, inds[0], transpose=tr, preserve_inds=pres, inplace=ip)
                        if ip != (r is t) or (not ip and not np.array_equal(np.asarray(t.data), np.asarray(told))):
                            ctx.violation("Tensor.gate:options:inplace_semantics", "Tensor.gate in-place flag not honoured", desc)
                            continue
                        if not ip:
                            t.modify(data=r.transpose(*t.inds).data)
                        got = dense_of(t2, outs)
                        if not np.allclose(got, wants["transpose" if tr else "plain"], rtol=1e-9, atol=1e-9):
                            ctx.violation(f"Tensor.gate:options:transpose={tr}:value", "Tensor.gate does not apply G (G^T when transposed)", desc)
                # 1D-only entry points
                if is1d and ng == 2:
                    for sb, ip in itertools.product(TF, TF):
                        if abs(pos[0] - pos[1]) != 1:
                            continue
                        desc = {**base, "api": "gate_with_auto_swap", "swap_back": sb, "inplace": ip}
                        _opt_call(ctx, "gate_with_auto_swap", desc, tn0.copy(),
                                  lambda t, sb=sb, ip=ip: t.gate_with_auto_swap(G, where, swap_back=sb, inplace=ip, cutoff=0.0),
                                  ip, outs, wants["plain"], f"gate_with_auto_swap:options:swap_back={sb}")
                    for tr, method, ip in itertools.product(TF, ("direct", "lazy"), TF):
                        desc = {**base, "api": "gate_nonlocal", "transpose": tr, "method": method, "inplace": ip}
                        _opt_call(ctx, "gate_nonlocal", desc, tn0.copy(),
                                  lambda t, tr=tr, method=method, ip=ip: t.gate_nonlocal(G, where, transpose=tr, method=method, inplace=ip, cutoff=0.0),
                                  ip, outs, wants["transpose" if tr else "plain"], f"gate_nonlocal:options:transpose={tr}:method={method}")
                    for tr, method, ip, giv, ipm in itertools.product(TF, ("direct", "lazy"), TF, TF, TF):
                        desc = {**base, "api": "gate_with_submpo", "transpose": tr, "method": method, "inplace": ip, "where_given": giv, "inplace_mpo": ipm}
                        mpo = qtn.MatrixProductOperator.from_dense(G, dims=dims, sites=where, L=len(sites), cutoff=0.0)
                        _opt_call(ctx, "gate_with_submpo", desc, tn0.copy(),
                                  lambda t, tr=tr, method=method, ip=ip, giv=giv, ipm=ipm, mpo=mpo: t.gate_with_submpo(
                                      mpo, where=where if giv else None, transpose=tr, method=method, inplace=ip, inplace_mpo=ipm, cutoff=0.0),
                                  ip, outs, wants["transpose" if tr else "plain"], f"gate_with_submpo:options:transpose={tr}:method={method}")
        # ---- operator-like networks: which x contract x transpose x dagger x inplace, sandwich tag options
        for _ in range(2):
            st = build_operator(rng)
            tn0, sites, phys = st["tn"], st["sites"], st["phys"]
            nS = len(sites)
            outs = tuple(tn0.upper_ind(s) for s in sites) + tuple(tn0.lower_ind(s) for s in sites)
            dall = [phys[s] for s in sites] * 2
            d0 = dense_of(tn0, outs)
            for ng in (1, 2):
                where = (rng.choice(sites),) if ng == 1 else _connected_pair(rng, tn0, sites)
                if where is None:
                    continue
                dims = [phys[s] for s in where]
                G, gclass, _ = asym_gate(rng, dims, *build_gate(rng, dims, gclass="gauss"))
                pu = [sites.index(s) for s in where]
                pl = [nS + p for p in pu]
                up = tuple(tn0.upper_ind(s) for s in where)
                lo = tuple(tn0.lower_ind(s) for s in where)
                base = {"stream": "options", "rep": rep, "geometry": st["kind"], "phys": dall[:nS], "where": [str(w) for w in where], "gate": gclass}

                def want_for(which, v):
                    if which in (None, "sandwich", "both"):
                        U, Lw = {"plain": (G, G.conj()), "transpose": (G.T, G.conj().T)}.get(v, (G.conj().T, G.T))
                        return apply_on_axes(Lw, dall, pl, apply_on_axes(U, dall, pu, d0))
                    return apply_on_axes(eff_gate(G, **kw_of(v)), dall, pu if which == "upper" else pl, d0)

                for which, c, v, ip in itertools.product((None, "sandwich", "both", "upper", "lower"), (False, True, "split", "reduce-split"), VARIANTS, TF):
                    desc = {**base, "api": "gate", "which": str(which), "contract": mkey(c), "variant": v, "inplace": ip}
                    _opt_call(ctx, "opgate", desc, tn0.copy(),
                              lambda t, which=which, c=c, v=v, ip=ip: t.gate(G, where, which=which, contract=c, inplace=ip, cutoff=0.0, **kw_of(v)),
                              ip, outs, want_for(which, v), f"opgate:options:which={which}:variant={v}:contract={mkey(c)}")
                for c, v, ip, tg in itertools.product((False, True, "split", "reduce-split"), VARIANTS, TF,
                                                      ({}, {"tags": ["G"]}, {"tags_upper": ["GU"], "tags_lower": ["GL"]})):
                    desc = {**base, "api": "gate_sandwich_inds", "contract": mkey(c), "variant": v, "inplace": ip, "tag_opts": tg}
                    _opt_call(ctx, "gate_sandwich_inds", desc, tn0.copy(),
                              lambda t, c=c, v=v, ip=ip, tg=tg: t.gate_sandwich_inds(G, up, lo, contract=c, inplace=ip, cutoff=0.0, **tg, **kw_of(v)),
                              ip, outs, want_for("sandwich", v), f"gate_sandwich_inds:options:variant={v}:contract={mkey(c)}")


def _far_wheres(rng, sites):
    """a non-adjacent pair in ascending and in descending order, and a scrambled triple"""
    out = []
    pairs = [(a, b) for a in sites for b in sites if abs(a - b) >= 2]
    if pairs:
        a, b = rng.choice(pairs)
        out += [(min(a, b), max(a, b)), (max(a, b), min(a, b))]
    if len(sites) >= 3:
        out.append(tuple(rng.sample(sites, 3)))
    return out


def _nonlocal_dagger_alt(is1d, c, ng, v, wants, nl_dagger):
    """registered defect class: the sub-MPO route without a `dagger` parameter applies G (G^T with transpose)"""
    if not is1d or nl_dagger or v not in ("dagger", "both"):
        return None
    if not (c == "nonlocal" and ng >= 2) and not (c == "auto-mps" and ng >= 3):
        return None
    return (KEY_NONLOCAL_DAGGER, wants["plain" if v == "dagger" else "transpose"],
            "gate(contract='nonlocal' / 'auto-mps' on 3+ sites, dagger=True) ignores `dagger`: it applied "
            + ("G" if v == "dagger" else "G^T") + " instead of G^dagger")


def _simple_with_gauges(t, G, where, inplace, kw):
    gauges = {}
    r = t.gate_simple(G, where, gauges, max_bond=None, cutoff=0.0, renorm=False, inplace=inplace, **kw)
    full = r.copy()
    full.gauge_simple_insert(gauges)
    if inplace:
        # hand back the same object, carrying the state with the new gauges absorbed
        for tid, tt in full.tensor_map.items():
            r.tensor_map[tid].modify(data=tt.data)
        return r
    return full


def nonlocal_cutoff_stream(ctx):
    """gates whose operator-Schmidt spectrum has a small (but far from negligible) tail: with cutoff=0 the
    sub-MPO route must still be exact (reported by another builder; proposed_fixes/C06_gate_nonlocal_cutoff.diff)"""
    import quimb.tensor as qtn

    rng = random.Random(f"{ctx.seed}:nonlocal_cutoff")
    for n in range(ctx.n(6, 40)):
        L = rng.randint(3, 5)
        tn = qtn.MPS_rand_state(L, 2, seed=rng.randint(0, 10**6))
        refill(tn, rng, False, lambda ix: 2)
        where = tuple(rng.sample(range(L), 2))
        eps = rng.choice([1e-6, 3e-6, 1e-7])
        N = rand_array(rng, (4, 4), False)
        G = np.kron(rand_array(rng, (2, 2), False) + 3 * np.eye(2), rand_array(rng, (2, 2), False) + 3 * np.eye(2)) + eps * N
        api = rng.choice(["gate_nonlocal", "gate"])
        outs = tuple(tn.site_ind(i) for i in range(L))
        want = apply_on_axes(G, [2] * L, list(where), dense_of(tn, outs))
        desc = {"stream": "nonlocal_cutoff", "n": n, "L": L, "where": list(where), "eps": eps, "api": api}
        ctx.count(("nonlocal_cutoff", n), True)
        with warnings.catch_warnings():
            warnings.simplefilter("ignore")
            after = tn.gate_nonlocal(G, where, cutoff=0.0) if api == "gate_nonlocal" else tn.gate(G, where, contract="nonlocal", cutoff=0.0)
        got = dense_of(after, outs)
        if not np.allclose(got, want, rtol=1e-9, atol=1e-9 * max(1.0, np.abs(want).max())):
            ctx.violation("gate_nonlocal:cutoff=0:submpo_built_at_default_cutoff",
                          f"gate_nonlocal(cutoff=0.0) is not exact: max err {float(np.abs(got - want).max()):.3g} "
                          f"(relative {float(np.abs(got - want).max() / np.abs(want).max()):.3g})", desc)


def reject_stream(ctx, col):
    """modes a geometry / arity does not accept must raise and leave the input untouched"""
    import quimb.tensor as qtn

    rng = random.Random(f"{ctx.seed}:reject")
    for n in range(ctx.n(150, 1500)):
        st = build_state(rng, big=False)
        tn, sites, phys = st["tn"], st["sites"], st["phys"]
        if len(sites) < 3:
            continue
        is1d = st["is1d"]
        cases = []
        w3 = tuple(rng.sample(sites, 3))
        for c in ("split", "reduce-split", "split-gate", "swap-split-gate"):
            cases.append((c, w3))
        if is1d:
            cases.append(("swap+split", w3))
        else:
            for c in ("swap+split", "nonlocal", "auto-mps"):
                cases.append((c, tuple(rng.sample(sites, rng.choice([1, 2])))))
        # two sites whose tensors share no bond: pair splitting impossible
        far = [(a, b) for a in sites for b in sites if a != b and
               not set(tn[tn.site_tag(a)].inds) & set(tn[tn.site_tag(b)].inds)]
        if far:
            cases.append((rng.choice(["split", "reduce-split"]), rng.choice(far)))
        cases.append(("not-a-mode", tuple(rng.sample(sites, 2))))
        c, where = rng.choice(cases)
        dims = [phys[s] for s in where]
        G, gclass, _ = build_gate(rng, dims)
        desc = {"stream": "reject", "n": n, "geometry": st["kind"], "where": [str(w) for w in where], "contract": c, "gate": gclass}
        ctx.count(("reject", st["kind"], c, len(where), n), True)
        ctx.bump("must_raise:" + c)
        outs = tuple(tn.site_ind(s) for s in sites)
        d0 = dense_of(tn, outs)
        ntens = tn.num_tensors
        try:
            with warnings.catch_warnings():
                warnings.simplefilter("ignore")
                after = tn.gate(G, where, contract=c, cutoff=0.0)
        except Exception:
            # the (not in-place) call must not have modified its input
            if tn.num_tensors != ntens or not np.array_equal(dense_of(tn, outs), d0) or set(tn.outer_inds()) != set(outs):
                ctx.violation(f"gate:{st['kind']}:contract={c}:rejected_but_modified", "a rejected gate call modified its input", desc)
            continue
        # accepted although the acceptance rule says it must raise: mis-application is a violation, a correct
        # result only means the rule (and the model's dispatch table) no longer describes the code
        pos = [sites.index(s) for s in where]
        want = apply_on_axes(G, [phys[s] for s in sites], pos, d0)
        got = dense_of(after, outs)
        ok = got.shape == want.shape and np.allclose(got, want, rtol=1e-9, atol=1e-9)
        if not ok:
            ctx.violation(f"gate:{st['kind']}:contract={c}:arity={len(where)}:misapplied",
                          f"mode {c!r} is not accepted for this geometry/arity; it did not raise and the result is wrong", desc)
        else:
            ctx.broken_obligation("dispatch:model_says_rejected_but_accepted", jsonable(desc))


def flag_stream(ctx):
    """F16 reproduced on a fixed input"""
    import quimb.tensor as qtn

    p = qtn.MPS_computational_state("000")
    G = np.array([[1.0, 1.0], [0.0, 1.0]])
    q = p.gate_inds(G, ["k1"], contract=False, tags="G")
    t = q["G"]
    ctx.count(("flag", "fixed"), True)
    if t.left_inds is not None:
        M = np.asarray(t.data)
        if not np.allclose(M.conj().T @ M, np.eye(2)):
            ctx.violation("gate_inds:lazy:left_inds_flag:nonunitary",
                          "lazy gate tensor created with left_inds although the gate is not an isometry",
                          {"call": "MPS_computational_state('000').gate_inds([[1,1],[0,1]], ['k1'], contract=False)",
                           "left_inds": list(t.left_inds)})


# ----------------------------------------------------------------------------


def settle(ctx, col, name, jobs=None):
    import time

    t0 = time.time()
    # one coqc process per job (start-up dominates): deal the cases round-robin so heavy and light ones mix
    jobs = jobs or ctx.n(8, 32)
    cases = [c for k in range(jobs) for c in col.cases[k::jobs]]
    shard = max(1, -(-len(cases) // jobs))
    failed, errors = ctx.coq_cases(name, HEADER, cases, shard=shard)
    ctx.extra[f"coq_wall_s_{name}"] = round(time.time() - t0, 1)
    for path, err in errors:
        ctx.broken_obligation(f"correspondence:{name}:" + path.split("/")[-1], err)
    seen = set()
    for c in failed:
        d = col.info[c]
        k = d["check"]
        if k in seen:
            continue
        seen.add(k)
        if k.startswith("value"):
            # exact mismatch on integer data although the float oracle agreed within tolerance: still a concrete input
            ctx.violation(f"{d.get('api', 'gate')}:{d.get('geometry')}:contract={d.get('contract')}:exact_value",
                          "network after gating differs from operator x network before (exact comparison inside Coq)", d)
        elif k == "dispatch" and "raised" in d:
            ctx.violation(f"{d.get('api', 'gate')}:{d.get('geometry')}:contract={d.get('contract')}:arity={len(d.get('where', []))}:raised",
                          f"a mode the model accepts for this geometry / arity raised {d['raised']}", d)
        else:
            # model and implementation disagree on bookkeeping (the value oracle already ran on that case)
            ctx.broken_obligation(f"correspondence:{k}_model_vs_impl", jsonable(d))
    ctx.extra["coq_cases_" + name] = len(col.cases)
    ctx.extra["coq_cases_by_check"] = {}
    for d in col.info.values():
        ctx.extra["coq_cases_by_check"][d["check"]] = ctx.extra["coq_cases_by_check"].get(d["check"], 0) + 1


def exact_stream(ctx, col):
    import time

    t0 = time.time()
    for n in range(ctx.n(64, 1400)):
        vector_case(ctx, col, "vector", n)
    for n in range(ctx.n(16, 360)):
        operator_case(ctx, col, "operator", n)
    ctx.extra["py_wall_s_exact"] = round(time.time() - t0, 1)


def oracle_stream(ctx, col):
    import time

    t0 = time.time()
    nbook = ctx.n(200, 3000)  # cases whose bookkeeping (dispatch, tags) is also sent to Coq
    for n in range(ctx.n(1500, 15000)):
        oracle_case(ctx, col if n < nbook else Collector(), "oracle", n)
    weak_swap_stream(ctx, col)
    mpo_swap_stream(ctx, col)
    naming_stream(ctx, col)
    for n in range(ctx.n(200, 2000)):
        simple_case(ctx, "simple", n)
    reject_stream(ctx, col)
    ctx.extra["py_wall_s_oracle"] = round(time.time() - t0, 1)


def coq_stage(ctx, col):
    settle(ctx, col, "all")


def timed(name, fn):
    import time

    def w(ctx, *a):
        t0 = time.time()
        try:
            return fn(ctx, *a)
        finally:
            ctx.extra["py_wall_s_" + name] = round(time.time() - t0, 1)
    w.__name__ = fn.__name__
    return w


def run(ctx):
    ctx.extra["rule"] = RULE
    ctx.trusted_base += [
        "network semantics coq/Base/TN.v instantiated for Z[i] (coq/Base/TNExec.v); coq/C06/Exec.v `op_dense` = executed right-hand "
        "side of C06_gate_lazy_sound (proved equal to the lazily gated network by C06_executable_instance); vm_compute evaluates "
        "both `dense` of the implementation's output network and `op_dense` / `dense` of the expected network on the dumped arrays",
        "hand model coq/C06/Model.v of the dispatch (gate_TN_1D, tensor_network_gate_inds, _basic, _lazy_split), fresh labels and tag "
        "propagation; tied by correspondence: the routine actually entered is observed by rebinding module globals / class "
        "attributes at run time (harness Spy), labels and tags are read off the returned network",
        "oracle contract (validated numerically on every run, tolerance 1e-9, a test): tensor_split / QR / SVD with cutoff=0 and "
        "max_bond=None return an exact factorisation; under that contract C06_gate_exact_modes_sound and C06_swap_sound cover "
        "'split', 'reduce-split', 'split-gate', 'swap-split-gate', 'swap+split', 'nonlocal'/sub-MPO",
        "round 3: model route_opts / gate_1d_op of how gate_TN_1D hands transpose / dagger (inside **compress_opts) to each "
        "route, with the flag nl_dagger read off gate_nonlocal's signature by introspection; tied by classifying the dense "
        "result among G, G^T, conj G, G^dagger applied to the state (float, 1e-9) and comparing the class inside Coq. "
        "Models sandwich_auto_swap_splits (options / absorb of every split of MatrixProductOperator.gate_sandwich_with_auto_swap, "
        "observed by rebinding Tensor.split) and split_gate_labels (labels of the lazily attached split gate, with the bond "
        "label the implementation used)",
        "modelled, not verified: numpy tensordot / einsum / reshape inside Tensor.gate and tensor_contract, LAPACK, "
        "tensor_network_1d_compress, MatrixProductOperator.from_dense, canonicalize; parametrized (PTensor) gates are in the "
        "model's dispatch but not exercised",
    ]
    ctx.assumptions += [
        "domain: target sites distinct; gate square with dims matching the physical dims of the targets in the given order; "
        "no truncation (max_bond=None, cutoff=0 or rank-revealing default on exactly low-rank gates)",
        "gate_with_auto_swap(swap_back=False): compared against the documented site permutation (j -> i+1, sites between shifted up)",
        "naming stream: labels are arbitrary strings, so a network may use names the library hard-codes internally; the MPS routes "
        "are only given matrix product states (extra label = a renamed bond, never a further open label). Operators handed over as "
        "networks: sub-operators covering fewer sites are drawn for vector targets only (operator targets: the documentation asks "
        "for 'matching structure'; tensor_network_apply_op_op renames ALL upper / lower labels of the target)",
        "gate_simple (simple update): the state is the network with the gauges inserted; cases where G annihilates the state "
        "(exactly zero result, all new singular values 0 -> 0/0) are skipped; all other streams keep zero states",
    ]
    ctx.check_props(["Base/Sums.vo", "Base/TN.vo", "Base/TNExec.vo", "C06/Model.vo", "C06/Gate.vo", "C06/Proofs.vo",
                     "C06/Exec.vo", "C06/Props.v"])
    col = Collector()
    ctx.stage(flag_stream)
    ctx.stage(timed("options", options_stream), col)
    ctx.stage(nonlocal_cutoff_stream)
    ctx.stage(timed("op_lazy", op_lazy_stream))
    ctx.stage(exact_stream, col)
    ctx.stage(oracle_stream, col)
    ctx.stage(coq_stage, col)


def replay(ctx, path):
    """re-run the single case named by a replay file through oracle + Coq"""
    try:
        with open(path) as f:
            d = json.load(f)
    except (OSError, ValueError):
        # (the framework clears replay/C06_* when a run starts: keep a copy elsewhere to replay a single case)
        run(ctx)
        return
    r = d.get("replay", {})
    ctx.seed = int(d.get("seed", ctx.seed))
    ctx.extra["rule"] = RULE
    col = Collector()
    stream, n = r.get("stream"), r.get("n")
    if stream == "vector":
        vector_case(ctx, col, stream, int(n))
    elif stream == "operator":
        operator_case(ctx, col, stream, int(n))
    elif stream == "oracle":
        oracle_case(ctx, col, stream, int(n))
    elif stream == "simple":
        simple_case(ctx, stream, int(n))
    elif stream == "weakswap":
        weak_swap_case(ctx, col, int(n))
    elif stream == "mposwap":
        mpo_swap_case(ctx, col, int(n))
    elif stream == "naming":
        naming_case(ctx, col, int(n))
    else:
        run(ctx)
        return
    settle(ctx, col, "replay", jobs=1)

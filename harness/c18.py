"""C18 - exact time evolution follows the Schroedinger / von Neumann equation.

Proof part (coq/C18): the Evolution state machine (constructor support table,
update routine per method, `t` / `pt` properties, at_times, compute callbacks)
over an abstract propagator group; for every accepted configuration and every
list of requested times the reported state is the propagator from t0 to the
last time applied to p0 (two-sided for density operators) and the clock is the
last time; unsupported cells are rejected; callbacks see the same states.
`_refuted` theorems: method='expm' with a density operator (one-sided), and
method='solve' on an unsolved 2x2 Hamiltonian (unpacked as a tuple).

Tie (H, exact): for every cell of method x ket/dop x Hamiltonian kind x
[d == 2] x [int_stop] and random dyadic time lists the implementation's
protocol trace is observed by rebinding module globals of quimb.evo at run
time (explt, ldmul, rdmul, expm_multiply, eigh, complex_ode, the right-hand
side builders) and compared inside Coq (vm_compute) with the model's trace:
accepted / exception class, installed routine, final self._method, chosen
right-hand side, the sequence of propagator applications (delta, from which
state, one- or two-sided), evo.t after every call, callback times.
Time lists: random dyadic lists, late times with tiny relative increments, and
step-SIZE families on 2^-36 / 2^-44 grids (nearly equal, tiny in absolute terms,
geometric, zero/tiny/ordinary mixtures); for these the observed steps are also
compared with the closed form of C18_step_rule and, as the searcher for a
concrete failing input, with an exact Fraction reference (step_probe).
Exact contract checks: the right-hand sides on Gaussian-integer data vs integer
arithmetic.

Oracle (test, tolerance): random Hermitian H in every representation, kets and
density operators, t0 != 0, all methods and time sequences vs scipy.linalg.expm
(4th-order Magnus product for time-dependent H), conservation laws, callbacks;
repeated with H in other units (GHz rad/s on nanosecond grids, ||H|| = 1e-6 on
times ~1e6) and with nearly equal successive steps.
"""

import contextlib
import io
import json
import math
import os
import warnings

import numpy as np

from harness.common import blit, coqlist, zlist, zlit

RULE = (
    "trace correspondence: every cell of {solve,integrate,expm,<unknown>} x {ket,dop} x {dense,sparse,linear "
    "operator,(evals,evecs) tuple,callable} x {d=2,d=3} x {int_stop none/given}, each with several random dyadic "
    "(multiples of 1/8) t0 and time lists (non-uniform, repeated; non-monotonic for solve and expm), plus for "
    "every accepted cell late-time lists with increments tiny relative to the current time (t0=256 with steps of "
    "2^-10; t=64 then steps of 2^-13) and four step-size families on finer dyadic grids (2^-36 / 2^-44): successive "
    "steps equal up to a relative 1e-10..5e-2 (with exact repeats and sign flips), steps tiny in absolute terms "
    "(6e-14..1.4e-8, t0 = 0 or ~1e-9..6e-8), geometric grids from 2^-44, and zero / tiny / ordinary / repeated-ordinary "
    "mixtures (first requested time == t0), through update_to or at_times; compared exactly in Coq (the model's "
    "integrate skip rule is the coded 4-ulp test; the observed steps are also compared with the closed form of "
    "C18_step_rule) and, for the step families, by an exact Fraction reference on the step handed to the "
    "propagator primitive.  Non-trivial: accepted cell with >= 2 requested times, or a "
    "rejected cell.  oracle: random Hermitian H (real/complex, d in 2..8), dense/sparse/tuple/linear operator/"
    "callable, pure and mixed states, t0 != 0, vs scipy.linalg.expm at 1e-7 (integrate: 1e-4, scipy's default "
    "rtol=1e-6 cannot be set through Evolution), incl. fine grids late in time (t0=250, dt=1e-3; t=40, dt=1e-4) with "
    "||H||=50, and every time-independent cell in other units (||H|| = 2 pi x 0.3..3 GHz with irregular / geometric / "
    "zero-step-first nanosecond grids; ||H|| = 1e-6 with times ~1e6) and with nearly equal successive steps "
    "(relative 1e-7..1e-4, ||H|| = 10..50); non-trivial: >= 2 requested times."
)

TOL = 1e-7  # solve / expm
TOL_INT = 1e-4  # integrate (scipy default rtol=1e-6, atol=1e-12)

METHODS = ["solve", "integrate", "expm", "bogus"]
M_COQ = {"solve": "M_solve", "integrate": "M_integrate", "expm": "M_expm", "bogus": "M_other"}
HKINDS = ["dense", "sparse", "linop", "tuple", "callable"]
H_COQ = {"dense": "H_dense", "sparse": "H_sparse", "linop": "H_linop", "tuple": "H_tuple", "callable": "H_callable"}
ROUTINES = {
    "_update_to_solved_ket": "R_solved_ket",
    "_update_to_solved_dop": "R_solved_dop",
    "_update_to_expm_ket": "R_expm_ket",
    "_update_to_expm_dop": "R_expm_dop",
    "_update_to_integrate": "R_integrate",
}
EQS = {
    "schrodinger_eq_ket": "Q_ket",
    "schrodinger_eq_dop": "Q_dop",
    "schrodinger_eq_dop_vectorized": "Q_dop_vec",
    "schrodinger_eq_ket_timedep": "Q_ket_td",
    "schrodinger_eq_dop_timedep": "Q_dop_td",
}
SCALE = 8192  # times are multiples of 2^-13 (ordinary lists use multiples of 1/8)

COQ_HEADER = """From Coq Require Import ZArith List Bool.
From QV Require Import C18.Model.
Import ListNotations.
Open Scope Z_scope.
Definition routine_eqb (a b : routine) : bool := match a, b with
  | R_solved_ket, R_solved_ket | R_solved_dop, R_solved_dop | R_expm_ket, R_expm_ket
  | R_expm_dop, R_expm_dop | R_integrate, R_integrate => true | _, _ => false end.
Definition eq_eqb (a b : eqkind) : bool := match a, b with
  | Q_ket, Q_ket | Q_dop, Q_dop | Q_dop_vec, Q_dop_vec | Q_ket_td, Q_ket_td | Q_dop_td, Q_dop_td => true
  | _, _ => false end.
Definition oeq_eqb (a b : option eqkind) : bool := match a, b with
  | None, None => true | Some x, Some y => eq_eqb x y | _, _ => false end.
Definition exn_eqb (a b : exn) : bool := match a, b with
  | E_Type, E_Type | E_Value, E_Value | E_Crash, E_Crash => true | _, _ => false end.
Definition ctor_eqb (a b : ctor) : bool := match a, b with
  | Accepted r m q, Accepted r' m' q' => routine_eqb r r' && method_eqb m m' && oeq_eqb q q'
  | Raised e, Raised e' => exn_eqb e e' | _, _ => false end.
Definition ev_eqb (a b : event Z) : bool := match a, b with
  | Ev_diag d t, Ev_diag d' t' => (d =? d') && Bool.eqb t t'
  | Ev_expm d t, Ev_expm d' t' => (d =? d') && Bool.eqb t t'
  | Ev_int x y, Ev_int x' y' => (x =? x') && (y =? y')
  | _, _ => false end.
Fixpoint zl_eqb (a b : list Z) : bool := match a, b with
  | [], [] => true | x :: a', y :: b' => (x =? y) && zl_eqb a' b' | _, _ => false end.
Fixpoint evl_eqb (a b : list (event Z)) : bool := match a, b with
  | [], [] => true | x :: a', y :: b' => ev_eqb x y && evl_eqb a' b' | _, _ => false end.
Definition is_int (c : ctor) : bool := match c with Accepted R_integrate _ _ => true | _ => false end.
(* the integrator's own step times are scipy's choice: callback times are
   compared for the direct routines only *)
Definition obs_match (v : version) (c : config) (t0 : Z) (ts : list Z)
           (k : ctor) (clk : list Z) (tr : list (event Z)) (cb : list Z) : bool :=
  let o := ZI.observe v c t0 ts in
  ctor_eqb (ZI.o_ctor o) k && zl_eqb (ZI.o_clocks o) clk && evl_eqb (ZI.o_trace o) tr
  && (is_int k || zl_eqb (ZI.o_cb_times o) cb).
(* the step rule (C18_step_rule): the observed propagator applications are the
   closed form of (routine, t0, requested times) - 'expm' steps are exactly the
   successive differences of the requested times, whatever the earlier steps were *)
Definition steps_match (v : version) (t0 : Z) (ts : list Z) (k : ctor) (tr : list (event Z)) : bool :=
  match k with
  | Accepted r _ _ => evl_eqb (ZI.zclosed_trace (v_int_skip_same v) r t0 t0 ts) tr
  | Raised _ => true
  end.
(* the state the model holds equals the replay of the observed trace *)
Definition replay_match (v : version) (c : config) (t0 : Z) (ts : list Z) (tr : list (event Z)) : bool :=
  match construct v c with
  | Raised _ => true
  | Accepted r m q =>
      let s := ZI.zrun (v_int_skip_same v) (init Z ZI.St r m q t0 ZI.p0) ts in
      let x := ZI.zreplay q ZI.p0 tr in
      let y := ZI.zget_pt s in
      (fst x =? fst y) && (snd x =? snd y)
  end.
"""


# ----------------------------------------------------------------------------
# small helpers


def dy(rng, lo, hi):
    """a dyadic time k/8 with lo <= k/8 <= hi"""
    return rng.randint(int(lo * 8), int(hi * 8)) / 8


def to_z(x, scale=SCALE):
    """exact conversion of a dyadic float time to the scaled integer"""
    y = float(x) * scale
    if not y.is_integer():
        raise ValueError(f"time {x!r} is not a multiple of 1/{scale}")
    return int(y)


def near_z(x, scale=SCALE):
    """the integrator returns t = x + (xend - x), which may be one ulp off the
    requested dyadic time: snap when within 1e-12 (relative)"""
    y = float(x) * scale
    r = round(y)
    if abs(y - r) <= 1e-11 * max(1.0, abs(y)):
        return int(r)
    raise ValueError(f"integrator time {x!r} is not (numerically) a multiple of 1/{scale}")


def herm_dyadic(rng, d):
    """complex Hermitian matrix with dyadic entries, H[0,0] = 1"""
    H = np.zeros((d, d), dtype=complex)
    for i in range(d):
        H[i, i] = rng.randint(-4, 4) / 4
        for j in range(i + 1, d):
            z = rng.randint(-4, 4) / 4 + 1j * rng.randint(-4, 4) / 4
            H[i, j] = z
            H[j, i] = z.conjugate()
    H[0, 0] = 1.0
    return H


def int_state(rng, d, isdop):
    if not isdop:
        v = np.array([[rng.randint(-2, 2) + 1j * rng.randint(-2, 2)] for _ in range(d)], dtype=complex)
        if not np.any(v):
            v[0, 0] = 1
        return v
    a = np.array([[rng.randint(-2, 2) + 1j * rng.randint(-2, 2) for _ in range(d)] for _ in range(d)], dtype=complex)
    rho = a + a.conj().T
    rho[0, 0] += 1
    return rho


def cfg_lit(method, isdop, hk, dim2, int_stop):
    return f"(mk_config {M_COQ[method]} {blit(isdop)} {H_COQ[hk]} {blit(dim2)} {blit(int_stop)})"


def version_lit(v):
    return f"(mk_version {v['expm_dop']} {blit(v['by_type'])} {blit(v['int_skip'])})"


def classify_exc(e):
    msg = str(e)
    if isinstance(e, TypeError) and msg.startswith("You can't use the"):
        return "E_Type"
    if isinstance(e, ValueError) and (
        msg.startswith("You can't provide an integration stopping") or msg.startswith("Did not understand evolution method")
    ):
        return "E_Value"
    return "E_Crash"


# ----------------------------------------------------------------------------
# instrumentation of quimb.evo (module globals rebound at run time)


class Spy:
    """records the primitive calls Evolution makes"""

    NAMES = ["explt", "ldmul", "rdmul", "expm_multiply", "eigh", "complex_ode"] + list(EQS) + [
        "lindblad_eq",
        "lindblad_eq_vectorized",
    ]

    def __init__(self):
        import quimb.evo as qe

        self.qe = qe
        self.saved = {n: getattr(qe, n) for n in self.NAMES}
        self.calls = []
        self.builders = []
        self.eigh_calls = 0

    def __enter__(self):
        qe, saved, spy = self.qe, self.saved, self

        def explt(l, t):
            out = saved["explt"](l, t)
            spy.calls.append(("explt", l, t, out))
            return out

        def ldmul(diag, mat):
            out = saved["ldmul"](diag, mat)
            spy.calls.append(("ldmul", diag, mat, out))
            return out

        def rdmul(mat, diag):
            out = saved["rdmul"](mat, diag)
            spy.calls.append(("rdmul", mat, diag, out))
            return out

        def expm_multiply(mat, vec, *a, **kw):
            out = saved["expm_multiply"](mat, vec, *a, **kw)
            spy.calls.append(("expm", mat, vec, out))
            return out

        def eigh(*a, **kw):
            spy.eigh_calls += 1
            return saved["eigh"](*a, **kw)

        real_ode = saved["complex_ode"]

        class SpyOde(real_ode):
            def integrate(self, t, *a, **kw):
                spy.calls.append(("int", float(self.t), t, None))
                return real_ode.integrate(self, t, *a, **kw)

        qe.explt, qe.ldmul, qe.rdmul, qe.expm_multiply, qe.eigh, qe.complex_ode = (
            explt, ldmul, rdmul, expm_multiply, eigh, SpyOde)

        def wrap(name):
            def builder(*a, **kw):
                spy.builders.append(name)
                return saved[name](*a, **kw)

            return builder

        for n in list(EQS) + ["lindblad_eq", "lindblad_eq_vectorized"]:
            setattr(qe, n, wrap(n))
        return self

    def __exit__(self, *exc):
        for n, f in self.saved.items():
            setattr(self.qe, n, f)
        return False

    def take(self):
        c, self.calls = self.calls, []
        return c


def same_array(a, b):
    import scipy.sparse as sp

    if sp.issparse(a) or sp.issparse(b):
        if not (sp.issparse(a) and sp.issparse(b)):
            return False
        return a.shape == b.shape and (a != b).nnz == 0
    a, b = np.asarray(a), np.asarray(b)
    return a.shape == b.shape and np.array_equal(a, b)


def canon_update(evo, raw, ham_matrix, pt_before, scale=SCALE):
    """turn the primitive calls of ONE update into one model event (Coq text);
    raises ValueError when the call pattern is none the model knows."""
    to_zs = lambda x: to_z(x, scale)
    import quimb as qu

    kinds = [c[0] for c in raw]
    if not kinds and evo._update_method.__name__ == "_update_to_integrate":
        return None  # nothing was applied (allowed only when already at the requested time: the clocks decide)
    if kinds and kinds[0] == "explt":
        _, evals, delta, lt = raw[0]
        if not same_array(evals, evo._ham[0]):
            raise ValueError("explt called on something that is not the stored eigenvalues")
        if kinds == ["explt", "ldmul"]:
            _, diag, mat, _ = raw[1]
            if diag is not lt or mat is not evo.pe0:
                raise ValueError("ldmul not applied as diag(lt) @ pe0")
            return f"Ev_diag {zlit(to_zs(delta))} false"
        if kinds == ["explt", "ldmul", "rdmul"]:
            _, diag, mat, lout = raw[1]
            _, rmat, rdiag, _ = raw[2]
            if diag is not lt or mat is not evo.pe0 or rmat is not lout:
                raise ValueError("ldmul/rdmul not applied as diag(lt) @ pe0 @ diag(.)")
            if not np.array_equal(np.asarray(rdiag), np.asarray(lt).conj()):
                raise ValueError("right diagonal factor is not conj(lt)")
            return f"Ev_diag {zlit(to_zs(delta))} true"
        raise ValueError(f"unknown solved-update call pattern {kinds}")
    if kinds and kinds[0] == "expm":
        _, A, vec, out1 = raw[0]
        h00 = ham_matrix[0, 0]
        a00 = complex(A[0, 0])
        delta = -a00.imag / float(np.real(h00))
        if a00.real != 0.0 or not same_array(A, (-1j * delta) * evo._ham):
            raise ValueError("expm_multiply operator is not (-1j * delta) * ham")
        if vec is not pt_before:
            raise ValueError("expm_multiply not applied to the current state")
        if kinds == ["expm"]:
            return f"Ev_expm {zlit(to_zs(delta))} false"
        if kinds == ["expm", "expm"]:
            _, A2, vec2, _ = raw[1]
            if same_array(A2, A) and same_array(vec2, qu.dag(out1)):
                return f"Ev_expm {zlit(to_zs(delta))} true"
        raise ValueError(f"unknown expm-update call pattern {kinds}")
    if kinds == ["int"]:
        _, tfrom, tto, _ = raw[0]
        return f"Ev_int {zlit(near_z(tfrom, scale))} {zlit(to_zs(tto))}"
    raise ValueError(f"unknown update call pattern {kinds}")


def build_ham(hk, H, H1=None):
    """the Hamiltonian object handed to Evolution for representation `hk`"""
    import quimb as qu
    import scipy.sparse.linalg as spla

    if hk == "dense":
        return qu.qu(H)
    if hk == "sparse":
        return qu.qu(H, sparse=True)
    if hk == "linop":
        return spla.aslinearoperator(np.array(H))
    if hk == "tuple":
        el, ev = np.linalg.eigh(H)
        return (el, qu.qu(ev))
    if hk == "callable":
        if H1 is None:
            return lambda t: qu.qu(H)
        return lambda t: qu.qu(H + t * H1)
    if hk == "callable_sparse":
        return lambda t: qu.qu(H + t * H1, sparse=True)
    raise KeyError(hk)


def observe_impl(method, isdop, hk, d, int_stop, t0, ts, api, rngseed, scale=SCALE):
    """run one cell through the implementation under the spies; returns the
    canonical observation (ctor literal, clocks, events, callback times) or
    raises ValueError if something observed is outside the model's vocabulary"""
    import random

    from quimb.evo import Evolution

    rng = random.Random(rngseed)
    H = herm_dyadic(rng, d)
    p0 = int_state(rng, d, isdop)
    with Spy() as spy:
        ham = build_ham(hk, H)
        cb_times = []
        kw = {}
        if int_stop:
            kw["int_stop"] = lambda t, p: None
        try:
            import quimb as qu

            evo = Evolution(qu.qu(p0), ham, t0=t0, method=method, compute=lambda t, p: cb_times.append(t), **kw)
        except Exception as e:
            return {"ctor": f"(Raised {classify_exc(e)})", "clocks": [], "events": [], "cb": [], "exc": repr(e)[:200]}
        rname = ROUTINES.get(evo._update_method.__name__)
        if rname is None:
            raise ValueError(f"unknown update routine {evo._update_method.__name__}")
        mname = M_COQ.get(evo._method)
        if mname is None:
            raise ValueError(f"unknown self._method {evo._method!r}")
        if spy.builders:
            if len(spy.builders) != 1 or spy.builders[0] not in EQS:
                raise ValueError(f"unexpected right-hand side builders {spy.builders}")
            q = f"(Some {EQS[spy.builders[0]]})"
        else:
            q = "None"
        ctor = f"(Accepted {rname} {mname} {q})"
        spy.take()
        clocks, events = [], []
        try:
            if api == "at_times":
                gen = evo.at_times(ts)
            for t in ts:
                pt_before = evo._pt if hasattr(evo, "_pt") else None
                if api == "at_times":
                    yielded = next(gen)
                    if not same_array(yielded, evo.pt):
                        raise ValueError("at_times did not yield evo.pt")
                else:
                    evo.update_to(t)
                ev = canon_update(evo, spy.take(), H, pt_before, scale)
                if ev is not None:
                    events.append(ev)
                clocks.append(near_z(evo.t, scale) if rname == "R_integrate" else to_z(evo.t, scale))
        except ValueError:
            raise
        except Exception as e:
            return {"ctor": "(Raised E_Crash)", "clocks": [], "events": [], "cb": [], "exc": repr(e)[:200]}
        # eigh is called exactly when an unsolved Hamiltonian is diagonalised
        want_eigh = 1 if (rname.startswith("R_solved") and hk != "tuple") else 0
        if spy.eigh_calls != want_eigh:
            raise ValueError(f"eigh called {spy.eigh_calls} times, expected {want_eigh}")
        cb = [] if rname == "R_integrate" else [to_z(t, scale) for t in cb_times]
        if rname == "R_expm_ket" and any(e.startswith("Ev_expm") and e.endswith("true") for e in events):
            # a two-sided exponential update, whatever the bound method is called
            ctor = ctor.replace("R_expm_ket", "R_expm_dop")
        return {"ctor": ctor, "clocks": clocks, "events": events, "cb": cb}


def detect_version(ctx):
    """which of the model's code versions the implementation is (the two
    switches correspond to the two `_refuted` theorems)"""
    from quimb.evo import Evolution

    v = {}

    def probe(*a):
        # a probe whose observation is outside the model's vocabulary must not stop the
        # stream: the per-case correspondence reports it for every affected cell
        try:
            return observe_impl(*a)
        except ValueError:
            return None

    o = probe("expm", True, "dense", 3, False, 0.5, [1.25], "update_to", 11)
    if o is None:
        v["expm_dop"] = "EDP_twosided" if hasattr(Evolution, "_update_to_expm_dop") else "EDP_onesided"
    elif o["ctor"] == "(Raised E_Type)":
        v["expm_dop"] = "EDP_reject"
    elif o["ctor"].startswith("(Accepted R_expm_dop"):
        v["expm_dop"] = "EDP_twosided"
    else:
        v["expm_dop"] = "EDP_onesided"
    o2 = probe("solve", False, "dense", 2, False, 0.5, [1.25], "update_to", 12)
    v["by_type"] = o2 is None or o2["ctor"].startswith("(Accepted")
    o3 = probe("integrate", False, "dense", 3, False, 0.5, [1.25, 1.25], "update_to", 13)
    v["int_skip"] = o3 is not None and len(o3["events"]) == 1
    ctx.extra["implementation_code_version"] = (
        f"expm with a density operator: {v['expm_dop']}; pre-diagonalised Hamiltonian recognised by type: {v['by_type']}; "
        f"integrate skips a request for the time it is already at: {v['int_skip']} "
        "(the faithful model of the unrepaired code is EDP_onesided / False / False; see the _refuted theorems and known findings)"
    )
    return v


# ----------------------------------------------------------------------------
# stage 1: protocol-trace correspondence


def random_times(rng, method, t0, n):
    ts = []
    if method == "integrate":
        cur = t0
        for _ in range(n):
            if rng.random() < 0.25:
                ts.append(cur)  # repeated time
            else:
                cur = cur + rng.randint(1, 12) / 8
                ts.append(cur)
        return ts
    cur = t0
    for _ in range(n):
        r = rng.random()
        if r < 0.2 and ts:
            ts.append(ts[-1])
        elif r < 0.3:
            ts.append(t0)
        else:
            ts.append(dy(rng, -3, 5))
    return ts


def late_times(rng, family, method):
    """requested times whose increments are tiny RELATIVE to the current time:
    A: t0 = 256, increments k * 2^-10;  B: t0 = 60..63, first t = 64, then
    increments k * 2^-13.  Exact repeats included; solve / expm also step back."""
    if family == "A":
        t0, cur, q = 256.0, 256.0, 2.0 ** -10
        ts = []
    else:
        t0, cur, q = 60.0 + rng.randint(0, 24) / 8, 64.0, 2.0 ** -13
        ts = [64.0]
    for _ in range(rng.randint(3, 5)):
        r = rng.random()
        if r < 0.2 and ts:
            ts.append(ts[-1])
        elif r < 0.35 and method != "integrate" and ts:
            cur = cur - rng.randint(1, 2) * q
            ts.append(cur)
        else:
            cur = cur + rng.randint(1, 3) * q
            ts.append(cur)
    return t0, ts


STEP_FAMILIES = {
    "R": "near_equal_steps_rel",
    "T": "tiny_steps_abs",
    "G": "geometric_steps",
    "M": "mixed_zero_tiny_ordinary_steps",
}


def step_times(rng, fam, method):
    """requested times whose successive STEP SIZES are nearly - but not exactly -
    equal, or tiny in absolute terms, on a dyadic grid fine enough to express
    them exactly (integers in units of 1/scale; every time and every difference
    is an exact double):
      R  steps base +- k 2^e / 2^36 with base in {1/4, 1/2, 1, 3}: equal up to a
         relative 1e-10 .. 5e-2; exact repeats of a step; sign flips (not integrate)
      T  steps k u with u in 2^-44 .. 2^-32 (6e-14 .. 1.4e-8 in absolute terms), t0 = 0 or ~ +-1e-9 .. 6e-8
      G  steps u 2^j (a geomspace-like grid starting at 2^-44 .. 2^-36), growing or shrinking
      M  a zero step first (t == t0, as at_times(ts) with ts[0] == t0 does), then tiny,
         ordinary (1/8 ..), tiny, the same ordinary step again, ordinary + tiny
    returns (t0, ts, scale)."""
    mono = method == "integrate"
    sign = lambda: 1 if (mono or rng.random() < 0.7) else -1
    if fam == "R":
        scale = 2 ** 36
        base = rng.choice([1, 2, 4, 12]) * 2 ** 34
        t0 = rng.randint(-8, 8) * 2 ** 33
        steps = [base]
        for _ in range(rng.randint(2, 4)):
            r = rng.random()
            if r < 0.2:
                steps.append(steps[-1])
            elif r < 0.35:
                steps.append(base // 2 + rng.randint(0, 3) * 2 ** rng.choice([0, 6, 14]))
            else:
                steps.append(base + rng.choice([-1, 1]) * rng.randint(1, 3) * 2 ** rng.choice([2, 6, 12, 16, 20, 28]))
        steps = [sign() * x for x in steps]
    elif fam == "T":
        scale = 2 ** 44
        u = 2 ** rng.choice([0, 4, 8, 12])
        t0 = rng.choice([0, 0, 1, -1]) * rng.randint(1, 64) * 2 ** 14
        steps = [sign() * rng.randint(1, 60) * u for _ in range(rng.randint(3, 5))]
        if rng.random() < 0.3:
            steps.insert(rng.randint(0, len(steps)), 0)
    elif fam == "G":
        scale = 2 ** 44
        u = rng.randint(1, 3) * 2 ** rng.choice([0, 4, 8])
        t0 = rng.choice([0, 0, 1]) * rng.randint(1, 64) * 2 ** 14
        steps = [u * 2 ** j for j in range(rng.randint(4, 7))]
        if rng.random() < 0.4:
            steps.reverse()
        if not mono and rng.random() < 0.3:
            steps = [-x for x in steps]
    elif fam == "M":
        scale = 2 ** 44
        t0 = rng.randint(-4, 4) * 2 ** 41
        big = rng.randint(1, 6) * 2 ** 41
        tiny = lambda: rng.randint(1, 40) * 2 ** rng.choice([0, 6, 12])
        steps = [0, tiny(), big, tiny(), big, big + tiny()]
        if not mono and rng.random() < 0.5:
            steps += [-big, -big - tiny()]
    else:
        raise KeyError(fam)
    ts, cur = [], t0
    for x in steps:
        cur += x
        ts.append(cur / scale)
    return t0 / scale, ts, scale


def step_probe(rec):
    """DIRECT ORACLE on the implementation at the level of the step rule (exact for
    the direct routines - all times are dyadic, the reference is computed with
    Fractions): for each update, the step handed to the propagator primitive
    (explt(evals, delta) for the solved routines, the operator (-i delta) H given
    to expm_multiply for the expm routines, stepper.integrate(t) for the
    integrator) against  t - t0  /  t - (previously requested time)  /  t, and the
    clock after the call.  Returns a list of mismatch records."""
    import random
    from fractions import Fraction as F

    import quimb as qu
    from quimb.evo import Evolution

    rng = random.Random(rec["seed"])
    H = herm_dyadic(rng, rec["d"])
    p0 = int_state(rng, rec["d"], rec["isdop"])
    t0, ts = rec["t0"], rec["ts"]
    eps4 = 4 * np.finfo(float).eps
    out = []
    with Spy() as spy:
        kw = {"int_stop": (lambda t, p: None)} if rec["int_stop"] else {}
        try:
            evo = Evolution(qu.qu(p0), build_ham(rec["ham"], H), t0=t0, method=rec["method"], **kw)
        except Exception:
            return out  # rejected cells are the business of the support-table checks
        rname = evo._update_method.__name__
        spy.take()
        gen = evo.at_times(ts) if rec["api"] == "at_times" else None
        prev = t0
        for i, t in enumerate(ts):
            before = float(evo.t)
            try:
                if gen is not None:
                    next(gen)
                else:
                    evo.update_to(t)
            except Exception as e:
                out.append({"i": i, "t": t, "from": prev, "what": "raised", "detail": f"{type(e).__name__}: {str(e)[:120]}"})
                break
            raw = spy.take()
            after = float(evo.t)
            if "solved" in rname or "expm" in rname:
                if "solved" in rname:
                    want = F(t) - F(t0)
                    used = [F(float(c[2])) for c in raw if c[0] == "explt"]
                    ncalls = [1]
                else:
                    want = F(t) - F(prev)
                    used = [F(-complex(c[1][0, 0]).imag) for c in raw if c[0] == "expm"]  # H[0, 0] == 1
                    ncalls = [1, 2]
                if len(used) not in ncalls or any(u != want for u in used):
                    out.append({"i": i, "t": t, "from": prev, "what": "step", "used": [float(u) for u in used], "want": float(want)})
                if after != t:
                    out.append({"i": i, "t": t, "from": prev, "what": "clock", "used": after, "want": t})
            else:
                calls = [c for c in raw if c[0] == "int"]
                same = abs(t - before) <= eps4 * max(abs(t), abs(before))
                if (not calls and not same) or any(c[2] != t for c in calls) or len(calls) > 1:
                    out.append({"i": i, "t": t, "from": before, "what": "step", "used": [c[2] for c in calls], "want": t})
                if abs(after - t) > 2 * eps4 * max(abs(t), abs(before)):
                    out.append({"i": i, "t": t, "from": before, "what": "clock", "used": after, "want": t})
            prev = t
    return out


def report_steps(ctx, rec, mism):
    if not mism:
        return
    m = mism[0]
    sk = "dop" if rec["isdop"] else "ket"
    fam = STEP_FAMILIES.get(rec.get("family"), {"A": "late_time_small_increment", "B": "late_time_small_increment"}.get(
        rec.get("family"), "dyadic_times"))
    key = f"Evolution.{rec['method']}:{sk}:{rec['ham']}:{m['what']}:{fam}"
    if m["what"] == "step":
        msg = (f"request {m['i']} of t0={rec['t0']!r}, ts={rec['ts']!r} ({rec['api']}): going from {m['from']!r} to t={m['t']!r} the "
               f"propagator primitive was given the step {m['used']!r}, the exact step is {m['want']!r}")
    elif m["what"] == "clock":
        msg = f"request {m['i']} of t0={rec['t0']!r}, ts={rec['ts']!r} ({rec['api']}): evo.t = {m['used']!r} after asking for t={m['t']!r}"
    else:
        msg = f"request {m['i']} of t0={rec['t0']!r}, ts={rec['ts']!r} ({rec['api']}): {m['detail']}"
    replay = {k: rec[k] for k in ("method", "isdop", "ham", "d", "int_stop", "t0", "ts", "api", "seed")}
    ctx.violation(key, f"Evolution(method={rec['method']!r}, {sk}, ham={rec['ham']}, d={rec['d']}): {msg}",
                  dict(replay, kind="steps", family=rec.get("family"), mismatches=mism[:6]))


def trace_stream(ctx):
    rng = ctx.rng
    v = detect_version(ctx)
    vlit = version_lit(v)
    reps_ok, reps_rej = ctx.n(6, 60), ctx.n(1, 3)
    cases, info = [], {}
    cid = 0
    for method in METHODS:
        for isdop in (False, True):
            for hk in HKINDS:
                for d in (2, 3):
                    for int_stop in (False, True):
                        # a cell the documented table rejects needs no time lists: the budget goes to accepted cells
                        supported = py_supported(method, hk, int_stop)
                        reps = reps_ok if supported else reps_rej
                        # two extra cases per accepted cell (four in the thorough tier): late current time, tiny increments
                        late = ([("A", "update_to"), ("B", "at_times")] if (d + int(isdop)) % 2 else [("A", "at_times"), ("B", "update_to")])
                        if not ctx.quick:
                            late = [(f, a) for f in "AB" for a in ("update_to", "at_times")]
                        # four more per accepted cell (x2 apis x3 in the thorough tier): step SIZES nearly equal /
                        # tiny / geometric / mixed with zero and repeated steps (see step_times)
                        flip = (d + int(isdop) + int(int_stop)) % 2
                        stepfam = [(f, ("update_to", "at_times")[(i + flip) % 2]) for i, f in enumerate("RTGM")]
                        if not ctx.quick:
                            stepfam = [(f, a) for f in "RTGM" for a in ("update_to", "at_times")] * 3
                        plan = [None] * reps + ((late + stepfam) if supported else [])
                        for rep, fam in enumerate(plan):
                            scale = SCALE
                            if fam is None:
                                t0 = dy(rng, -2, 2) if rep % 5 else 0.0
                                n = rng.randint(1, 5)
                                ts = random_times(rng, method, t0, n)
                                api = "at_times" if rep % 2 else "update_to"
                            elif fam[0] in "AB":
                                t0, ts = late_times(rng, fam[0], method)
                                api = fam[1]
                                ctx.bump("late_time_small_increment:" + fam[0])
                            else:
                                t0, ts, scale = step_times(rng, fam[0], method)
                                api = fam[1]
                                ctx.bump("step_sizes:" + STEP_FAMILIES[fam[0]])
                            seed = rng.randrange(1 << 30)
                            cid += 1
                            rec = {"method": method, "isdop": isdop, "ham": hk, "d": d, "int_stop": int_stop,
                                   "t0": t0, "ts": ts, "api": api, "seed": seed, "version": v,
                                   "family": fam[0] if fam else None, "scale": scale}
                            info[cid] = rec
                            ctx.bump(f"cell:{method}")
                            try:
                                o = observe_impl(method, isdop, hk, d, int_stop, t0, ts, api, seed, scale)
                            except ValueError as e:
                                rec["outside_model"] = str(e)
                                ctx.count(("trace", cid), True)
                                cases.append((cid, "false"))
                                continue
                            if fam is not None and fam[0] in STEP_FAMILIES:
                                # the searcher on the new input class runs on every case (a few ms each)
                                report_steps(ctx, rec, step_probe(rec))
                            rec["observed"] = o
                            accepted = o["ctor"].startswith("(Accepted")
                            ctx.count(("trace", method, isdop, hk, d, int_stop, t0, tuple(ts), api),
                                      (accepted and len(ts) >= 2) or not accepted)
                            ctx.bump("accepted" if accepted else "rejected:" + o["ctor"])
                            c = cfg_lit(method, isdop, hk, d == 2, int_stop)
                            zts = zlist([to_z(t, scale) for t in ts])
                            ev = coqlist(o["events"], lambda s: f"({s})")
                            zt0 = zlit(to_z(t0, scale))
                            cases.append((cid, f"obs_match {vlit} {c} {zt0} {zts} {o['ctor']} "
                                               f"{zlist(o['clocks'])} {ev} {zlist(o['cb'])} && "
                                               f"replay_match {vlit} {c} {zt0} {zts} {ev} && "
                                               f"steps_match {vlit} {zt0} {zts} {o['ctor']} {ev}"))
                            if cid in (3, 200, 511):
                                ctx.sample(rec)
    failed, errors = ctx.coq_cases("trace", COQ_HEADER, cases, shard=ctx.n(600, 400))
    for path, err in errors:
        ctx.broken_obligation("correspondence:trace:" + os.path.basename(path), err)
    for c in failed[:6]:
        rec = info[c]
        ctx.broken_obligation("correspondence:trace_model_vs_impl", rec)
        # searcher: the direct oracle on this cell (and smaller versions of it)
        search_cell(ctx, rec)
    ctx.extra["trace_cases"] = len(cases)
    ctx.extra["trace_mismatches"] = len(failed)
    return v


def py_supported(method, hk, int_stop):
    """the documented support table (mirror of spec_supported, without the
    version-dependent expm/dop cell)"""
    if int_stop and method != "integrate":
        return False
    if hk == "tuple" or method == "integrate":
        return True
    return method in ("solve", "expm") and hk in ("dense", "sparse")


def check_rejected(ctx, method, isdop, hk, d, int_stop, seed=5):
    """an unsupported cell must raise the documented TypeError / ValueError"""
    import random

    import quimb as qu
    from quimb.evo import Evolution

    rng = random.Random(seed)
    H = herm_dyadic(rng, d)
    p0 = int_state(rng, d, isdop)
    kw = {"int_stop": (lambda t, p: None)} if int_stop else {}
    try:
        Evolution(qu.qu(p0), build_ham(hk, H), t0=0.25, method=method, **kw)
        outcome = "accepted"
    except Exception as e:
        outcome = classify_exc(e)
    if outcome in ("E_Type", "E_Value"):
        return
    ctx.violation(f"Evolution.{method}:{hk}:{'int_stop:' if int_stop else ''}not_rejected",
                  f"unsupported combination method={method!r}, {hk} Hamiltonian, int_stop={'given' if int_stop else 'None'} is "
                  f"{'accepted' if outcome == 'accepted' else 'not cleanly rejected (crash)'} instead of raising the documented error",
                  {"kind": "must_reject", "method": method, "isdop": isdop, "ham": hk, "d": d, "int_stop": int_stop,
                   "H": cl(H), "p0": cl(p0), "outcome": outcome})


def search_cell(ctx, rec):
    """direct numerical oracle on the cell of a failed correspondence case"""
    rng = np.random.default_rng(ctx.seed + 4242)
    hk = rec["ham"]
    if not py_supported(rec["method"], hk, rec["int_stop"]):
        check_rejected(ctx, rec["method"], rec["isdop"], hk, rec["d"], rec["int_stop"])
        return
    mism = step_probe(rec)
    report_steps(ctx, rec, mism)
    # a Hamiltonian large enough for a wrong step to show in the state (||H|| * |step error| ~ 0.3 rad,
    # total phase kept below ~1e3 rad so that the references stay accurate to 1e-10)
    norms = [None]
    errs = [abs(u - m["want"]) for m in mism if m["what"] == "step" for u in m["used"] if u != m["want"]]
    span = max([abs(t - rec["t0"]) for t in rec["ts"]] + [0.0])
    if errs and span > 0 and min(0.3 / min(errs), 1e3 / span) * min(errs) > 100 * TOL_INT:
        norms.append(min(0.3 / min(errs), 1e3 / span))
    for norm in norms:
        for d in (rec["d"], 3, 2):
            for ts in (rec["ts"], rec["ts"][:2], rec["ts"][:1]):
                if not ts:
                    continue
                spec = make_spec(rng, d=d, isdop=rec["isdop"], method=rec["method"], hk=hk, cplx=True,
                                 t0=rec["t0"], ts=list(ts), api=rec["api"], compute="single2", mixed=False, norm=norm)
                if norm is not None:
                    spec["wscale"] = norm
                report(ctx, spec, run_oracle(spec, expect_supported=False))


# ----------------------------------------------------------------------------
# stage 2: exact contract check of the right-hand sides (Gaussian integers)


def gi_rand(rng, *shape):
    return rng.integers(-3, 4, size=shape) + 1j * rng.integers(-3, 4, size=shape)


def gi_matmul(A, B):
    """integer (Python int) Gaussian matrix product - independent of floats"""
    A = np.asarray(A)
    B = np.asarray(B)
    n, k = A.shape
    k2, m = B.shape
    out = [[None] * m for _ in range(n)]
    for i in range(n):
        for j in range(m):
            re = im = 0
            for l in range(k):
                ar, ai = int(round(A[i, l].real)), int(round(A[i, l].imag))
                br, bi = int(round(B[l, j].real)), int(round(B[l, j].imag))
                re += ar * br - ai * bi
                im += ar * bi + ai * br
            out[i][j] = complex(re, im)
    return np.array(out, dtype=complex)


def rhs_stream(ctx):
    import quimb as qu
    import quimb.evo as qe

    rng = np.random.default_rng(ctx.seed + 18)
    n = ctx.n(60, 600)
    for k in range(n):
        d = int(rng.integers(2, 5))
        a = gi_rand(rng, d, d)
        H = a + a.conj().T
        a1 = gi_rand(rng, d, d)
        H1 = a1 + a1.conj().T
        b = gi_rand(rng, d, d)
        rho = b + b.conj().T
        psi = gi_rand(rng, d, 1)
        t = int(rng.integers(-3, 4))
        Ht = H + t * H1
        comm = lambda Hm: -1j * (gi_matmul(Hm, rho) - gi_matmul(rho, Hm))
        table = [
            ("ket:dense", qe._calc_evo_eq(0, 0, 0, 0)(qu.qu(H)), psi.reshape(-1), -1j * gi_matmul(H, psi).reshape(-1)),
            ("ket:sparse", qe._calc_evo_eq(0, 1, 0, 0)(qu.qu(H, sparse=True)), psi.reshape(-1), -1j * gi_matmul(H, psi).reshape(-1)),
            ("dop:dense", qe._calc_evo_eq(1, 0, 0, 0)(qu.qu(H)), rho.reshape(-1), comm(H).reshape(-1)),
            ("dop:sparse", qe._calc_evo_eq(1, 1, 0, 0)(qu.qu(H, sparse=True)), rho.reshape(-1), comm(H).reshape(-1)),
            ("ket:timedep", qe._calc_evo_eq(0, 0, 0, 1)(lambda s: qu.qu(H + s * H1)), psi.reshape(-1), -1j * gi_matmul(Ht, psi).reshape(-1)),
            ("dop:timedep", qe._calc_evo_eq(1, 0, 0, 1)(lambda s: qu.qu(H + s * H1)), rho.reshape(-1), comm(Ht).reshape(-1)),
            ("dop:timedep:sparse", qe._calc_evo_eq(1, 1, 0, 1)(lambda s: qu.qu(H + s * H1, sparse=True)), rho.reshape(-1), comm(Ht).reshape(-1)),
        ]
        # Lindblad right-hand sides (contract only): -i[H,rho] + g sum(L rho L+ - {L+L, rho}/2), g dyadic
        L1, L2 = gi_rand(rng, d, d), gi_rand(rng, d, d)
        g = float(rng.integers(0, 5)) / 2
        lind = comm(H)
        for Lm in (L1, L2):
            Ld = Lm.conj().T
            LL = gi_matmul(Ld, Lm)
            lind = lind + g * (gi_matmul(gi_matmul(Lm, rho), Ld) - 0.5 * (gi_matmul(rho, LL) + gi_matmul(LL, rho)))
        table.append(("lindblad:dense", qe.lindblad_eq(qu.qu(H), [qu.qu(L1), qu.qu(L2)], g), rho.reshape(-1), lind.reshape(-1)))
        table.append(("lindblad:vectorized", qe.lindblad_eq_vectorized(qu.qu(H), [qu.qu(L1), qu.qu(L2)], g), rho.reshape(-1), lind.reshape(-1)))
        table.append(("lindblad:vectorized:sparse", qe.lindblad_eq_vectorized(qu.qu(H, sparse=True), [qu.qu(L1, sparse=True), qu.qu(L2, sparse=True)], g), rho.reshape(-1), lind.reshape(-1)))
        for name, f, y, want in table:
            ctx.count(("rhs", name, k), True)
            ctx.bump("rhs:" + name.split(":")[0])
            try:
                got = np.asarray(f(float(t), np.array(y, dtype=complex))).reshape(-1)
                ok = got.shape == want.shape and np.array_equal(got, want)
            except Exception as e:
                ok, got = False, repr(e)[:200]
            if not ok:
                ctx.violation(f"evo.rhs:{name}", f"right-hand side {name} is not the exact commutator / Schroedinger generator on integer data",
                              {"kind": "rhs", "name": name, "H": cl(H), "H1": cl(H1), "t": t, "rho": cl(rho), "psi": cl(psi),
                               "L": [cl(L1), cl(L2)], "gamma": g, "got": cl(got) if not isinstance(got, str) else got, "want": cl(want)})


def cl(a):
    a = np.asarray(a)
    return [[float(np.real(x)), float(np.imag(x))] for x in a.reshape(-1)] + [list(a.shape)]


def uncl(l):
    shape = l[-1]
    return np.array([complex(x, y) for x, y in l[:-1]], dtype=complex).reshape(shape)


# ----------------------------------------------------------------------------
# stage 3: numerical oracle

FUNCS = {
    "cos": lambda t: math.cos(t),
    "lin": lambda t: 0.5 * t,
    "sin2": lambda t: 1.0 + math.sin(2 * t),
}


def rand_herm(rng, d, cplx, norm=None):
    a = rng.normal(size=(d, d)) + (1j * rng.normal(size=(d, d)) if cplx else 0)
    H = (a + a.conj().T) / 2
    H = H / np.linalg.norm(H, 2) * (rng.uniform(0.5, 2.0) if norm is None else norm)
    return H.astype(complex)


def make_spec(rng, d, isdop, method, hk, cplx, t0, ts, api, compute, mixed, progbar=False, fname=None, norm=None):
    H = rand_herm(rng, d, cplx, norm)
    spec = {"kind": "oracle", "d": d, "isdop": isdop, "method": method, "ham": hk, "cplx": cplx, "t0": t0, "ts": ts,
            "api": api, "compute": compute, "progbar": progbar, "H": cl(H)}
    if hk.startswith("callable"):
        spec["f"] = fname or "cos"
        spec["H1"] = cl(H if hk == "callable_commuting" else rand_herm(rng, d, cplx))
    psi = rng.normal(size=(d, 1)) + (1j * rng.normal(size=(d, 1)) if cplx else 0)
    psi = psi / np.linalg.norm(psi)
    if not isdop:
        spec["p0"] = cl(psi)
    else:
        rho = psi @ psi.conj().T
        if mixed:
            phi = rng.normal(size=(d, 1)) + 1j * rng.normal(size=(d, 1))
            phi = phi / np.linalg.norm(phi)
            w = rng.uniform(0.2, 0.8)
            rho = w * rho + (1 - w) * (phi @ phi.conj().T)
        spec["p0"] = cl(rho)
    return spec


class Reference:
    """exact propagator from t0.  Time-independent H: scipy.linalg.expm at the
    requested times (`exact=True`), the spectral form V exp(-i lam dt) V^dagger
    (cross-checked against scipy.linalg.expm at every requested time) at the
    many intermediate callback times.  H(t) = H0 + f(t) H1: 4th-order Magnus
    product (Gauss-Legendre nodes, step <= 1/64), each factor the exponential of
    an anti-Hermitian matrix computed spectrally."""

    def __init__(self, spec):
        import scipy.linalg as sla

        self.sla = sla
        self.H = uncl(spec["H"])
        self.t0 = spec["t0"]
        self.td = spec["ham"].startswith("callable")
        self.commuting = spec["ham"] == "callable_commuting"
        if self.td:
            self.H1 = uncl(spec["H1"])
            self.f = FUNCS[spec["f"]]
        else:
            self.lam, self.V = np.linalg.eigh(self.H)
        self.cache = {}

    def Ht(self, t):
        if self.commuting:
            return self.f(t) * self.H
        return self.H + self.f(t) * self.H1

    @staticmethod
    def exp_antiherm(Om):
        """expm(Om) for anti-Hermitian Om = -i K"""
        lam, V = np.linalg.eigh(1j * Om)
        return (V * np.exp(-1j * lam)) @ V.conj().T

    def _magnus(self, a, b):
        d = self.H.shape[0]
        U = np.eye(d, dtype=complex)
        if a == b:
            return U
        n = max(1, int(math.ceil(abs(b - a) * 64)))
        h = (b - a) / n
        c1, c2 = 0.5 - math.sqrt(3) / 6, 0.5 + math.sqrt(3) / 6
        for k in range(n):
            t = a + k * h
            A1 = -1j * self.Ht(t + c1 * h)
            A2 = -1j * self.Ht(t + c2 * h)
            Om = 0.5 * h * (A1 + A2) - (math.sqrt(3) / 12) * h * h * (A1 @ A2 - A2 @ A1)
            U = self.exp_antiherm(Om) @ U
        return U

    def U(self, t, exact=False):
        t = float(t)
        if not self.td:
            u = (self.V * np.exp(-1j * self.lam * (t - self.t0))) @ self.V.conj().T
            if exact:
                ue = self.sla.expm(-1j * self.H * (t - self.t0))
                if np.abs(ue - u).max() > 1e-10:
                    raise RuntimeError("reference propagators disagree (scipy.linalg.expm vs spectral form)")
                return ue
            return u
        if t in self.cache:
            return self.cache[t]
        # continue from the nearest cached time on the way from t0
        prev = [s for s in self.cache if self.t0 <= s <= t or t <= s <= self.t0]
        if prev:
            s = max(prev, key=lambda x: abs(x - self.t0))
            u = self._magnus(s, t) @ self.cache[s]
        else:
            u = self._magnus(self.t0, t)
        self.cache[t] = u
        return u

    def state(self, p0, isdop, t, exact=False):
        u = self.U(t, exact)
        return u @ p0 @ u.conj().T if isdop else u @ p0


def run_oracle(spec, expect_supported=True):
    """evolve with quimb, compare with the reference.  Returns a list of
    (tag, message) failures; tags: raised / state / clock / conserved:<q> /
    callback:<what> / one_sided."""
    import quimb as qu
    import scipy.sparse.linalg as spla
    from quimb.evo import Evolution

    fails = []
    d, isdop, method, hk = spec["d"], spec["isdop"], spec["method"], spec["ham"]
    H = uncl(spec["H"])
    p0 = uncl(spec["p0"])
    t0, ts = spec["t0"], spec["ts"]
    ref = Reference(spec)
    tol = TOL_INT if method == "integrate" and hk != "tuple" else TOL
    user_ham = None
    if hk in ("dense", "sparse", "linop", "tuple"):
        ham = build_ham(hk, H)
    else:
        H1 = uncl(spec["H1"])
        f = FUNCS[spec["f"]]
        if hk == "callable_commuting":
            user_ham = lambda t: qu.qu(f(t) * H)
        elif hk == "callable_sparse":
            user_ham = lambda t: qu.qu(H + f(t) * H1, sparse=True)
        else:
            user_ham = lambda t: qu.qu(H + f(t) * H1)
        ham = user_ham
    seen = {"a": [], "b": []}
    compute = None
    if spec["compute"] == "single2":
        compute = lambda t, p: seen["a"].append((t, np.array(np.asarray(p)), None)) or t
    elif spec["compute"] == "single3":
        compute = lambda t, p, Hc: seen["a"].append((t, np.array(np.asarray(p)), Hc)) or t
    elif spec["compute"] == "dict":
        compute = {
            "a": lambda t, p: seen["a"].append((t, np.array(np.asarray(p)), None)) or t,
            "b": lambda t, p, Hc: seen["b"].append((t, np.array(np.asarray(p)), Hc)) or t,
        }
    states = []
    caught = []
    try:
        with contextlib.redirect_stderr(io.StringIO()), warnings.catch_warnings(record=True) as caught:
            warnings.simplefilter("always")
            evo = Evolution(qu.qu(p0), ham, t0=t0, method=method, compute=compute, progbar=spec.get("progbar", False))
            if spec["api"] == "at_times":
                for t, p in zip(ts, evo.at_times(ts)):
                    states.append((t, evo.t, np.array(np.asarray(p))))
            else:
                for t in ts:
                    evo.update_to(t)
                    states.append((t, evo.t, np.array(np.asarray(evo.pt))))
            results = evo.results if compute is not None else None
    except Exception as e:
        if not expect_supported and classify_exc(e) != "E_Crash":
            return []
        if method == "expm" and isdop and hk != "tuple" and classify_exc(e) == "E_Type":
            # a code version that declares this cell unsupported: rejected rather than evolved incorrectly
            return []
        return [("raised", f"{type(e).__name__}: {str(e)[:160]}")]
    shape = (d, d) if isdop else (d, 1)
    # families with a Hamiltonian in other units (||H|| = wscale, times ~ 1 / wscale): energies are compared in
    # units of wscale and the clock relative to the times themselves
    wscale = spec.get("wscale")
    escale = 1.0 if wscale is None else float(wscale)
    e0 = energy(H, p0, isdop) / escale
    for i, (t, tclock, p) in enumerate(states):
        if abs(tclock - t) > 1e-12 * (max(1.0, abs(t)) if wscale is None else max(abs(t), abs(t0))):
            if (i > 0 and states[i - 1][0] == t and states[i - 1][1] != t and method == "integrate" and hk != "tuple"
                    and abs(states[i - 1][1] - t) <= 1e-12 * max(1.0, abs(t))):
                # the previous call reached t only up to rounding (t +- 1 ulp); the
                # repeated request is then a one-ulp integration in the other direction
                fails.append(("repeated_time_ulp", f"update_to({t!r}) repeated: the first call left evo.t={states[i - 1][1]!r}, "
                                                   f"the second one left evo.t={tclock!r}"))
                break
            gave_up = [str(w.message) for w in caught if "step size becomes too small" in str(w.message)]
            if gave_up and method == "integrate" and hk != "tuple":
                # the stepper starts every integrate() call with first_step = ||H(0)||_F / 50 (150 for dopri5) and
                # gives up when 0.1 * first_step <= eps * |t|
                # (for a linear operator the norm is a stochastic estimate: read the step the stepper was really given)
                H0 = H if user_ham is None else dense(user_ham(0.0))
                fs = getattr(getattr(evo._stepper, "_integrator", None), "first_step", None)
                if fs is None:
                    fs = np.linalg.norm(H0, "fro") / 50
                if 0.1 * fs <= 2 * np.finfo(float).eps * abs(tclock):
                    fails.append(("first_step_below_time_resolution",
                                  f"update_to({t!r}) left evo.t={tclock!r}: scipy's stepper gave up ('{gave_up[0]}'), its first "
                                  f"step {fs:.3e} (||H||_F / 50 = {np.linalg.norm(H0, 'fro') / 50:.3e}) is below the floating point "
                                  f"spacing of the current time"))
                    break
            fails.append(("clock", f"requested t={t}, evo.t={tclock}"))
        if p.shape != shape:
            fails.append(("state", f"state of shape {p.shape}, expected {shape}"))
            continue
        want = ref.state(p0, isdop, t, exact=True)
        err = float(np.abs(p - want).max())
        if not err <= tol:
            one = ref.U(t) @ p0
            if isdop and float(np.abs(p - one).max()) <= tol:
                fails.append(("one_sided", f"rho(t) = U rho0 (left factor only) at t={t}: error {err:.3e} against U rho0 U^dagger"))
            else:
                fails.append(("state", f"state at t={t} differs from the exact evolution by {err:.3e} (tolerance {tol:g})"))
            continue
        # conservation laws
        if isdop:
            q = [("trace", np.trace(p), np.trace(p0)), ("purity", np.trace(p @ p), np.trace(p0 @ p0)),
                 ("hermiticity", np.abs(p - p.conj().T).max(), 0.0)]
        else:
            q = [("norm", np.linalg.norm(p), np.linalg.norm(p0))]
        if not ref.td:
            q.append(("energy", energy(H, p, isdop) / escale, e0))
        for name, got, wantq in q:
            if not abs(got - wantq) <= 10 * tol:
                fails.append((f"conserved:{name}", f"{name} at t={t}: {got} vs initial {wantq}"))
    # callbacks
    if compute is not None:
        for key in ("a", "b"):
            for tc, pc, Hc in seen[key]:
                if pc.shape != shape:
                    fails.append(("callback:shape", f"callback saw a state of shape {pc.shape}"))
                    continue
                err = float(np.abs(pc - ref.state(p0, isdop, tc)).max())
                if not err <= tol:
                    fails.append(("callback:state", f"callback at t={tc} saw a state off by {err:.3e}"))
                if Hc is not None:
                    okH = True
                    if isinstance(Hc, tuple):
                        el, ev = Hc
                        ev = np.asarray(ev)
                        okH = np.abs(ev @ np.diag(np.asarray(el)) @ ev.conj().T - H).max() < 1e-9 * max(1.0, escale)
                    elif ref.td:
                        okH = np.abs(dense(Hc(0.3)) - dense(user_ham(0.3))).max() < 1e-12
                    else:
                        okH = Hc is ham
                    if not okH:
                        fails.append(("callback:ham", "callback was not handed the Hamiltonian of the evolution"))
        direct = method != "integrate" or hk == "tuple"
        if direct:
            got_t = [s[0] for s in seen["a"]]
            if got_t != list(ts):
                fails.append(("callback:times", f"callback times {got_t[:8]} are not the requested times {list(ts)[:8]}"))
        res_a = results["a"] if isinstance(results, dict) else results
        if list(res_a) != [s[0] for s in seen["a"]]:
            fails.append(("callback:results", "Evolution.results is not the list of callback return values"))
        if isinstance(results, dict) and list(results["b"]) != [s[0] for s in seen["b"]]:
            fails.append(("callback:results", "Evolution.results['b'] is not the list of callback return values"))
        if not direct and ts:
            # the integrator hands every accepted step to the callback; the last one is the target
            if not seen["a"] or abs(seen["a"][-1][0] - ts[-1]) > 1e-12 * max(1, abs(ts[-1])):
                fails.append(("callback:times", "the integrator's last callback is not at the requested time"))
    return fails


def dense(a):
    return a.toarray() if hasattr(a, "toarray") and not isinstance(a, np.ndarray) else np.asarray(a)


def energy(H, p, isdop):
    return float(np.real(np.trace(H @ p))) if isdop else float(np.real((p.conj().T @ H @ p)[0, 0]))


def report(ctx, spec, fails):
    if not fails:
        return
    method, hk, sk, d = spec["method"], spec["ham"], ("dop" if spec["isdop"] else "ket"), spec["d"]
    tag, msg = fails[0]
    if tag == "one_sided" and method == "expm":
        key = "Evolution.expm:dop:one_sided_propagator"
    elif tag == "raised" and method == "solve" and hk in ("dense", "sparse") and d == 2:
        key = "Evolution.solve:unsolved_2x2_ham:unpacked_as_tuple"
    elif tag == "first_step_below_time_resolution":
        key = "Evolution.integrate:first_step_proportional_to_ham_norm:step_size_too_small"
    elif tag == "repeated_time_ulp":
        key = "Evolution.integrate:repeated_time:one_ulp_backward_step"
    elif (tag == "raised" and "ZeroDivisionError" in msg and spec.get("progbar") and spec["api"] == "update_to"
          and method == "integrate" and hk != "tuple" and has_empty_window(spec)):
        key = "Evolution.integrate:progbar:update_to_current_time:ZeroDivisionError"
    else:
        key = f"Evolution.{method}:{sk}:{hk}:{tag}"
        if spec.get("family"):
            key += ":" + spec["family"]  # input class of the unit-scaled / nearly-equal-step families
    ctx.violation(key, f"Evolution(method={method!r}, {sk}, ham={hk}, d={d}): {msg}", dict(spec, failures=fails[:6]))


def has_empty_window(spec):
    """a requested time equal to the time the evolution is already at"""
    cur = spec["t0"]
    for t in spec["ts"]:
        if t == cur:
            return True
        cur = t
    return False


def oracle_times(rng, method, hk, t0):
    n = int(rng.integers(1, 6))
    ts = []
    mono = method in ("integrate", "expm") and hk != "tuple"
    cur = t0
    for _ in range(n):
        r = rng.random()
        if r < 0.2 and ts:
            ts.append(ts[-1])
        elif mono:
            cur = cur + float(rng.uniform(0.02, 1.2))
            ts.append(cur)
        else:
            ts.append(float(rng.uniform(t0 - 2.0, t0 + 3.0)))
    return ts


def oracle_stream(ctx):
    rng = np.random.default_rng(ctx.seed + 1800)
    # time-independent Hamiltonians: every supported cell
    cells = []
    for method in ("solve", "integrate", "expm"):
        for hk in ("dense", "sparse", "tuple", "linop"):
            if hk == "linop" and method != "integrate":
                continue
            for isdop in (False, True):
                cells.append((method, hk, isdop))
    reps = ctx.n(5, 70)
    computes = ["none", "single2", "single3", "dict"]
    k = 0
    for rep in range(reps):
        for method, hk, isdop in cells:
            k += 1
            d = int(rng.choice([2, 3, 4, 5, 8])) if rep else 2 + (k % 3)
            t0 = float(rng.uniform(-1.5, 1.5)) if rep % 4 else [0.0, 0.75, -0.5][k % 3]
            ts = oracle_times(rng, method, hk, t0)
            spec = make_spec(rng, d=d, isdop=isdop, method=method, hk=hk, cplx=bool(rng.integers(0, 2)),
                             t0=t0, ts=ts, api="at_times" if k % 3 == 0 else "update_to",
                             compute=computes[k % 4], mixed=bool(rng.integers(0, 2)),
                             progbar=(method == "integrate" and k % 11 == 0))
            ctx.count(("oracle", k, method, hk, isdop, d), len(ts) >= 2)
            ctx.bump(f"oracle:{method}:{'dop' if isdop else 'ket'}")
            report(ctx, spec, run_oracle(spec))
            if k in (5, 40):
                ctx.sample({k2: v for k2, v in spec.items() if k2 not in ("H", "p0", "H1")})
    # progress bar on (display only): update_to and at_times, including a repeated time and t == t0
    for i in range(ctx.n(8, 40)):
        method = ["integrate", "integrate", "solve", "expm"][i % 4]
        isdop = bool((i // 4) % 2) and method != "expm"
        t0 = [0.0, -0.75][i % 2]
        ts = [[t0 + 0.5, t0 + 0.5, t0 + 1.25], [t0, t0 + 0.75], [t0 + 0.3, t0 + 1.0]][i % 3]
        spec = make_spec(rng, d=3, isdop=isdop, method=method, hk=["dense", "sparse"][(i // 2) % 2], cplx=True, t0=t0,
                         ts=ts, api=["update_to", "at_times"][(i // 3) % 2], compute=computes[i % 4], mixed=True, progbar=True)
        ctx.count(("oracle_progbar", i), True)
        ctx.bump("oracle:progbar")
        report(ctx, spec, run_oracle(spec))
    # late current time, fine grid: increments tiny relative to t (dt/t ~ 4e-6, 2.5e-6); ||H|| = 50 makes
    # every single increment visible at tolerance (0.05 rad, 0.005 rad per step)
    k = 0
    for rep in range(ctx.n(1, 6)):
        for method, hk, isdop in cells:
            for fam in "AB":
                k += 1
                if ctx.quick and method != "integrate" and (k + int(isdop)) % 2:
                    continue
                if fam == "A":
                    t0 = 250.0
                    ts = [250.0 + 1e-3 * j for j in (1, 2, 3, 3, 4, 5, 6)]
                else:
                    t0 = 39.5
                    ts = [40.0] + [40.0 + 1e-4 * j for j in (1, 2, 3, 3, 4, 5)]
                if rep:
                    ts = [t for t in ts if rng.random() < 0.8] or ts[:2]
                spec = make_spec(rng, d=int(rng.choice([2, 3, 4])), isdop=isdop, method=method, hk=hk, cplx=bool(k % 2),
                                 t0=t0, ts=ts, api="at_times" if k % 3 == 0 else "update_to", compute=computes[k % 4],
                                 mixed=bool(k % 2), norm=50.0)
                ctx.count(("oracle_late", rep, k, method, hk, isdop, fam), True)
                ctx.bump(f"oracle:late_fine_grid:{fam}:{method}")
                report(ctx, spec, run_oracle(spec))
    # other units / nearly equal steps (TEST, tolerance; references: scipy.linalg.expm of -i H (t - t0), cross-checked
    # against the spectral form): the property is covariant under H -> w H, t -> t / w, so the families above are
    # repeated with w = a few GHz in rad/s (times in nanoseconds: every step is < 1e-8 in absolute terms) and
    # w = 1e-6 (times ~ 1e6), on irregular, geometric and zero-step-first grids; and in natural units with
    # successive steps equal up to a relative 1e-7 .. 1e-4 while ||H|| is large enough (10 .. 50) for one such
    # difference to show at tolerance.  Non-trivial: >= 2 requested times (always).
    k = 0
    for rep in range(ctx.n(1, 8)):
        for method, hk, isdop in cells:
            for fam in ("ns_irregular", "ns_geometric", "ns_zero_step_first", "slow_near_equal", "near_equal"):
                k += 1
                n = int(rng.integers(3, 7))
                sgn = lambda: 1.0 if (method == "integrate" and hk != "tuple") or rng.random() < 0.75 else -1.0
                if fam.startswith("ns_"):
                    w = 2 * math.pi * 1e9 * float(rng.uniform(0.3, 3.0))
                    t0 = [0.0, 2e-9, -1.5e-9][k % 3]
                    if fam == "ns_irregular":
                        steps = [sgn() * float(rng.uniform(0.05, 3.0)) / w for _ in range(n)]
                    elif fam == "ns_geometric":
                        steps = list(np.diff(np.concatenate([[0.0], np.geomspace(1e-2, 20.0, n + 2)])) / w)
                    else:
                        steps = [0.0] + [float(rng.uniform(0.05, 2.0)) / w for _ in range(n)]
                elif fam == "slow_near_equal":
                    w = 1e-6 * float(rng.uniform(0.5, 2.0))
                    t0 = [0.0, 3.0e5][k % 2]
                    s0 = float(rng.uniform(0.5, 2.0)) / w
                    steps = [s0, s0 * (1 + 4e-6), sgn() * s0 * (1 - 7e-6), s0, s0 / 2, s0 / 2 * (1 + 2e-6)][:n]
                else:
                    w = float(rng.uniform(10.0, 50.0))
                    t0 = [0.0, 0.75, -0.5][k % 3]
                    s0 = float(rng.uniform(0.2, 1.0))
                    rel = lambda: 10.0 ** -float(rng.uniform(4.0, 7.0))
                    steps = [s0, s0 * (1 + rel()), sgn() * s0 / 2, s0 / 2 * (1 + rel()), s0, s0 * (1 - rel())][:n]
                ts, cur = [], t0
                for x in steps:
                    cur = cur + x
                    ts.append(cur)
                spec = make_spec(rng, d=int(rng.choice([2, 3, 4, 8])), isdop=isdop, method=method, hk=hk, cplx=bool(rng.integers(0, 2)),
                                 t0=t0, ts=ts, api="at_times" if (k + rep) % 2 else "update_to", compute=computes[k % 4],
                                 mixed=bool(k % 2), norm=w)
                spec["wscale"] = w
                spec["family"] = fam
                ctx.count(("oracle_units", rep, k, method, hk, isdop, fam), True)
                ctx.bump(f"oracle:units:{fam}:{method}")
                report(ctx, spec, run_oracle(spec))
    # time-dependent Hamiltonians (integrate only)
    for i in range(ctx.n(15, 240)):
        hk = ["callable", "callable_sparse", "callable_commuting"][i % 3]
        isdop = bool(i % 2)
        d = int(rng.choice([2, 3, 4]))
        t0 = float(rng.uniform(-1.0, 1.0)) if i % 3 else 0.5
        ts = oracle_times(rng, "integrate", hk, t0)
        spec = make_spec(rng, d=d, isdop=isdop, method="integrate", hk=hk, cplx=bool(rng.integers(0, 2)),
                         t0=t0, ts=ts, api="at_times" if i % 4 == 0 else "update_to", compute=computes[i % 4],
                         mixed=bool(rng.integers(0, 2)), fname=["cos", "lin", "sin2"][(i // 3) % 3])
        ctx.count(("oracle_td", i, hk, isdop, d), len(ts) >= 2)
        ctx.bump(f"oracle:timedep:{'dop' if isdop else 'ket'}")
        report(ctx, spec, run_oracle(spec))
    # unsupported cells must be rejected, not evolved
    for method in METHODS:
        for hk in HKINDS:
            for int_stop in (False, True):
                if py_supported(method, hk, int_stop):
                    continue
                for isdop in (False, True):
                    ctx.count(("reject", method, hk, isdop, int_stop), True)
                    ctx.bump("oracle:must_reject")
                    check_rejected(ctx, method, isdop, hk, 3, int_stop)


# ----------------------------------------------------------------------------


def corpus_stream(ctx):
    cdir = os.path.join(os.path.dirname(os.path.dirname(os.path.abspath(__file__))), "corpus", "C18")
    if not os.path.isdir(cdir):
        return
    for fn in sorted(os.listdir(cdir)):
        if fn.endswith(".json"):
            with open(os.path.join(cdir, fn)) as f:
                spec = json.load(f)
            spec = spec.get("replay", spec)
            if spec.get("kind") == "oracle":
                ctx.count(("corpus", fn), True)
                ctx.bump("corpus")
                report(ctx, spec, run_oracle(spec))


def run(ctx):
    ctx.extra["rule"] = RULE
    ctx.trusted_base += [
        "hand-written model coq/C18/Model.v of quimb/evo.py (Evolution.__init__, _setup_solved_ham, _start_integrator/"
        "_calc_evo_eq, the five update routines, the t/pt properties, at_times, callback plumbing); tie = protocol-trace "
        "correspondence evaluated in Coq against the running implementation, observed by rebinding quimb.evo module "
        "globals (explt, ldmul, rdmul, expm_multiply, eigh, complex_ode, right-hand-side builders)",
        "oracle contract propagator_laws (C18/Model.v): eigh+explt, expm_multiply and the scipy ODE integrator deliver "
        "the one-parameter group exp(-iHt) / the time-ordered propagator exactly, and left/right multiplication "
        "commute.  Validated numerically by the oracle stream (test, tolerance 1e-7; 1e-4 for the integrator), not proved.",
        "the model has three version switches (behaviour of method='expm' on density operators; how a pre-diagonalised "
        "Hamiltonian is recognised; whether integrate skips a request for the current time); the harness detects which version the implementation is and the correspondence is "
        "run against that version; `current` = the unrepaired code, refuted by C18_expm_dop_refuted / C18_solve_dim2_refuted",
    ]
    ctx.assumptions += [
        "integrator accuracy, Lindblad dynamics, expm_multiply / eigh accuracy are modelled as exact oracles (contract), "
        "exercised only numerically",
        "evo.t after stepper.integrate(t) is compared after snapping to the requested dyadic time within 1e-11 relative "
        "(the Fortran stepper returns x + (xend - x))",
        "int_stop callbacks that actually stop the integration, progress bars, MPI/slepc expm backends and quimb's Lazy "
        "operators are outside the model",
    ]
    import time

    walls = ctx.extra.setdefault("stage_wall_s", {})
    t = time.time()
    ctx.check_props(["C18/Model.vo", "C18/Proofs.vo", "C18/Props.v"])
    walls["check_props"] = round(time.time() - t, 1)
    for fn in (corpus_stream, trace_stream, rhs_stream, oracle_stream):
        t = time.time()
        ctx.stage(fn)
        walls[fn.__name__] = round(time.time() - t, 1)


def replay(ctx, path):
    with open(path) as f:
        d = json.load(f)
    spec = d.get("replay", d)
    if isinstance(spec, dict) and spec.get("kind") == "oracle":
        ctx.extra["rule"] = "replay of one oracle case"
        ctx.count(("replay", path), True)
        fails = run_oracle(spec)
        print("replay:", fails if fails else "no failure")
        report(ctx, spec, fails)
    elif isinstance(spec, dict) and spec.get("kind") == "steps":
        ctx.extra["rule"] = "replay of one step-rule case"
        ctx.count(("replay", path), True)
        mism = step_probe(spec)
        print("replay:", mism if mism else "no failure")
        report_steps(ctx, spec, mism)
    elif isinstance(spec, dict) and spec.get("kind") == "must_reject":
        ctx.extra["rule"] = "replay of one must-be-rejected cell"
        ctx.count(("replay", path), True)
        check_rejected(ctx, spec["method"], spec["isdop"], spec["ham"], spec["d"], spec["int_stop"])
    else:
        run(ctx)
